// Package h is the core of the verification harness: per-shard run context
// (counters, clause statistics, distinct-case hashes, samples, violations,
// journal), result files, and deterministic PRNG streams.
package h

import (
	"encoding/binary"
	"encoding/json"
	"fmt"
	"hash/fnv"
	"math/rand/v2"
	"os"
	"runtime/debug"
	"sort"
	"strings"
	"sync"
)

// Case is a replayable case. Not every field is used by every property.
type Case struct {
	Kind   string            `json:"kind,omitempty"`
	Path   string            `json:"path,omitempty"`
	Doc    string            `json:"doc,omitempty"` // JSON text
	UseNum bool              `json:"usenum,omitempty"`
	Vars   string            `json:"vars,omitempty"` // JSON object text
	Silent bool              `json:"silent,omitempty"`
	TZ     bool              `json:"tz,omitempty"`
	Zone   string            `json:"zone,omitempty"`
	Entry  string            `json:"entry,omitempty"`
	Input  string            `json:"input,omitempty"` // raw input (may be non-UTF-8: see InputHex)
	Hex    string            `json:"hex,omitempty"`   // hex of raw input bytes when not valid UTF-8
	Extra  map[string]string `json:"extra,omitempty"`
}

// Violation is one observed refutation of a clause of a property.
type Violation struct {
	Prop     string            `json:"property"`
	Clause   string            `json:"clause"`
	Features map[string]string `json:"features,omitempty"`
	Detail   string            `json:"detail"`
	Case     Case              `json:"case"`
	Shrunk   *Case             `json:"shrunk,omitempty"`
}

// Sig is the de-duplication signature: clause + sorted features.
func (v *Violation) Sig() string {
	ks := make([]string, 0, len(v.Features))
	for k := range v.Features {
		ks = append(ks, k)
	}
	sort.Strings(ks)
	var sb strings.Builder
	sb.WriteString(v.Clause)
	for _, k := range ks {
		sb.WriteString(" " + k + "=" + v.Features[k])
	}
	return sb.String()
}

// ClauseStat counts what happened per clause.
type ClauseStat struct {
	Exercised int64 `json:"exercised"`
	Held      int64 `json:"held"`
	Skipped   int64 `json:"skipped"`
	Violated  int64 `json:"violated"`
}

// Result is what one worker shard writes.
type Result struct {
	Prop       string                 `json:"property"`
	Shard      int                    `json:"shard"`
	Evals      int64                  `json:"evaluations"`
	Clauses    map[string]*ClauseStat `json:"clauses"`
	Counters   map[string]int64       `json:"counters"`
	Samples    map[string][]any       `json:"samples"`
	Violations []Violation            `json:"violations"`
	VioCount   map[string]int64       `json:"violation_counts"` // by signature
	Notes      []string               `json:"notes,omitempty"`
	InfraError string                 `json:"infra_error,omitempty"`
	Exhaustive map[string]bool        `json:"exhaustive,omitempty"`
	NHashes    int                    `json:"nhashes"`
}

// Ctx is the run context of one shard of one property check.
type Ctx struct {
	Prop    string
	Tier    string
	Seed    uint64
	Shard   int
	NShards int
	WorkDir string

	mu         sync.Mutex
	evals      int64
	hashes     []uint64
	hashLimit  int
	clauses    map[string]*ClauseStat
	counters   map[string]int64
	samples    map[string][]any
	violations []Violation
	vioCount   map[string]int64
	notes      []string
	exhaustive map[string]bool
	journal    *os.File
	jbuf       []byte
}

const maxViolationsPerSig = 3
const maxViolationsPerShard = 400

func NewCtx(prop, tier string, seed uint64, shard, nshards int, workdir string) *Ctx {
	return &Ctx{
		Prop: prop, Tier: tier, Seed: seed, Shard: shard, NShards: nshards, WorkDir: workdir,
		clauses: map[string]*ClauseStat{}, counters: map[string]int64{},
		samples: map[string][]any{}, vioCount: map[string]int64{}, exhaustive: map[string]bool{},
	}
}

// Thorough reports whether this is the thorough tier.
func (c *Ctx) Thorough() bool { return c.Tier == "thorough" }

// N picks a case count by tier.
func (c *Ctx) N(quick, thorough int) int {
	if c.Thorough() {
		return thorough
	}
	return quick
}

// PerShard is the share of a total of n cases for this shard.
func (c *Ctx) PerShard(n int) int {
	q := n / c.NShards
	if c.Shard < n%c.NShards {
		q++
	}
	return q
}

// Mine reports whether global index i of an enumeration belongs to this shard.
func (c *Ctx) Mine(i int) bool { return i%c.NShards == c.Shard }

// Rand returns a PRNG stream determined by (seed, shard, name).
func (c *Ctx) Rand(name string) *rand.Rand {
	hh := fnv.New64a()
	hh.Write([]byte(name))
	return rand.New(rand.NewPCG(c.Seed*1000003+uint64(c.Shard), hh.Sum64()))
}

// RandGlobal returns a PRNG stream determined by (seed, name) only (the same
// in every shard), for building shared corpora.
func (c *Ctx) RandGlobal(name string) *rand.Rand {
	hh := fnv.New64a()
	hh.Write([]byte(name))
	return rand.New(rand.NewPCG(c.Seed*1000003+0xabcdef, hh.Sum64()))
}

func (c *Ctx) Eval(n int) {
	c.mu.Lock()
	c.evals += int64(n)
	c.mu.Unlock()
}

// Distinct records a non-trivial case by its identifying strings.
func (c *Ctx) Distinct(parts ...string) {
	hh := fnv.New64a()
	for _, p := range parts {
		hh.Write([]byte(p))
		hh.Write([]byte{0})
	}
	c.mu.Lock()
	c.hashes = append(c.hashes, hh.Sum64())
	if c.hashLimit < 1<<22 {
		c.hashLimit = 1 << 22
	}
	if len(c.hashes) > c.hashLimit {
		c.compactHashes()
		// (room for as many again before the next compaction: a shard with more
		// distinct cases than the limit must not sort them on every call)
		if 2*len(c.hashes) > c.hashLimit {
			c.hashLimit = 2 * len(c.hashes)
		}
	}
	c.mu.Unlock()
}

func (c *Ctx) compactHashes() {
	sort.Slice(c.hashes, func(i, j int) bool { return c.hashes[i] < c.hashes[j] })
	out := c.hashes[:0]
	var prev uint64
	for i, x := range c.hashes {
		if i == 0 || x != prev {
			out = append(out, x)
		}
		prev = x
	}
	c.hashes = out
}

func (c *Ctx) stat(clause string) *ClauseStat {
	s := c.clauses[clause]
	if s == nil {
		s = &ClauseStat{}
		c.clauses[clause] = s
	}
	return s
}

func (c *Ctx) Held(clause string) {
	c.mu.Lock()
	s := c.stat(clause)
	s.Exercised++
	s.Held++
	c.mu.Unlock()
}

func (c *Ctx) Skip(clause, reason string) {
	c.mu.Lock()
	s := c.stat(clause)
	s.Skipped++
	c.counters["skip:"+clause+":"+reason]++
	c.mu.Unlock()
}

func (c *Ctx) Count(key string, n int64) {
	c.mu.Lock()
	c.counters[key] += n
	c.mu.Unlock()
}

func (c *Ctx) Note(s string) {
	c.mu.Lock()
	c.notes = append(c.notes, s)
	c.mu.Unlock()
}

func (c *Ctx) SetExhaustive(part string) {
	c.mu.Lock()
	c.exhaustive[part] = true
	c.mu.Unlock()
}

// Sample keeps up to 2 samples per key.
func (c *Ctx) Sample(key string, v any) {
	c.mu.Lock()
	if len(c.samples[key]) < 2 {
		c.samples[key] = append(c.samples[key], v)
	}
	c.mu.Unlock()
}

// WantSample reports whether Sample(key) would still store something.
func (c *Ctx) WantSample(key string) bool {
	c.mu.Lock()
	defer c.mu.Unlock()
	return len(c.samples[key]) < 2
}

// Violate records a violation.
func (c *Ctx) Violate(clause string, features map[string]string, detail string, cs Case) {
	v := Violation{Prop: c.Prop, Clause: clause, Features: features, Detail: detail, Case: cs}
	sig := v.Sig()
	c.mu.Lock()
	s := c.stat(clause)
	s.Exercised++
	s.Violated++
	c.vioCount[sig]++
	if c.vioCount[sig] <= maxViolationsPerSig && len(c.violations) < maxViolationsPerShard {
		if len(v.Detail) > 2000 {
			v.Detail = v.Detail[:2000] + "…"
		}
		c.violations = append(c.violations, v)
	}
	c.mu.Unlock()
}

// F builds a feature map from key, value pairs.
func F(kv ...string) map[string]string {
	m := map[string]string{}
	for i := 0; i+1 < len(kv); i += 2 {
		m[kv[i]] = kv[i+1]
	}
	return m
}

// Journal records the case about to be executed so that a fatal crash of the
// worker can be attributed. Only used by hostile workloads.
func (c *Ctx) Journal(s string) {
	if c.journal == nil {
		f, err := os.Create(fmt.Sprintf("%s/shard-%d.journal", c.WorkDir, c.Shard))
		if err != nil {
			return
		}
		c.journal = f
	}
	if len(s) > 8000 {
		s = s[:8000]
	}
	c.jbuf = c.jbuf[:0]
	var l [4]byte
	binary.LittleEndian.PutUint32(l[:], uint32(len(s)))
	c.jbuf = append(c.jbuf, l[:]...)
	c.jbuf = append(c.jbuf, s...)
	_, _ = c.journal.WriteAt(c.jbuf, 0)
}

// ReadJournal returns the last journaled case of a shard.
func ReadJournal(workdir string, shard int) string {
	b, err := os.ReadFile(fmt.Sprintf("%s/shard-%d.journal", workdir, shard))
	if err != nil || len(b) < 4 {
		return ""
	}
	n := int(binary.LittleEndian.Uint32(b[:4]))
	if n > len(b)-4 {
		n = len(b) - 4
	}
	return string(b[4 : 4+n])
}

// Finish writes the shard result and hash files.
func (c *Ctx) Finish(infraErr string) error {
	c.mu.Lock()
	defer c.mu.Unlock()
	c.compactHashes()
	res := Result{
		Prop: c.Prop, Shard: c.Shard, Evals: c.evals, Clauses: c.clauses, Counters: c.counters,
		Samples: c.samples, Violations: c.violations, VioCount: c.vioCount, Notes: c.notes,
		InfraError: infraErr, Exhaustive: c.exhaustive, NHashes: len(c.hashes),
	}
	hb := make([]byte, 8*len(c.hashes))
	for i, x := range c.hashes {
		binary.LittleEndian.PutUint64(hb[8*i:], x)
	}
	if err := os.WriteFile(fmt.Sprintf("%s/shard-%d.hashes", c.WorkDir, c.Shard), hb, 0o644); err != nil {
		return err
	}
	b, err := json.Marshal(res)
	if err != nil {
		return err
	}
	return os.WriteFile(fmt.Sprintf("%s/shard-%d.json", c.WorkDir, c.Shard), b, 0o644)
}

// Guard runs f, converting a panic of the harness itself into an error string.
func Guard(f func()) (msg string) {
	defer func() {
		if r := recover(); r != nil {
			msg = fmt.Sprintf("harness panic: %v\n%s", r, debug.Stack())
		}
	}()
	f()
	return ""
}
