package h

import (
	"context"
	"encoding/json"
	"errors"
	"fmt"
	"math"
	"math/big"
	"runtime"
	"runtime/debug"
	"sort"
	"strings"
	"sync/atomic"
	"time"

	"github.com/theory/sqljson/path"
	"github.com/theory/sqljson/path/ast"
	"github.com/theory/sqljson/path/exec"
	"github.com/theory/sqljson/path/types"
)

// ---------------------------------------------------------------------------
// Per-call monitor, reachable from the hooks through the context.

type monKeyT struct{}

var monKey monKeyT

// CallMon observes one entry-point call through the verif hooks.
type CallMon struct {
	Steps       int      // evaluation steps (H1 events)
	Polls       int      // ctx.Done() calls
	Faults      []string // hook invariant failures
	CancelAt    int      // flip at the entry of step k (k>=1); 0: already done; <0: never
	Cause       error
	cancelled   bool
	StepsAfter  int // steps entered after the flip (the flipping step included)
	Calls       int // H2 call-start events
	YieldEvery  int // C19: Gosched every n steps (0 = never)
	cancelCause context.CancelCauseFunc
	// CancelAfterPoll: the context becomes done right after its n-th Done()
	// poll returned "not done" (between two polls, as a timer or another
	// goroutine would do it); PollsAfter counts the polls that saw it done.
	CancelAfterPoll int
	PollsAfter      int
	// PastDeadline: the context reports a deadline in the past (while Err()
	// still says what actually ended it, e.g. context.Canceled).
	PastDeadline bool
}

// MCtx is a context carrying a CallMon; its Done/Err are driven by the
// monitor's step clock, not by wall time.
type MCtx struct {
	context.Context
	M *CallMon
}

var closedCh = func() chan struct{} { c := make(chan struct{}); close(c); return c }()

func (c *MCtx) Value(k any) any {
	if _, ok := k.(monKeyT); ok {
		return c.M
	}
	return c.Context.Value(k)
}

func (c *MCtx) Done() <-chan struct{} {
	c.M.Polls++
	if c.M.cancelled {
		c.M.PollsAfter++
		return closedCh
	}
	if c.M.CancelAfterPoll > 0 && c.M.Polls == c.M.CancelAfterPoll {
		// done right after this poll: the poll itself still reports "not done"
		c.M.flip()
	}
	return nil
}

func (c *MCtx) Err() error {
	if c.M.cancelled {
		return c.M.Cause
	}
	return nil
}

// Deadline: none, or - for a context that was cancelled by its owner before
// a deadline that has passed since - a fixed instant in the past.
func (c *MCtx) Deadline() (time.Time, bool) {
	if c.M.PastDeadline {
		return time.Unix(1, 0), true
	}
	return time.Time{}, false
}

// NewMon returns a monitor that never cancels.
func NewMon() *CallMon { return &CallMon{CancelAt: -1} }

// Ctx wraps parent (may be nil) into a monitored context.
func (m *CallMon) Ctx(parent context.Context) context.Context {
	if parent == nil {
		parent = context.Background()
	}
	if m.CancelAt >= 0 || m.CancelAfterPoll > 0 {
		// The parent carries a caller-supplied cancellation cause, as a
		// worker pool using context.WithCancelCause would: context.Cause(ctx)
		// then differs from ctx.Err() - and even wraps exec.ErrVerbose. The
		// error a cancelled execution returns must be built from ctx.Err().
		parent, m.cancelCause = context.WithCancelCause(parent)
	}
	if m.CancelAt == 0 {
		m.flip()
	}
	return &MCtx{Context: parent, M: m}
}

// HostileCause is what context.Cause reports for a monitored context after
// its cancellation.
var HostileCause = fmt.Errorf("%w: a sibling worker failed (cause supplied by the caller)", exec.ErrVerbose)

func (m *CallMon) flip() {
	m.cancelled = true
	if m.cancelCause != nil {
		m.cancelCause(HostileCause)
	}
}

func monOf(ctx context.Context) *CallMon {
	m, _ := ctx.Value(monKey).(*CallMon)
	return m
}

// Global hook statistics (atomic; C19 runs concurrently).
var (
	GlobalSteps     atomic.Int64
	GlobalFaults    atomic.Int64
	GlobalFaultText atomic.Value // string
	InFlight        atomic.Int64
	MaxInFlight     atomic.Int64
	// StateSeen[nodeKind][valueKind][flags] counts H1 events.
	stateSeen [64][16][8]atomic.Int64
)

// NodeKind gives a small integer and name for a node.
func NodeKind(n ast.Node) (int, string) {
	switch n := n.(type) {
	case *ast.ConstNode:
		return int(n.Const()), "const:" + n.Const().String()
	case *ast.StringNode:
		return 8, "string"
	case *ast.IntegerNode:
		return 9, "integer"
	case *ast.NumericNode:
		return 10, "numeric"
	case *ast.VariableNode:
		return 11, "variable"
	case *ast.KeyNode:
		return 12, "key"
	case *ast.BinaryNode:
		return 13 + int(n.Operator()), "binary:" + n.Operator().String()
	case *ast.UnaryNode:
		return 30 + int(n.Operator()), "unary:" + n.Operator().String()
	case *ast.RegexNode:
		return 43, "like_regex"
	case *ast.MethodNode:
		return 44 + int(n.Name()), "method:" + n.Name().String()
	case *ast.AnyNode:
		return 57, "any"
	case *ast.ArrayIndexNode:
		return 58, "arrayindex"
	}
	return 63, "other"
}

var nodeKindNames [64]atomic.Value

// ValueKind classifies an item.
func ValueKind(v any) (int, string) {
	switch v.(type) {
	case nil:
		return 0, "null"
	case bool:
		return 1, "bool"
	case int64:
		return 2, "int64"
	case float64:
		return 3, "float64"
	case json.Number:
		return 4, "json.Number"
	case string:
		return 5, "string"
	case []any:
		return 6, "array"
	case map[string]any:
		return 7, "object"
	case *types.Date:
		return 8, "date"
	case *types.Time:
		return 9, "time"
	case *types.TimeTZ:
		return 10, "timetz"
	case *types.Timestamp:
		return 11, "timestamp"
	case *types.TimestampTZ:
		return 12, "timestamptz"
	}
	return 15, "other"
}

var valueKindNames = [16]string{"null", "bool", "int64", "float64", "json.Number", "string", "array", "object", "date", "time", "timetz", "timestamp", "timestamptz", "", "", "other"}

// NoSharedAtomics: while goroutines run concurrently under the race detector
// the hooks must not touch shared atomics - every atomic read-modify-write on
// a common address orders the goroutines (release/acquire) and hides the very
// races the detector is there to find. Set before the goroutines start,
// cleared after they have been joined; the hooks then use only the per-call
// monitor.
var NoSharedAtomics bool

// RecordStates controls whether H1 events are tallied into the state matrix.
var RecordStates = true

// InstallHooks sets the exec hooks. Call once, before starting goroutines.
func InstallHooks() {
	exec.VerifOnStep = func(ctx context.Context, ev *exec.VerifStepEvent) {
		if !NoSharedAtomics {
			GlobalSteps.Add(1)
		}
		if RecordStates && !NoSharedAtomics {
			nk, name := NodeKind(ev.Node)
			vk, _ := ValueKind(ev.Value)
			fl := 0
			if ev.Collecting {
				fl |= 1
			}
			if ev.Unwrap {
				fl |= 2
			}
			if ev.State.Lax {
				fl |= 4
			}
			if stateSeen[nk][vk][fl].Add(1) == 1 {
				nodeKindNames[nk].Store(name)
			}
		}
		if RequireMonitoredCtx && monOf(ctx) == nil {
			if am := activeMon.Load(); am != nil {
				am.Faults = append(am.Faults, fmt.Sprintf("context-replaced: %T evaluated with a context that is not derived from the caller's", ev.Node))
			}
		}
		if m := monOf(ctx); m != nil {
			m.Steps++
			if m.CancelAt > 0 && m.Steps == m.CancelAt {
				m.flip()
			}
			if m.cancelled {
				m.StepsAfter++
			}
			if m.YieldEvery > 0 && m.Steps%m.YieldEvery == 0 {
				runtime.Gosched()
			}
		}
	}
	exec.VerifOnFault = func(ctx context.Context, kind, detail string) {
		GlobalFaults.Add(1)
		GlobalFaultText.CompareAndSwap(nil, kind+": "+detail)
		if m := monOf(ctx); m != nil {
			m.Faults = append(m.Faults, kind+": "+detail)
		}
	}
	exec.VerifOnCall = func(ctx context.Context, end bool, _ exec.VerifState) {
		if NoSharedAtomics {
			if m := monOf(ctx); m != nil && !end {
				m.Calls++
			}
			return
		}
		if end {
			InFlight.Add(-1)
			return
		}
		n := InFlight.Add(1)
		for {
			mx := MaxInFlight.Load()
			if n <= mx || MaxInFlight.CompareAndSwap(mx, n) {
				break
			}
		}
		if m := monOf(ctx); m != nil {
			m.Calls++
		}
	}
}

// StatesSeen dumps the H1 state matrix as counters "state:<node>|<value>|<flags>".
func StatesSeen() map[string]int64 {
	out := map[string]int64{}
	for nk := range stateSeen {
		name, _ := nodeKindNames[nk].Load().(string)
		for vk := range stateSeen[nk] {
			for fl := range stateSeen[nk][vk] {
				n := stateSeen[nk][vk][fl].Load()
				if n == 0 {
					continue
				}
				f := ""
				if fl&1 != 0 {
					f += "collect"
				} else {
					f += "exists"
				}
				if fl&2 != 0 {
					f += "+unwrap"
				}
				if fl&4 != 0 {
					f += "+lax"
				} else {
					f += "+strict"
				}
				out["state:"+name+"|"+valueKindNames[vk]+"|"+f] = n
			}
		}
	}
	return out
}

// ---------------------------------------------------------------------------
// Outcomes of entry-point calls.

// Class of an error as the public API shows it.
const (
	OK      = "ok"
	Soft    = "soft"    // errors.Is ErrVerbose
	Hard    = "hard"    // errors.Is ErrExecution, not ErrVerbose
	Null    = "null"    // exec.NULL
	Invalid = "invalid" // errors.Is ErrInvalid
	Other   = "other"
	Panic   = "panic"
)

func ClassOf(err error) string {
	switch {
	case err == nil:
		return OK
	case err == exec.NULL: //nolint:errorlint
		return Null
	case errors.Is(err, exec.ErrInvalid):
		return Invalid
	case errors.Is(err, exec.ErrVerbose):
		return Soft
	case errors.Is(err, exec.ErrExecution):
		return Hard
	}
	return Other
}

// Out is the observed outcome of one entry-point call.
type Out struct {
	Entry  string
	Items  []any // Query
	Val    any   // First
	Bool   bool  // Exists/Match/ExistsOrMatch
	Err    error
	Class  string
	Panic  string
	Stack  string
	Faults []string
	Steps  int
	Polls  int
	Mon    *CallMon
}

func (o *Out) ErrText() string {
	if o.Panic != "" {
		return "PANIC: " + o.Panic
	}
	if o.Err == nil {
		return "<nil>"
	}
	return o.Err.Error()
}

// Summary renders an outcome compactly.
func (o *Out) Summary() string {
	switch {
	case o.Class == Panic:
		return "panic(" + o.Panic + ")"
	case o.Class != OK:
		return o.Class + "(" + o.ErrText() + ")"
	}
	switch o.Entry {
	case "query":
		return CanonList(o.Items)
	case "first":
		return Canon(o.Val)
	default:
		return fmt.Sprint(o.Bool)
	}
}

// Opts describes an option set.
type Opts struct {
	Vars   map[string]any
	Silent bool
	TZ     bool
	Zone   *time.Location // context zone (nil: none)
}

func (o Opts) Exec() []exec.Option {
	var r []exec.Option
	if o.Vars != nil {
		// Options are applied in order and the last WithVars wins: an earlier
		// one (a default set by a wrapper) must neither leak its bindings into
		// the call nor be written to.
		r = append(r, exec.WithVars(exec.Vars(earlierVars)), exec.WithVars(exec.Vars(o.Vars)))
	}
	if o.Silent {
		r = append(r, exec.WithSilent())
	}
	if o.TZ {
		r = append(r, exec.WithTZ())
	}
	return r
}

// earlierVars is passed in a WithVars option that a later WithVars overrides.
var earlierVars = map[string]any{"missing": "bound only in the overridden map", "earlier": int64(1)}

// EarlierVarsIntact reports whether the overridden variables map is untouched.
func EarlierVarsIntact() bool {
	return len(earlierVars) == 2 && earlierVars["missing"] == "bound only in the overridden map" && earlierVars["earlier"] == int64(1)
}

func (o Opts) BaseCtx() context.Context {
	ctx := context.Background()
	if o.Zone != nil {
		ctx = types.ContextWithTZ(ctx, o.Zone)
	}
	return ctx
}

var Entries = []string{"query", "first", "exists", "match", "existsormatch"}

// FaultSink, if set, receives every hook-invariant failure observed by a
// monitored call (whatever property's workload issued it).
var FaultSink func(entry string, p *path.Path, doc any, o Opts, faults []string)

// Call runs one entry point under a monitor and recover().
func Call(entry string, p *path.Path, doc any, o Opts) *Out {
	out := CallMonitored(entry, p, doc, o, NewMon())
	if entry == "query" && EntryMonitor && !NoSharedAtomics {
		entrySeq++
		if entrySeq%8 == 0 {
			entryCrossCheck(p, doc, o, out)
		}
	}
	return out
}

// EntryMonitor (single-threaded checks): every eighth Query call that succeeds
// without WithSilent - a complete, error-free evaluation - on inputs whose
// traversal order is determined (no object with several members, no
// .keyvalue()) is followed by First, Exists and the same Query again on the
// same inputs: First returns the first item (nil for none), Exists says
// whether there is one, and the repetition returns the same items.
// A disagreement is reported like a hook fault, whatever property's workload
// issued the call.
var EntryMonitor bool
var entrySeq int

func entryCrossCheck(p *path.Path, doc any, o Opts, q *Out) {
	if q.Class != OK || o.Silent || multiMember(doc) {
		return
	}
	for _, v := range o.Vars {
		if multiMember(v) {
			return
		}
	}
	txt := ""
	func() {
		defer func() { _ = recover() }()
		txt = p.String()
	}()
	if txt == "" || strings.Contains(txt, "keyvalue") {
		return
	}
	f := CallMonitored("first", p, doc, o, NewMon())
	e := CallMonitored("exists", p, doc, o, NewMon())
	q2 := CallMonitored("query", p, doc, o, NewMon())
	if f.Class == Panic || e.Class == Panic || q2.Class == Panic {
		return
	}
	var want any
	if len(q.Items) > 0 {
		want = q.Items[0]
	}
	var faults []string
	if f.Class != OK || CanonTyped(f.Val) != CanonTyped(want) {
		faults = append(faults, fmt.Sprintf("entry-points-disagree: Query succeeded with %s but First returned %s", q.Summary(), f.Summary()))
	}
	if e.Class != OK || e.Bool != (len(q.Items) > 0) {
		faults = append(faults, fmt.Sprintf("entry-points-disagree: Query succeeded with %d items but Exists returned %s", len(q.Items), e.Summary()))
	}
	if q2.Class != OK || CanonListTyped(q2.Items) != CanonListTyped(q.Items) {
		faults = append(faults, fmt.Sprintf("entry-points-disagree: Query returned %s and, repeated on the same inputs, %s", q.Summary(), q2.Summary()))
	}
	if len(faults) > 0 {
		q.Faults = append(q.Faults, faults...)
		if FaultSink != nil {
			FaultSink("query", p, doc, o, faults)
		}
	}
}

func multiMember(v any) bool {
	switch x := v.(type) {
	case map[string]any:
		if len(x) >= 2 {
			return true
		}
		for _, e := range x {
			if multiMember(e) {
				return true
			}
		}
	case []any:
		for _, e := range x {
			if multiMember(e) {
				return true
			}
		}
	}
	return false
}

// CallMonitored is Call with a caller-provided monitor (cancellation, yields).
func CallMonitored(entry string, p *path.Path, doc any, o Opts, m *CallMon) (out *Out) {
	out = &Out{Entry: entry, Mon: m}
	// The zone context wraps the monitored context so both are visible.
	ctx := m.Ctx(nil)
	if o.Zone != nil {
		// The caller's zone overrides one set further up the context chain
		// (a request context derived from a server-wide default).
		ctx = types.ContextWithTZ(types.ContextWithTZ(ctx, decoyZone), o.Zone)
	}
	if RequireMonitoredCtx {
		activeMon.Store(m)
		defer activeMon.Store(nil)
	}
	defer func() {
		if r := recover(); r != nil {
			out.Panic = fmt.Sprint(r)
			out.Stack = string(debug.Stack())
			out.Class = Panic
			// an aborted call leaves the in-flight gauge unbalanced only if
			// the panic bypassed the deferred hook, which it cannot.
		}
		if o.Vars != nil && !EarlierVarsIntact() {
			m.Faults = append(m.Faults, fmt.Sprintf("options-not-independent: the variables map of an overridden WithVars option was modified: %v", earlierVars))
			earlierVars = map[string]any{"missing": "bound only in the overridden map", "earlier": int64(1)}
		}
		out.Faults = m.Faults
		out.Steps = m.Steps
		out.Polls = m.Polls
		if len(m.Faults) > 0 && FaultSink != nil {
			FaultSink(entry, p, doc, o, m.Faults)
		}
	}()
	// The options arrive as a slice with spare capacity (a caller who built
	// them with append and passes opts...): the callee may read them, not
	// append to them - that would write into the caller's backing array.
	given := o.Exec()
	opts := make([]exec.Option, len(given), len(given)+3)
	copy(opts, given)
	defer func() {
		for _, x := range opts[len(given):cap(opts)] {
			if x != nil {
				// (reported by the deferred function above, which runs after this one)
				m.Faults = append(m.Faults, "options-slice-written: the call appended to the caller's option slice (spare capacity of the backing array overwritten)")
				break
			}
		}
	}()
	switch entry {
	case "query":
		out.Items, out.Err = p.Query(ctx, doc, opts...)
	case "first":
		out.Val, out.Err = p.First(ctx, doc, opts...)
	case "exists":
		out.Bool, out.Err = p.Exists(ctx, doc, opts...)
	case "match":
		out.Bool, out.Err = p.Match(ctx, doc, opts...)
	case "existsormatch":
		out.Bool, out.Err = p.ExistsOrMatch(ctx, doc, opts...)
	default:
		panic("unknown entry " + entry)
	}
	out.Class = ClassOf(out.Err)
	return out
}

// decoyZone is never the zone of a case: it is what a call sees if the zone
// the caller set last is lost.
var decoyZone = time.FixedZone("decoy", 7*3600+7*60)

// RequireMonitoredCtx (single-threaded checks only): every evaluation step of
// a monitored call must run with a context derived from the caller's - a step
// that polls some other context (context.Background, a detached copy) cannot
// see the caller's cancellation. Reported as hook fault "context-replaced".
var RequireMonitoredCtx bool
var activeMon atomic.Pointer[CallMon]

// ParseSafe parses under recover(); a panic is reported in perr.
func ParseSafe(text string) (p *path.Path, err error, panicked string) {
	defer func() {
		if r := recover(); r != nil {
			panicked = fmt.Sprint(r)
			p = nil
		}
	}()
	p, err = path.Parse(text)
	return p, err, ""
}

// ---------------------------------------------------------------------------
// JSON decoding and canonical encodings.

// Decode decodes JSON text either to float64 or to json.Number numbers.
func Decode(s string, useNum bool) any {
	d := json.NewDecoder(strings.NewReader(s))
	if useNum {
		d.UseNumber()
	}
	var v any
	if err := d.Decode(&v); err != nil {
		panic("harness: bad JSON " + s + ": " + err.Error())
	}
	return v
}

// DecodeVars decodes a JSON object text into a vars map ("" -> nil).
func DecodeVars(s string, useNum bool) map[string]any {
	if s == "" {
		return nil
	}
	m, ok := Decode(s, useNum).(map[string]any)
	if !ok {
		panic("harness: vars not an object: " + s)
	}
	return m
}

// Rat converts a numeric item to its exact rational value.
func Rat(v any) (*big.Rat, bool) {
	switch v := v.(type) {
	case int64:
		return new(big.Rat).SetInt64(v), true
	case float64:
		if math.IsInf(v, 0) || math.IsNaN(v) {
			return nil, false
		}
		return new(big.Rat).SetFloat64(v), true
	case json.Number:
		s := string(v)
		// bound the exponent so that SetString cannot build astronomically large integers
		if i := strings.IndexAny(s, "eE"); i >= 0 {
			exp := s[i+1:]
			if len(exp) > 6 {
				return nil, false
			}
		}
		r, ok := new(big.Rat).SetString(s)
		return r, ok
	}
	return nil, false
}

func IsNum(v any) bool {
	switch v.(type) {
	case int64, float64, json.Number:
		return true
	}
	return false
}

func SortedKeys(m map[string]any) []string {
	ks := make([]string, 0, len(m))
	for k := range m {
		ks = append(ks, k)
	}
	sort.Strings(ks)
	return ks
}

// Canon renders a value canonically *by value*: numbers by exact rational
// value (Go representation ignored), objects with sorted keys.
func Canon(v any) string {
	var sb strings.Builder
	canon(&sb, v, false)
	return sb.String()
}

// CanonTyped is Canon but keeps the Go representation of numbers.
func CanonTyped(v any) string {
	var sb strings.Builder
	canon(&sb, v, true)
	return sb.String()
}

func canon(sb *strings.Builder, v any, typed bool) {
	switch v := v.(type) {
	case nil:
		sb.WriteString("null")
	case bool:
		if v {
			sb.WriteString("true")
		} else {
			sb.WriteString("false")
		}
	case string:
		b, _ := json.Marshal(v)
		sb.Write(b)
	case int64, float64, json.Number:
		if typed {
			switch x := v.(type) {
			case int64:
				fmt.Fprintf(sb, "i%d", x)
			case float64:
				fmt.Fprintf(sb, "f%x", math.Float64bits(x))
			case json.Number:
				sb.WriteString("n" + string(x))
			}
			return
		}
		if f, ok := v.(float64); ok {
			if math.IsNaN(f) {
				sb.WriteString("#NaN")
				return
			}
			if math.IsInf(f, 0) {
				fmt.Fprintf(sb, "#Inf%v", f > 0)
				return
			}
		}
		r, ok := Rat(v)
		if !ok {
			fmt.Fprintf(sb, "#?%v", v)
			return
		}
		sb.WriteString("#" + r.RatString())
	case []any:
		sb.WriteByte('[')
		for i, x := range v {
			if i > 0 {
				sb.WriteByte(',')
			}
			canon(sb, x, typed)
		}
		sb.WriteByte(']')
	case map[string]any:
		sb.WriteByte('{')
		for i, k := range SortedKeys(v) {
			if i > 0 {
				sb.WriteByte(',')
			}
			b, _ := json.Marshal(k)
			sb.Write(b)
			sb.WriteByte(':')
			canon(sb, v[k], typed)
		}
		sb.WriteByte('}')
	case exec.Vars:
		canon(sb, map[string]any(v), typed)
	case *types.Date:
		sb.WriteString("date(" + v.Time.Format(time.RFC3339Nano) + ")")
	case *types.Time:
		sb.WriteString("time(" + v.Time.Format(time.RFC3339Nano) + ")")
	case *types.TimeTZ:
		sb.WriteString("timetz(" + v.Time.Format(time.RFC3339Nano) + ")")
	case *types.Timestamp:
		sb.WriteString("timestamp(" + v.Time.Format(time.RFC3339Nano) + ")")
	case *types.TimestampTZ:
		sb.WriteString("timestamptz(" + v.Time.Format(time.RFC3339Nano) + ")")
	default:
		fmt.Fprintf(sb, "?%T(%v)", v, v)
	}
}

func CanonList(xs []any) string {
	parts := make([]string, len(xs))
	for i, x := range xs {
		parts[i] = Canon(x)
	}
	return "[" + strings.Join(parts, " | ") + "]"
}

func CanonListTyped(xs []any) string {
	parts := make([]string, len(xs))
	for i, x := range xs {
		parts[i] = CanonTyped(x)
	}
	return "[" + strings.Join(parts, " | ") + "]"
}

// CanonBag renders a list as a sorted multiset.
func CanonBag(xs []any) string {
	parts := make([]string, len(xs))
	for i, x := range xs {
		parts[i] = Canon(x)
	}
	sort.Strings(parts)
	return "{" + strings.Join(parts, " | ") + "}"
}

// ParseZone parses "" (none), "UTC", "+05:30" style fixed offsets, or IANA names.
func ParseZone(s string) *time.Location {
	if s == "" {
		return nil
	}
	if s[0] == '+' || s[0] == '-' {
		var hh, mm int
		if _, err := fmt.Sscanf(s[1:], "%d:%d", &hh, &mm); err == nil {
			off := hh*3600 + mm*60
			if s[0] == '-' {
				off = -off
			}
			return time.FixedZone(s, off)
		}
	}
	loc, err := time.LoadLocation(s)
	if err != nil {
		panic("harness: zone " + s + ": " + err.Error())
	}
	return loc
}

// OptsOf builds Opts from a Case.
func OptsOf(cs Case) Opts {
	return Opts{Vars: DecodeVars(cs.Vars, cs.UseNum), Silent: cs.Silent, TZ: cs.TZ, Zone: ParseZone(cs.Zone)}
}

// SpareCap returns a deep copy of a decoded JSON value in which every array is
// a sub-slice of one shared backing array, laid out in document order with
// its capacity reaching to the end of that backing array (the shape a caller
// gets who cuts pages out of one big slice). A library that appends to a slice
// it was handed, instead of copying it, then writes into the arrays that
// follow - visible as a modified document.
func SpareCap(v any) any {
	total := 0
	var count func(v any)
	count = func(v any) {
		switch x := v.(type) {
		case []any:
			total += len(x)
			for _, e := range x {
				count(e)
			}
		case map[string]any:
			for _, e := range x {
				count(e)
			}
		}
	}
	count(v)
	pool := make([]any, total+8)
	off := 0
	var carve func(v any) any
	carve = func(v any) any {
		switch x := v.(type) {
		case []any:
			start := off
			off += len(x)
			for i, e := range x {
				pool[start+i] = carve(e)
			}
			return pool[start : start+len(x)]
		case map[string]any:
			m := make(map[string]any, len(x))
			for _, k := range SortedKeys(x) {
				m[k] = carve(x[k])
			}
			return m
		}
		return v
	}
	return carve(v)
}
