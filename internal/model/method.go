package model

import (
	"encoding/json"
	"math"
	"math/big"
	"regexp"
	"strconv"
	"strings"

	"github.com/theory/sqljson/path/types"
)

// (redundant leading zeros are still a decimal numeral: "010" is ten)
var jsonNumRe = regexp.MustCompile(`^-?[0-9]+(\.[0-9]+)?([eE][+-]?[0-9]+)?$`)
var intStrRe = regexp.MustCompile(`^-?[0-9]+$`)
var hasDigit = regexp.MustCompile(`[0-9]`)

// numericInput classifies the input of a numeric conversion method.
//
//	kind "int": integer representation (exact int64) -> i
//	kind "rat": exact rational value r with nearest double f
//	error: soft (not convertible) or unspec (spelling/size the docs do not pin)
func numericInput(v any, allowString bool) (i int64, isInt bool, r *big.Rat, f float64, err error) {
	switch x := v.(type) {
	case int64:
		return x, true, new(big.Rat).SetInt64(x), float64(x), nil
	case float64:
		if math.IsNaN(x) || math.IsInf(x, 0) {
			return 0, false, nil, 0, soft("NaN or Infinity is not allowed")
		}
		return 0, false, new(big.Rat).SetFloat64(x), x, nil
	case json.Number:
		if iv, ok := IntRepr(x); ok {
			return iv, true, new(big.Rat).SetInt64(iv), float64(iv), nil
		}
		rr, ok := Rat(x)
		if !ok {
			return 0, false, nil, 0, unspec("json.Number of unsupported size")
		}
		ff, _ := rr.Float64()
		if math.IsInf(ff, 0) {
			return 0, false, nil, 0, unspec("json.Number outside float64 range")
		}
		return 0, false, rr, ff, nil
	case string:
		if !allowString {
			return 0, false, nil, 0, soft("not a numeric value")
		}
		if !jsonNumRe.MatchString(x) {
			l := strings.ToLower(strings.TrimLeft(x, "+-"))
			if l == "nan" || l == "inf" || l == "infinity" {
				return 0, false, nil, 0, soft("NaN or Infinity is not allowed")
			}
			if !hasDigit.MatchString(x) {
				return 0, false, nil, 0, soft("string is not a number")
			}
			return 0, false, nil, 0, unspec("non-canonical numeric string")
		}
		if len(x) > 400 {
			return 0, false, nil, 0, unspec("very long numeric string")
		}
		if i := strings.IndexAny(x, "eE"); i >= 0 && len(x[i+1:]) > 5 {
			return 0, false, nil, 0, unspec("huge exponent")
		}
		rr, ok := new(big.Rat).SetString(x)
		if !ok {
			return 0, false, nil, 0, unspec("numeric string")
		}
		ff, _ := rr.Float64()
		if math.IsInf(ff, 0) {
			return 0, false, nil, 0, unspec("numeric string outside float64 range")
		}
		return 0, false, rr, ff, nil
	}
	return 0, false, nil, 0, soft("not a string or numeric value")
}

// roundHalfAway rounds r to an integer, ties away from zero.
func roundHalfAway(r *big.Rat) *big.Int {
	two := big.NewInt(2)
	num := new(big.Int).Mul(r.Num(), two)
	den := r.Denom()
	// floor((2n + d) / 2d) for positives; mirror for negatives
	neg := r.Sign() < 0
	if neg {
		num.Neg(num)
	}
	num.Add(num, den)
	q := new(big.Int).Quo(num, new(big.Int).Mul(den, two))
	if neg {
		q.Neg(q)
	}
	return q
}

var two53 = new(big.Rat).SetInt64(1 << 53)

func isTie(r *big.Rat) bool {
	// fractional part exactly 1/2
	d := new(big.Rat).Mul(r, new(big.Rat).SetInt64(2))
	return d.IsInt() && !r.IsInt()
}

// NumberAsDouble selects between behaviours the statement leaves open: the
// value .number() returns for an integer is pinned, whether it then counts as
// an integer or as a double operand of later arithmetic is not.
var NumberAsDouble = false

// Method is the leaf oracle of the conversion methods (everything except
// type, size, keyvalue and the datetime methods). p and s are the decimal()
// arguments.
func Method(name string, v any, p, s *int64) (any, error) {
	switch name {
	case "abs", "floor", "ceiling":
		i, isInt, r, f, err := numericInput(v, false)
		if err != nil {
			return nil, err
		}
		_ = r
		if isInt {
			if name == "abs" && i < 0 {
				if i == math.MinInt64 {
					return -float64(i), nil
				}
				return -i, nil
			}
			if i == math.MinInt64 {
				// the value is pinned, its representation (integer or double)
				// is not - and decides later arithmetic
				return nil, unspec("representation of the minimum int64 after " + name + "()")
			}
			return i, nil
		}
		switch name {
		case "abs":
			return math.Abs(f), nil
		case "floor":
			return math.Floor(f), nil
		default:
			return math.Ceil(f), nil
		}
	case "double", "number":
		i, isInt, r, f, err := numericInput(v, true)
		if err != nil {
			return nil, err
		}
		if isInt {
			if float64(i) != f || new(big.Rat).SetFloat64(f).Cmp(r) != 0 {
				if name == "number" {
					return nil, unspec("integer beyond float64 precision")
				}
			}
			if name == "number" && !NumberAsDouble && new(big.Rat).SetFloat64(f).Cmp(r) == 0 {
				return i, nil // same value
			}
			return f, nil
		}
		return f, nil
	case "decimal":
		_, _, r, _, err := numericInput(v, true)
		// precision and scale are checked on every numeric input
		if err != nil {
			return nil, err
		}
		if p == nil {
			f, _ := r.Float64()
			return f, nil
		}
		if *p > math.MaxInt32 || *p < math.MinInt32 || (s != nil && (*s > math.MaxInt32 || *s < math.MinInt32)) {
			// an argument that is not even an int32: PostgreSQL reports it through the
			// suppressible channel, the statement lists "invalid precision or scale" as
			// non-suppressible - not pinned
			return nil, unspec("decimal argument outside the int32 range")
		}
		if *p < 1 || *p > 1000 {
			return nil, hard("NUMERIC precision out of range")
		}
		scale := int64(0)
		if s != nil {
			scale = *s
			if scale < -1000 || scale > 1000 {
				return nil, hard("NUMERIC scale out of range")
			}
		}
		if scale > 30 || scale < -30 || *p > 60 {
			return nil, unspec("large precision/scale")
		}
		pow := new(big.Rat).SetInt(new(big.Int).Exp(big.NewInt(10), big.NewInt(abs64(scale)), nil))
		scaled := new(big.Rat)
		if scale >= 0 {
			scaled.Mul(r, pow)
		} else {
			scaled.Quo(r, pow)
		}
		if new(big.Rat).Abs(scaled).Cmp(new(big.Rat).Quo(two53, new(big.Rat).SetInt64(4))) > 0 {
			return nil, unspec("beyond float64 precision")
		}
		// values within one part in 10^9 of a rounding tie: binary vs decimal rounding may differ
		frac := new(big.Rat).Sub(scaled, new(big.Rat).SetInt(new(big.Int).Quo(scaled.Num(), scaled.Denom())))
		frac.Abs(frac)
		half := big.NewRat(1, 2)
		diff := new(big.Rat).Sub(frac, half)
		diff.Abs(diff)
		if diff.Sign() != 0 && diff.Cmp(big.NewRat(1, 1000000000)) < 0 {
			return nil, unspec("near a rounding tie")
		}
		q := roundHalfAway(scaled)
		// |rounded| < 10^(p-s)  <=>  |q| < 10^p, q being the value in units of 10^-s
		if new(big.Int).Abs(q).Cmp(new(big.Int).Exp(big.NewInt(10), big.NewInt(*p), nil)) >= 0 {
			return nil, soft("numeric field overflow")
		}
		res := new(big.Rat).SetInt(q)
		if scale >= 0 {
			res.Quo(res, pow)
		} else {
			res.Mul(res, pow)
		}
		f, _ := res.Float64()
		return f, nil
	case "integer", "bigint":
		if sv, ok := v.(string); ok {
			if !intStrRe.MatchString(sv) {
				if !hasDigit.MatchString(sv) {
					return nil, soft("string is not an integer")
				}
				return nil, unspec("non-canonical integer string")
			}
		}
		i, isInt, r, _, err := numericInput(v, true)
		if err != nil {
			return nil, err
		}
		if jn, ok := v.(json.Number); ok && !isInt && !Representable(jn) {
			return nil, unspec("json.Number that is neither an int64 nor exactly a double")
		}
		var q *big.Int
		if isInt {
			q = big.NewInt(i)
		} else {
			q = roundHalfAway(r)
		}
		lo, hi := int64(math.MinInt32), int64(math.MaxInt32)
		if name == "bigint" {
			lo, hi = math.MinInt64, math.MaxInt64
		}
		if !q.IsInt64() || q.Int64() < lo || q.Int64() > hi {
			return nil, soft("out of range for type " + name)
		}
		return q.Int64(), nil
	case "boolean":
		switch x := v.(type) {
		case bool:
			return x, nil
		case string:
			switch strings.ToLower(x) {
			case "t", "true", "y", "yes", "on", "1":
				return true, nil
			case "f", "false", "n", "no", "off", "0":
				return false, nil
			}
			if x == "" {
				return nil, soft("invalid boolean")
			}
			// PostgreSQL also accepts unique prefixes and surrounding blanks;
			// the documentation here lists exact words only: not pinned.
			lx := strings.ToLower(strings.TrimSpace(x))
			if lx != strings.ToLower(x) {
				return nil, unspec("boolean string with blanks")
			}
			for _, w := range []string{"true", "false", "yes", "no", "on", "off"} {
				if lx != "" && strings.HasPrefix(w, lx) {
					return nil, unspec("boolean string prefix")
				}
			}
			return nil, soft("invalid boolean")
		case int64, float64, json.Number:
			_, isInt, r, _, err := numericInput(v, false)
			if err != nil {
				return nil, err
			}
			if jn, ok := v.(json.Number); ok && !isInt && !Representable(jn) {
				return nil, unspec("json.Number that is neither an int64 nor exactly a double")
			}
			if !isInt && !r.IsInt() {
				return nil, soft("non-integral number is not a boolean")
			}
			return r.Sign() != 0, nil
		}
		return nil, soft("not a boolean, string or numeric value")
	case "string":
		switch x := v.(type) {
		case string:
			return x, nil
		case bool:
			if x {
				return "true", nil
			}
			return "false", nil
		case int64:
			return strconv.FormatInt(x, 10), nil
		case float64:
			if math.IsInf(x, 0) || math.IsNaN(x) {
				return nil, unspec("non-finite")
			}
			if x == 0 {
				// a zero double may carry a sign (-2.5 rounded to tens): text not pinned
				return nil, unspec("text of a floating-point zero")
			}
			return strconv.FormatFloat(x, 'f', -1, 64), nil
		case json.Number:
			if i, ok := IntRepr(x); ok && strconv.FormatInt(i, 10) == string(x) {
				return string(x), nil
			}
			if f, err := strconv.ParseFloat(string(x), 64); err == nil && strconv.FormatFloat(f, 'f', -1, 64) == string(x) {
				return string(x), nil
			}
			return nil, unspec("json.Number spelling")
		case types.DateTime:
			return x.String(), nil
		}
		return nil, soft("not a boolean, string, numeric or datetime value")
	}
	return nil, unspec("method " + name)
}

func abs64(x int64) int64 {
	if x < 0 {
		return -x
	}
	return x
}

func max64(a, b int64) int64 {
	if a > b {
		return a
	}
	return b
}
