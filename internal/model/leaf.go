package model

import (
	"encoding/json"
	"fmt"
	"math"
	"math/big"
	"sort"
	"strconv"
	"strings"

	"github.com/theory/sqljson/path/types"
)

// Tri is a three-valued truth value.
type Tri int

const (
	False Tri = iota
	True
	Unknown
)

func (t Tri) String() string { return [...]string{"false", "true", "unknown"}[t] }

func FromBool(b bool) Tri {
	if b {
		return True
	}
	return False
}

// Kleene connectives.
func Not(a Tri) Tri {
	switch a {
	case True:
		return False
	case False:
		return True
	}
	return Unknown
}

func And(a, b Tri) Tri {
	if a == False || b == False {
		return False
	}
	if a == True && b == True {
		return True
	}
	return Unknown
}

func Or(a, b Tri) Tri {
	if a == True || b == True {
		return True
	}
	if a == False && b == False {
		return False
	}
	return Unknown
}

// KVID stands for the address-derived id of a keyvalue() triple: only the
// partition it induces (same owner object = same id) is specified.
type KVID struct{ Owner string }

// Rat converts a numeric item to its exact rational value. ok=false for
// json.Numbers that are not plain decimal numbers of moderate size.
func Rat(v any) (*big.Rat, bool) {
	switch v := v.(type) {
	case int64:
		return new(big.Rat).SetInt64(v), true
	case float64:
		if math.IsInf(v, 0) || math.IsNaN(v) {
			return nil, false
		}
		return new(big.Rat).SetFloat64(v), true
	case json.Number:
		s := string(v)
		if i := strings.IndexAny(s, "eE"); i >= 0 && len(s[i+1:]) > 5 {
			return nil, false
		}
		r, ok := new(big.Rat).SetString(s)
		return r, ok
	}
	return nil, false
}

// IntRepr reports whether v has integer representation (int64, or a
// json.Number that parses as int64) and returns it.
func IntRepr(v any) (int64, bool) {
	switch v := v.(type) {
	case int64:
		return v, true
	case json.Number:
		i, err := strconv.ParseInt(string(v), 10, 64)
		return i, err == nil
	}
	return 0, false
}

// FloatRepr returns the double a non-integer-representation number denotes.
// ok=false when it is outside the finite doubles (unsupported by contract).
func FloatRepr(v any) (float64, bool) {
	switch v := v.(type) {
	case int64:
		return float64(v), true
	case float64:
		return v, !math.IsInf(v, 0) && !math.IsNaN(v)
	case json.Number:
		r, ok := Rat(v)
		if !ok {
			return 0, false
		}
		f, _ := r.Float64()
		if math.IsInf(f, 0) {
			return 0, false
		}
		return f, true
	}
	return 0, false
}

// NumberToItem converts a json.Number the way arithmetic sees it.
func NumberToItem(n json.Number) (any, error) {
	if i, ok := IntRepr(n); ok {
		return i, nil
	}
	if f, ok := FloatRepr(n); ok {
		return f, nil
	}
	return nil, unspec("json.Number outside int64 and float64 range")
}

// Negate is unary minus.
func Negate(v any) (any, error) {
	if i, ok := IntRepr(v); ok {
		if i == math.MinInt64 {
			return -float64(i), nil // does not fit: the double result
		}
		return -i, nil
	}
	if f, ok := FloatRepr(v); ok {
		return -f, nil
	}
	return nil, unspec("number outside int64 and float64 range")
}

// Alt selects between behaviours the statement leaves open.
var ExactIntQuotient = false

// Arith is binary arithmetic on two numeric items.
func Arith(op string, l, r any) (any, error) {
	if _, ok := l.(KVID); ok {
		return nil, unspec("keyvalue id in arithmetic")
	}
	if _, ok := r.(KVID); ok {
		return nil, unspec("keyvalue id in arithmetic")
	}
	li, lint := IntRepr(l)
	ri, rint := IntRepr(r)
	if lint && rint {
		a, b := big.NewInt(li), big.NewInt(ri)
		res := new(big.Int)
		switch op {
		case "+":
			res.Add(a, b)
		case "-":
			res.Sub(a, b)
		case "*":
			res.Mul(a, b)
		case "/":
			if ri == 0 {
				return nil, soft("division by zero")
			}
			if ExactIntQuotient {
				q := new(big.Rat).SetFrac(a, b)
				if q.IsInt() && q.Num().IsInt64() {
					return q.Num().Int64(), nil
				}
				f, _ := q.Float64()
				return f, nil
			}
			res.Quo(a, b)
		case "%":
			if ri == 0 {
				return nil, soft("division by zero")
			}
			res.Rem(a, b)
		}
		if res.IsInt64() {
			return res.Int64(), nil
		}
		return floatOp(op, float64(li), float64(ri))
	}
	lf, ok1 := FloatRepr(l)
	rf, ok2 := FloatRepr(r)
	if !ok1 || !ok2 {
		return nil, unspec("number outside int64 and float64 range")
	}
	return floatOp(op, lf, rf)
}

func floatOp(op string, a, b float64) (any, error) {
	var f float64
	switch op {
	case "+":
		f = a + b
	case "-":
		f = a - b
	case "*":
		f = a * b
	case "/":
		if b == 0 {
			return nil, soft("division by zero")
		}
		f = a / b
	case "%":
		if b == 0 {
			return nil, soft("division by zero")
		}
		f = math.Mod(a, b)
	}
	if math.IsInf(f, 0) || math.IsNaN(f) {
		return nil, soft("numeric result out of range")
	}
	return f, nil
}

// SubscriptValue converts the value of a subscript expression to a position.
func SubscriptValue(v any) (int, error) {
	if _, ok := v.(KVID); ok {
		return 0, unspec("keyvalue id as subscript")
	}
	if !isNum(v) {
		return 0, soft("array subscript is not a numeric value")
	}
	r, ok := Rat(v)
	if !ok {
		return 0, unspec("subscript number outside supported range")
	}
	if _, isInt := IntRepr(v); !isInt {
		if _, okf := FloatRepr(v); !okf {
			return 0, unspec("subscript number outside supported range")
		}
	}
	q := new(big.Int).Quo(r.Num(), r.Denom()) // truncates toward zero
	if !q.IsInt64() || q.Int64() > math.MaxInt32 || q.Int64() < math.MinInt32 {
		return 0, soft("array subscript out of integer range")
	}
	return int(q.Int64()), nil
}

// Representable reports whether the number's value is unambiguous in its
// representation: int64-range integers and finite doubles (json.Numbers whose
// text denotes exactly an int64 or round-trips through float64).
func Representable(v any) bool {
	switch v := v.(type) {
	case int64:
		return true
	case float64:
		return !math.IsInf(v, 0) && !math.IsNaN(v)
	case json.Number:
		if _, ok := IntRepr(v); ok {
			return true
		}
		r, ok := Rat(v)
		if !ok {
			return false
		}
		f, exact := r.Float64()
		return exact && !math.IsInf(f, 0)
	}
	return false
}

// Compare applies a comparison operator to two non-datetime items.
func Compare(op string, a, b any) (Tri, error) {
	if (a == nil) != (b == nil) {
		return FromBool(op == "!="), nil
	}
	var c int
	switch av := a.(type) {
	case nil:
		c = 0
	case bool:
		bv, ok := b.(bool)
		if !ok {
			return Unknown, nil
		}
		switch {
		case av == bv:
			c = 0
		case av:
			c = 1
		default:
			c = -1
		}
	case string:
		bv, ok := b.(string)
		if !ok {
			return Unknown, nil
		}
		c = strings.Compare(av, bv)
	case int64, float64, json.Number:
		if !isNum(b) {
			return Unknown, nil
		}
		if !Representable(a) || !Representable(b) {
			return Unknown, unspec("number not exactly representable")
		}
		ar, _ := Rat(a)
		br, _ := Rat(b)
		c = ar.Cmp(br)
	default:
		// arrays, objects
		return Unknown, nil
	}
	switch b.(type) {
	case []any, map[string]any:
		return Unknown, nil
	}
	return ApplyOp(op, c), nil
}

func ApplyOp(op string, c int) Tri {
	switch op {
	case "==":
		return FromBool(c == 0)
	case "!=":
		return FromBool(c != 0)
	case "<":
		return FromBool(c < 0)
	case ">":
		return FromBool(c > 0)
	case "<=":
		return FromBool(c <= 0)
	case ">=":
		return FromBool(c >= 0)
	}
	return Unknown
}

// TypeName is .type().
func TypeName(v any) string {
	switch v.(type) {
	case nil:
		return "null"
	case bool:
		return "boolean"
	case string:
		return "string"
	case int64, float64, json.Number, KVID:
		return "number"
	case []any:
		return "array"
	case map[string]any:
		return "object"
	case *types.Date:
		return "date"
	case *types.Time:
		return "time without time zone"
	case *types.TimeTZ:
		return "time with time zone"
	case *types.Timestamp:
		return "timestamp without time zone"
	case *types.TimestampTZ:
		return "timestamp with time zone"
	}
	return fmt.Sprintf("?%T", v)
}

// Key renders an item canonically by value (numbers by exact value).
func Key(v any) string {
	var sb strings.Builder
	key(&sb, v)
	return sb.String()
}

func key(sb *strings.Builder, v any) {
	switch v := v.(type) {
	case nil:
		sb.WriteString("null")
	case bool:
		fmt.Fprint(sb, v)
	case string:
		sb.WriteString(strconv.Quote(v))
	case KVID:
		sb.WriteString("id@" + v.Owner)
	case int64, float64, json.Number:
		if f, ok := v.(float64); ok && (math.IsNaN(f) || math.IsInf(f, 0)) {
			fmt.Fprintf(sb, "#%v", f)
			return
		}
		r, ok := Rat(v)
		if !ok {
			fmt.Fprintf(sb, "#?%v", v)
			return
		}
		sb.WriteString("#" + r.RatString())
	case []any:
		sb.WriteByte('[')
		for i, x := range v {
			if i > 0 {
				sb.WriteByte(',')
			}
			key(sb, x)
		}
		sb.WriteByte(']')
	case map[string]any:
		ks := make([]string, 0, len(v))
		for k := range v {
			ks = append(ks, k)
		}
		sort.Strings(ks)
		sb.WriteByte('{')
		for i, k := range ks {
			if i > 0 {
				sb.WriteByte(',')
			}
			sb.WriteString(strconv.Quote(k) + ":")
			key(sb, v[k])
		}
		sb.WriteByte('}')
	case types.DateTime:
		fmt.Fprintf(sb, "%T(%s)", v, v.GoTime().Format("2006-01-02T15:04:05.999999999Z07:00:00"))
	default:
		fmt.Fprintf(sb, "?%T(%v)", v, v)
	}
}

// NormalizeIDs replaces the ids of keyvalue triples by ordinal markers in
// order of first appearance, for both model output (KVID) and implementation
// output (int64 ids in {id,key,value} objects).
func NormalizeIDs(items []any) []any {
	seen := map[string]int{}
	var norm func(v any) any
	norm = func(v any) any {
		switch v := v.(type) {
		case map[string]any:
			if len(v) == 3 {
				id, ok1 := v["id"]
				_, ok2 := v["key"].(string)
				_, ok3 := v["value"]
				if ok1 && ok2 && ok3 {
					var k string
					switch id := id.(type) {
					case KVID:
						k = "m" + id.Owner
					case int64:
						k = fmt.Sprintf("i%d", id)
					default:
						return v
					}
					ord := func(k string) string {
						n, ok := seen[k]
						if !ok {
							n = len(seen) + 1
							seen[k] = n
						}
						return fmt.Sprintf("id#%d", n)
					}
					// the value of a triple of a triple may be an id too (an
					// int64 in implementation output: documents hold float64
					// or json.Number numbers, never int64)
					val := v["value"]
					switch x := val.(type) {
					case KVID:
						val = ord("m" + x.Owner)
					case int64:
						val = ord(fmt.Sprintf("i%d", x))
					default:
						val = norm(val)
					}
					return map[string]any{"id": ord(k), "key": v["key"], "value": val}
				}
			}
			// plain object: members cannot contain generated triples unless
			// they were inside the document, which never has them
			return v
		case []any:
			return v
		}
		return v
	}
	out := make([]any, len(items))
	for i, it := range items {
		out[i] = norm(it)
	}
	return out
}
