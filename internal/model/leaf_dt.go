package model

import (
	"context"
	"regexp"
	"strconv"
	"time"

	"github.com/theory/sqljson/path/ast"
	"github.com/theory/sqljson/path/types"
)

type timeLocation = time.Location

var (
	dateRe   = `(\d{4})-(\d{2})-(\d{2})`
	timeRe   = `(\d{2}):(\d{2}):(\d{2})(\.\d{1,9})?`
	zoneRe   = `(Z|[+-]\d{2}(?::\d{2})?)`
	reDate   = regexp.MustCompile(`^` + dateRe + `$`)
	reTime   = regexp.MustCompile(`^` + timeRe + `$`)
	reTimeTZ = regexp.MustCompile(`^` + timeRe + zoneRe + `$`)
	reTS     = regexp.MustCompile(`^` + dateRe + `[T ]` + timeRe + `$`)
	reTSTZ   = regexp.MustCompile(`^` + dateRe + `[T ]` + timeRe + zoneRe + `$`)
	looksDT  = regexp.MustCompile(`^[0-9 T:.Z+-]+$`)
)

// DT is a parsed datetime: kind and wall-clock components.
type DT struct {
	Kind string // date time timetz timestamp timestamptz
	T    time.Time
}

func atoi(s string) int { n, _ := strconv.Atoi(s); return n }

func validDate(y, m, d int) bool {
	if m < 1 || m > 12 || d < 1 {
		return false
	}
	t := time.Date(y, time.Month(m), d, 0, 0, 0, 0, time.UTC)
	return t.Day() == d && int(t.Month()) == m
}

func parseZone(z string) (*time.Location, bool) {
	if z == "Z" {
		return time.UTC, true
	}
	hh := atoi(z[1:3])
	mm := 0
	if len(z) == 6 {
		mm = atoi(z[4:6])
	}
	if hh > 23 || mm > 59 { // the docs do not say; Go's parser rejects some of these
		return nil, false
	}
	off := hh*3600 + mm*60
	if z[0] == '-' {
		off = -off
	}
	return time.FixedZone("", off), true
}

func fracNS(f string) int {
	if f == "" {
		return 0
	}
	f = f[1:]
	for len(f) < 9 {
		f += "0"
	}
	return atoi(f)
}

// ParseISO parses the documented ISO-8601 forms. ok=false: not one of them
// (suppressible error); unspecified=true: a form the documentation does not pin.
func ParseISO(s string) (dt DT, ok bool, unspecified bool) {
	mk := func(kind string, y, mo, d, hh, mi, ss, ns int, loc *time.Location) (DT, bool, bool) {
		if kind != "time" && kind != "timetz" && !validDate(y, mo, d) {
			return DT{}, false, false
		}
		if hh > 23 || mi > 59 || ss > 59 {
			return DT{}, false, false
		}
		if y == 0 && (kind == "date" || kind == "timestamp" || kind == "timestamptz") {
			return DT{}, false, true
		}
		return DT{Kind: kind, T: time.Date(y, time.Month(mo), d, hh, mi, ss, ns, loc)}, true, false
	}
	if m := reDate.FindStringSubmatch(s); m != nil {
		return mk("date", atoi(m[1]), atoi(m[2]), atoi(m[3]), 0, 0, 0, 0, time.UTC)
	}
	if m := reTime.FindStringSubmatch(s); m != nil {
		return mk("time", 0, 1, 1, atoi(m[1]), atoi(m[2]), atoi(m[3]), fracNS(m[4]), time.UTC)
	}
	if m := reTimeTZ.FindStringSubmatch(s); m != nil {
		loc, ok := parseZone(m[5])
		if !ok {
			return DT{}, false, true
		}
		return mk("timetz", 0, 1, 1, atoi(m[1]), atoi(m[2]), atoi(m[3]), fracNS(m[4]), loc)
	}
	if m := reTS.FindStringSubmatch(s); m != nil {
		return mk("timestamp", atoi(m[1]), atoi(m[2]), atoi(m[3]), atoi(m[4]), atoi(m[5]), atoi(m[6]), fracNS(m[7]), time.UTC)
	}
	if m := reTSTZ.FindStringSubmatch(s); m != nil {
		loc, ok := parseZone(m[8])
		if !ok {
			return DT{}, false, true
		}
		return mk("timestamptz", atoi(m[1]), atoi(m[2]), atoi(m[3]), atoi(m[4]), atoi(m[5]), atoi(m[6]), fracNS(m[7]), loc)
	}
	// Strings that look like a datetime but are not one of the documented
	// forms (single-digit fields, seconds offsets, >9 fractional digits ...)
	// are not pinned either way.
	if looksDT.MatchString(s) && len(s) >= 5 {
		return DT{}, false, true
	}
	return DT{}, false, false
}

func kindOfDT(v any) string {
	switch v.(type) {
	case *types.Date:
		return "date"
	case *types.Time:
		return "time"
	case *types.TimeTZ:
		return "timetz"
	case *types.Timestamp:
		return "timestamp"
	case *types.TimestampTZ:
		return "timestamptz"
	}
	return ""
}

// Build makes the implementation's value type from a model datetime.
func Build(dt DT) any {
	switch dt.Kind {
	case "date":
		return types.NewDate(dt.T)
	case "time":
		return types.NewTime(dt.T)
	case "timetz":
		return types.NewTimeTZ(dt.T)
	case "timestamp":
		return types.NewTimestamp(dt.T)
	default:
		return types.NewTimestampTZ(context.Background(), dt.T)
	}
}

func zoneOrUTC(z *time.Location) *time.Location {
	if z == nil {
		return time.UTC
	}
	return z
}

// fixedOffset reports the constant offset of a zone (ok=false for zones with transitions).
func fixedOffset(z *time.Location) (int, bool) {
	z = zoneOrUTC(z)
	_, o1 := time.Date(2023, 1, 15, 12, 0, 0, 0, z).Zone()
	_, o2 := time.Date(2023, 7, 15, 12, 0, 0, 0, z).Zone()
	_, o3 := time.Date(1950, 7, 15, 12, 0, 0, 0, z).Zone()
	_, o4 := time.Now().In(z).Zone()
	return o1, o1 == o2 && o2 == o3 && o3 == o4
}

// Cast converts dt to the target kind under the zone rules.
func Cast(dt DT, target string, useTZ bool, zone *time.Location) (DT, error) {
	z := zoneOrUTC(zone)
	if dt.Kind == target {
		return dt, nil
	}
	t := dt.T
	wall := func(loc *time.Location) time.Time {
		return time.Date(t.Year(), t.Month(), t.Day(), t.Hour(), t.Minute(), t.Second(), t.Nanosecond(), loc)
	}
	needTZ := func() error {
		if !useTZ {
			return hard("cannot convert value from " + dt.Kind + " to " + target + " without time zone usage")
		}
		return nil
	}
	notRec := soft(target + " format is not recognized")
	switch target {
	case "date":
		switch dt.Kind {
		case "timestamp":
			return DT{"date", time.Date(t.Year(), t.Month(), t.Day(), 0, 0, 0, 0, time.UTC)}, nil
		case "timestamptz":
			if err := needTZ(); err != nil {
				return DT{}, err
			}
			l := t.In(z)
			return DT{"date", time.Date(l.Year(), l.Month(), l.Day(), 0, 0, 0, 0, time.UTC)}, nil
		}
		return DT{}, notRec
	case "time":
		switch dt.Kind {
		case "timetz":
			if err := needTZ(); err != nil {
				return DT{}, err
			}
			return DT{"time", time.Date(0, 1, 1, t.Hour(), t.Minute(), t.Second(), t.Nanosecond(), time.UTC)}, nil
		case "timestamp":
			return DT{"time", time.Date(0, 1, 1, t.Hour(), t.Minute(), t.Second(), t.Nanosecond(), time.UTC)}, nil
		case "timestamptz":
			if err := needTZ(); err != nil {
				return DT{}, err
			}
			l := t.In(z)
			return DT{"time", time.Date(0, 1, 1, l.Hour(), l.Minute(), l.Second(), l.Nanosecond(), time.UTC)}, nil
		}
		return DT{}, notRec
	case "timetz":
		switch dt.Kind {
		case "time":
			if err := needTZ(); err != nil {
				return DT{}, err
			}
			off, ok := fixedOffset(z)
			if !ok {
				return DT{}, unspec("time -> timetz in a zone with transitions depends on today's date")
			}
			return DT{"timetz", time.Date(0, 1, 1, t.Hour(), t.Minute(), t.Second(), t.Nanosecond(), time.FixedZone("", off))}, nil
		case "timestamptz":
			l := t.In(z)
			_, off := l.Zone()
			return DT{"timetz", time.Date(0, 1, 1, l.Hour(), l.Minute(), l.Second(), l.Nanosecond(), time.FixedZone("", off))}, nil
		}
		return DT{}, notRec
	case "timestamp":
		switch dt.Kind {
		case "date":
			return DT{"timestamp", wall(time.UTC)}, nil
		case "timestamptz":
			if err := needTZ(); err != nil {
				return DT{}, err
			}
			l := t.In(z)
			return DT{"timestamp", time.Date(l.Year(), l.Month(), l.Day(), l.Hour(), l.Minute(), l.Second(), l.Nanosecond(), time.UTC)}, nil
		}
		return DT{}, notRec
	case "timestamptz":
		switch dt.Kind {
		case "date", "timestamp":
			if err := needTZ(); err != nil {
				return DT{}, err
			}
			l := wall(z)
			_, off := l.Zone()
			return DT{"timestamptz", l.In(time.FixedZone("", off))}, nil
		}
		return DT{}, notRec
	}
	return DT{}, unspec("cast target " + target)
}

func dtOf(v any) DT {
	d := v.(types.DateTime)
	return DT{Kind: kindOfDT(v), T: d.GoTime()}
}

// CompareDatetime compares two items at least one of which is a datetime.
func CompareDatetime(op string, a, b any, useTZ bool, zone *time.Location) (Tri, error) {
	if (a == nil) != (b == nil) {
		return FromBool(op == "!="), nil
	}
	if !isDatetime(a) || !isDatetime(b) {
		return Unknown, nil // different types
	}
	x, y := dtOf(a), dtOf(b)
	timeLike := func(k string) bool { return k == "time" || k == "timetz" }
	if timeLike(x.Kind) != timeLike(y.Kind) {
		return Unknown, nil
	}
	// common type: the zone-aware one if either is zone-aware
	common := x.Kind
	rank := map[string]int{"date": 0, "timestamp": 1, "timestamptz": 2, "time": 0, "timetz": 2}
	if rank[y.Kind] > rank[x.Kind] {
		common = y.Kind
	}
	cx, err := Cast(x, common, useTZ, zone)
	if err != nil {
		return Unknown, err
	}
	cy, err := Cast(y, common, useTZ, zone)
	if err != nil {
		return Unknown, err
	}
	c := cx.T.Compare(cy.T)
	if common == "timetz" && c == 0 {
		_, o1 := cx.T.Zone()
		_, o2 := cy.T.Zone()
		switch {
		case o1 > o2:
			c = -1
		case o1 < o2:
			c = 1
		}
	}
	return ApplyOp(op, c), nil
}

func (e *env) datetime(n *ast.UnaryNode, item any, unwrap bool, next func(any) error, unwrapSelf func([]any) error) error {
	if arr, ok := item.([]any); ok && unwrap {
		return unwrapSelf(arr)
	}
	s, ok := item.(string)
	if !ok {
		return soft("datetime method applied to a non-string")
	}
	var target string
	switch n.Operator() {
	case ast.UnaryDateTime:
		target = ""
	case ast.UnaryDate:
		target = "date"
	case ast.UnaryTime:
		target = "time"
	case ast.UnaryTimeTZ:
		target = "timetz"
	case ast.UnaryTimestamp:
		target = "timestamp"
	case ast.UnaryTimestampTZ:
		target = "timestamptz"
	default:
		return unspec("unary operator")
	}
	prec := -1
	if arg := n.Operand(); arg != nil {
		switch a := arg.(type) {
		case *ast.StringNode:
			if a != nil {
				return hard(".datetime(template) is not supported")
			}
		case *ast.IntegerNode:
			if a != nil && target != "" && target != "date" {
				v := a.Int()
				if v > 2147483647 || v < -2147483648 {
					return soft("time precision out of integer range")
				}
				if v < 0 {
					return soft("time precision is invalid")
				}
				prec = int(v)
				if prec > 6 {
					prec = 6
				}
			}
		}
	}
	dt, ok, un := ParseISO(s)
	if un {
		return unspec("datetime spelling not pinned by the documentation")
	}
	if !ok {
		return soft("datetime format is not recognized")
	}
	if prec >= 0 && dt.Kind != "date" {
		unit := time.Second
		for i := 0; i < prec; i++ {
			unit /= 10
		}
		r := dt.T.Round(unit)
		if dt.Kind == "time" || dt.Kind == "timetz" {
			// time-of-day wraps around midnight
			r = time.Date(0, 1, 1, r.Hour(), r.Minute(), r.Second(), r.Nanosecond(), r.Location())
		}
		dt.T = r
	}
	if target != "" {
		var err error
		dt, err = Cast(dt, target, e.useTZ, e.zone)
		if err != nil {
			return err
		}
	}
	return next(Build(dt))
}
