// Package model is the harness' reference evaluator of SQL/JSON path
// semantics (lax/strict), written in direct stream style from the documented
// rules. It shares no code with path/exec. It walks the parser's tree through
// exported accessors only.
//
// Object member order is left open by the rules: every expansion of an object
// consults a "choice script", and Eval enumerates the scripts, so the result
// is the SET of outcomes a correct implementation may produce.
package model

import (
	"encoding/json"
	"errors"
	"fmt"
	"math"
	"regexp"
	"sort"
	"strings"

	"github.com/theory/sqljson/path/ast"

	"github.com/theory/sqljson/path/types"
	"verif/internal/gen"
)

// Classes of model outcomes.
const (
	OK     = "ok"
	Soft   = "soft"
	Hard   = "hard"
	Unspec = "unspec"
)

type mErr struct {
	kind string
	msg  string
}

func (e *mErr) Error() string { return e.kind + ": " + e.msg }
func soft(m string) error     { return &mErr{Soft, m} }
func hard(m string) error     { return &mErr{Hard, m} }
func unspec(m string) error   { return &mErr{Unspec, m} }

func kindOf(err error) string {
	var me *mErr
	if errors.As(err, &me) {
		return me.kind
	}
	return "?"
}

var errStop = errors.New("stop")

// Dev are named deviation switches: each reproduces one recorded defect of
// the implementation, so that a disagreement can be attributed to it.
type Dev struct {
	SubscriptSkipsNull     bool // R1: a[i] drops JSON null elements
	UnaryExistsShortcut    bool // R6: exists-mode unary +/- accepts non-numeric operands
	IsUnknownSwallowsHard  bool // is unknown maps a hard error of its operand to true
	DatetimeVsOtherInvalid bool // R10: comparing a datetime with a non-datetime is an ErrInvalid error
}

// Options of one evaluation.
type Options struct {
	Vars  map[string]any
	UseTZ bool
	Zone  *timeLocation // context zone (nil = UTC)
	Dev   Dev
}

type env struct {
	root, cur any
	last      int
	// lastLex: the array of the subscript whose brackets lexically enclose the
	// expression being evaluated. It differs from last (which follows the
	// evaluation: the array of the subscript step still in progress) exactly
	// in the steps that follow a nested subscript, e.g. the filter of
	// $.a[$.b[0] ? (@ <= last)] - there the statements of C09/C14 read one
	// way and PostgreSQL behaves the other: not pinned.
	lastLex     int
	vars        map[string]any
	lax         bool
	ignore      bool
	useTZ       bool
	zone        *timeLocation
	dev         Dev
	existsDepth int // >0 while evaluating a lax exists() operand (early-exit mode)

	script []int
	radix  []int
	pos    int
}

// order returns the keys of m in the order selected by the choice script.
func (e *env) order(m map[string]any) []string {
	ks := make([]string, 0, len(m))
	for k := range m {
		ks = append(ks, k)
	}
	sort.Strings(ks)
	n := len(ks)
	if n < 2 {
		return ks
	}
	f := 1
	for i := 2; i <= n; i++ {
		f *= i
	}
	if n > 5 {
		f = 120 // cap: only the first 120 permutations of large objects
	}
	var c int
	if e.pos < len(e.script) {
		c = e.script[e.pos]
	} else {
		e.script = append(e.script, 0)
	}
	if e.pos < len(e.radix) {
		e.radix[e.pos] = f
	} else {
		e.radix = append(e.radix, f)
	}
	e.pos++
	// c-th permutation (factorial number system)
	out := make([]string, 0, n)
	rest := append([]string(nil), ks...)
	for i := n; i >= 1; i-- {
		ff := 1
		for j := 2; j < i; j++ {
			ff *= j
		}
		idx := (c / ff) % i
		c %= ff
		out = append(out, rest[idx])
		rest = append(rest[:idx], rest[idx+1:]...)
	}
	return out
}

// Outcome is one possible result: the items produced before the terminal
// error (if any) and the error class.
type Outcome struct {
	Items []any
	Class string // ok | soft | hard | unspec
	Msg   string
}

// Result is the set of possible outcomes over member orders.
type Result struct {
	Outcomes []Outcome
	Capped   bool // enumeration of member orders was cut short
	Unspec   string
}

const maxScripts = 96

// Eval evaluates path a on doc under every member order (up to a cap).
func Eval(a *ast.AST, doc any, opt Options) Result {
	var res Result
	seen := map[string]bool{}
	script := []int{}
	for n := 0; ; n++ {
		if n >= maxScripts {
			res.Capped = true
			break
		}
		e := &env{root: doc, cur: doc, last: -1, lastLex: -1, vars: opt.Vars, lax: a.IsLax(), ignore: a.IsLax(),
			useTZ: opt.UseTZ, zone: opt.Zone, dev: opt.Dev, script: script}
		var items []any
		err := e.step(a.Root(), doc, e.lax, func(v any) error { items = append(items, v); return nil })
		o := Outcome{Items: items, Class: OK}
		if err != nil {
			o.Class = kindOf(err)
			o.Msg = err.Error()
			if o.Class == Unspec {
				res.Unspec = o.Msg
				res.Outcomes = nil
				return res
			}
		}
		for _, it := range items {
			if bareID(it, true) {
				res.Unspec = "unspec: a keyvalue id is returned outside its triple (ids are address-derived)"
				res.Outcomes = nil
				return res
			}
		}
		key := o.Class + "|" + keyOf(items)
		if !seen[key] {
			seen[key] = true
			res.Outcomes = append(res.Outcomes, o)
		}
		// next script (DFS odometer)
		script = append([]int(nil), e.script[:min(len(e.script), e.pos)]...)
		radix := e.radix
		i := len(script) - 1
		for ; i >= 0; i-- {
			if script[i]+1 < radix[i] {
				script[i]++
				script = script[:i+1]
				break
			}
		}
		if i < 0 {
			break
		}
	}
	return res
}

func keyOf(items []any) string {
	var sb strings.Builder
	for _, it := range items {
		sb.WriteString(Key(it))
		sb.WriteByte('|')
	}
	return sb.String()
}

func isNum(v any) bool {
	switch v.(type) {
	case int64, float64, json.Number:
		return true
	}
	return false
}

func triVal(t Tri) any {
	switch t {
	case True:
		return true
	case False:
		return false
	}
	return nil
}

// step executes node n on item and feeds results to the rest of the chain.
func (e *env) step(n ast.Node, item any, unwrap bool, out func(any) error) error {
	next := func(v any) error {
		if nx := n.Next(); nx != nil {
			return e.step(nx, v, e.lax, out)
		}
		return out(v)
	}
	structural := func(msg string) error {
		if !e.ignore {
			return soft(msg)
		}
		return nil
	}
	unwrapSelf := func(arr []any) error {
		for _, el := range arr {
			if err := e.step(n, el, false, out); err != nil {
				return err
			}
		}
		return nil
	}
	switch n := n.(type) {
	case *ast.ConstNode:
		switch n.Const() {
		case ast.ConstRoot:
			return next(e.root)
		case ast.ConstCurrent:
			return next(e.cur)
		case ast.ConstNull:
			return next(nil)
		case ast.ConstTrue:
			return next(true)
		case ast.ConstFalse:
			return next(false)
		case ast.ConstLast:
			if e.last < 0 {
				return hard("last outside subscript")
			}
			if e.last != e.lastLex {
				return unspec("last in the steps that follow a nested subscript")
			}
			return next(int64(e.last - 1))
		case ast.ConstAnyKey:
			switch it := item.(type) {
			case map[string]any:
				for _, k := range e.order(it) {
					if err := next(it[k]); err != nil {
						return err
					}
				}
				return nil
			case []any:
				if unwrap {
					return unwrapSelf(it)
				}
			}
			return structural("wildcard member accessor on non-object")
		case ast.ConstAnyArray:
			if arr, ok := item.([]any); ok {
				for _, el := range arr {
					if err := next(el); err != nil {
						return err
					}
				}
				return nil
			}
			if e.lax {
				return next(item)
			}
			return structural("wildcard array accessor on non-array")
		}
	case *ast.StringNode:
		return next(n.Text())
	case *ast.IntegerNode:
		return next(n.Int())
	case *ast.NumericNode:
		return next(n.Float())
	case *ast.VariableNode:
		v, ok := e.vars[n.Text()]
		if !ok {
			return hard("could not find jsonpath variable")
		}
		return next(v)
	case *ast.KeyNode:
		switch it := item.(type) {
		case map[string]any:
			if v, ok := it[n.Text()]; ok {
				return next(v)
			}
			return structural("no such key")
		case []any:
			if unwrap {
				return unwrapSelf(it)
			}
		}
		return structural("member accessor on non-object")
	case *ast.BinaryNode:
		switch n.Operator() {
		case ast.BinaryAdd, ast.BinarySub, ast.BinaryMul, ast.BinaryDiv, ast.BinaryMod:
			v, err := e.arith(n, item)
			if err != nil {
				return err
			}
			return next(v)
		case ast.BinaryDecimal:
			return e.method("decimal", n, item, unwrap, next, unwrapSelf)
		case ast.BinarySubscript:
			return hard("subscript outside of array subscript")
		default:
			t, err := e.pred(n, item)
			if err != nil {
				return err
			}
			return next(triVal(t))
		}
	case *ast.RegexNode:
		t, err := e.pred(n, item)
		if err != nil {
			return err
		}
		return next(triVal(t))
	case *ast.UnaryNode:
		switch n.Operator() {
		case ast.UnaryNot, ast.UnaryIsUnknown, ast.UnaryExists:
			t, err := e.pred(n, item)
			if err != nil {
				return err
			}
			return next(triVal(t))
		case ast.UnaryFilter:
			if arr, ok := item.([]any); ok && unwrap {
				return unwrapSelf(arr)
			}
			saved := e.cur
			e.cur = item
			t, err := e.pred(n.Operand(), item)
			e.cur = saved
			if err != nil {
				return err
			}
			if t == True {
				return next(item)
			}
			return nil
		case ast.UnaryPlus, ast.UnaryMinus:
			savedED := e.existsDepth
			e.existsDepth = 0
			seq, err := e.seq(n.Operand(), item, true)
			e.existsDepth = savedED
			if err != nil {
				return err
			}
			for _, v := range seq {
				if _, isID := v.(KVID); isID {
					return unspec("keyvalue id in arithmetic")
				}
				if !isNum(v) {
					if e.dev.UnaryExistsShortcut && e.existsDepth > 0 && n.Next() == nil {
						if err := next(v); err != nil {
							return err
						}
						continue
					}
					return soft("operand of unary operator is not numeric")
				}
				r := v
				if n.Operator() == ast.UnaryMinus {
					var err error
					r, err = Negate(v)
					if err != nil {
						return err
					}
				} else if jn, ok := v.(json.Number); ok {
					r, err = NumberToItem(jn)
					if err != nil {
						return err
					}
				}
				if err := next(r); err != nil {
					return err
				}
			}
			return nil
		default:
			return e.datetime(n, item, unwrap, next, unwrapSelf)
		}
	case *ast.MethodNode:
		return e.method(methodName(n.Name()), n, item, unwrap, next, unwrapSelf)
	case *ast.AnyNode:
		first, last := n.First(), n.Last()
		withIgnore := func(f func() error) error {
			saved := e.ignore
			e.ignore = true
			err := f()
			e.ignore = saved
			return err
		}
		if first == 0 {
			if err := withIgnore(func() error { return next(item) }); err != nil {
				return err
			}
		}
		var walk func(v any, level uint32) error
		walk = func(v any, level uint32) error {
			if level > last {
				return nil
			}
			var kids []any
			switch c := v.(type) {
			case map[string]any:
				for _, k := range e.order(c) {
					kids = append(kids, c[k])
				}
			case []any:
				kids = c
			default:
				return nil
			}
			for _, kid := range kids {
				_, isMap := kid.(map[string]any)
				_, isArr := kid.([]any)
				leaf := !isMap && !isArr
				if level >= first || (first == math.MaxUint32 && last == math.MaxUint32 && leaf) {
					if err := withIgnore(func() error { return next(kid) }); err != nil {
						return err
					}
				}
				if level < last {
					if err := walk(kid, level+1); err != nil {
						return err
					}
				}
			}
			return nil
		}
		return walk(item, 1)
	case *ast.ArrayIndexNode:
		arr, ok := item.([]any)
		if !ok {
			if !e.lax {
				// also below .**: only member accessors skip there
				return soft("array accessor on non-array")
			}
			arr = []any{item}
		}
		size := len(arr)
		savedLast := e.last
		defer func() { e.last = savedLast }()
		for _, sub := range n.Subscripts() {
			b, ok := sub.(*ast.BinaryNode)
			if !ok {
				return unspec("subscript node")
			}
			e.last = size
			from, err := e.index(b.Left(), item)
			if err != nil {
				return err
			}
			to := from
			if b.Right() != nil {
				to, err = e.index(b.Right(), item)
				if err != nil {
					return err
				}
			}
			if !e.ignore && (from < 0 || from > to || to >= size) {
				return soft("array subscript out of bounds")
			}
			if from < 0 {
				from = 0
			}
			if to >= size {
				to = size - 1
			}
			for i := from; i <= to; i++ {
				if arr[i] == nil && e.dev.SubscriptSkipsNull {
					continue
				}
				// `last` used by the continuation of a subscripted step still
				// denotes this array (dynamic extent, as in PostgreSQL).
				if err := next(arr[i]); err != nil {
					return err
				}
			}
		}
		return nil
	}
	return unspec(fmt.Sprintf("node %T", n))
}

// seq evaluates an operand expression into a list; unwrapRes unwraps arrays
// in the result (lax only).
func (e *env) seq(n ast.Node, item any, unwrapRes bool) ([]any, error) {
	var res []any
	err := e.step(n, item, e.lax, func(v any) error {
		if arr, ok := v.([]any); ok && unwrapRes && e.lax {
			res = append(res, arr...)
			return nil
		}
		res = append(res, v)
		return nil
	})
	return res, err
}

// seqSilent: suppressible errors make the operand "failed" (ok=false).
func (e *env) seqSilent(n ast.Node, item any, unwrapRes bool) ([]any, bool, error) {
	saved := e.existsDepth
	e.existsDepth = 0
	res, err := e.seq(n, item, unwrapRes)
	e.existsDepth = saved
	if err != nil {
		if kindOf(err) == Soft {
			return nil, false, nil
		}
		return nil, false, err
	}
	return res, true, nil
}

func (e *env) index(n ast.Node, item any) (int, error) {
	saved := e.existsDepth
	e.existsDepth = 0
	savedLex := e.lastLex
	e.lastLex = e.last
	res, err := e.seq(n, item, false)
	e.lastLex = savedLex
	e.existsDepth = saved
	if err != nil {
		return 0, err
	}
	if len(res) != 1 {
		return 0, soft("array subscript is not a single numeric value")
	}
	return SubscriptValue(res[0])
}

func (e *env) arith(n *ast.BinaryNode, item any) (any, error) {
	saved := e.existsDepth
	e.existsDepth = 0
	defer func() { e.existsDepth = saved }()
	l, err := e.seq(n.Left(), item, true)
	if err != nil {
		return nil, err
	}
	if len(l) != 1 {
		return nil, soft("left operand is not a single numeric value")
	}
	r, err := e.seq(n.Right(), item, true)
	if err != nil {
		return nil, err
	}
	if len(r) != 1 {
		return nil, soft("right operand is not a single numeric value")
	}
	if _, ok := l[0].(KVID); ok {
		return nil, unspec("keyvalue id in arithmetic")
	}
	if _, ok := r[0].(KVID); ok {
		return nil, unspec("keyvalue id in arithmetic")
	}
	if !isNum(l[0]) || !isNum(r[0]) {
		return nil, soft("operand is not a single numeric value")
	}
	return Arith(binOp(n.Operator()), l[0], r[0])
}

func binOp(op ast.BinaryOperator) string {
	switch op {
	case ast.BinaryAdd:
		return "+"
	case ast.BinarySub:
		return "-"
	case ast.BinaryMul:
		return "*"
	case ast.BinaryDiv:
		return "/"
	case ast.BinaryMod:
		return "%"
	case ast.BinaryEqual:
		return "=="
	case ast.BinaryNotEqual:
		return "!="
	case ast.BinaryLess:
		return "<"
	case ast.BinaryGreater:
		return ">"
	case ast.BinaryLessOrEqual:
		return "<="
	case ast.BinaryGreaterOrEqual:
		return ">="
	}
	return "?"
}

func (e *env) pred(n ast.Node, item any) (Tri, error) {
	switch n := n.(type) {
	case *ast.BinaryNode:
		switch n.Operator() {
		case ast.BinaryAnd:
			l, err := e.pred(n.Left(), item)
			if err != nil {
				return Unknown, err
			}
			if l == False {
				return False, nil
			}
			r, err := e.pred(n.Right(), item)
			if err != nil {
				return Unknown, err
			}
			return And(l, r), nil
		case ast.BinaryOr:
			l, err := e.pred(n.Left(), item)
			if err != nil {
				return Unknown, err
			}
			if l == True {
				return True, nil
			}
			r, err := e.pred(n.Right(), item)
			if err != nil {
				return Unknown, err
			}
			return Or(l, r), nil
		case ast.BinaryStartsWith:
			return e.pairs(n.Left(), n.Right(), item, false, func(a, b any) (Tri, error) {
				s, ok1 := a.(string)
				p, ok2 := b.(string)
				if !ok1 || !ok2 {
					return Unknown, nil
				}
				return FromBool(strings.HasPrefix(s, p)), nil
			})
		case ast.BinaryEqual, ast.BinaryNotEqual, ast.BinaryLess, ast.BinaryGreater, ast.BinaryLessOrEqual, ast.BinaryGreaterOrEqual:
			op := binOp(n.Operator())
			return e.pairs(n.Left(), n.Right(), item, true, func(a, b any) (Tri, error) {
				return e.compare(op, a, b)
			})
		}
	case *ast.UnaryNode:
		switch n.Operator() {
		case ast.UnaryNot:
			t, err := e.pred(n.Operand(), item)
			if err != nil {
				return Unknown, err
			}
			return Not(t), nil
		case ast.UnaryIsUnknown:
			t, err := e.pred(n.Operand(), item)
			if err != nil {
				if e.dev.IsUnknownSwallowsHard && (kindOf(err) == Hard || kindOf(err) == "invalid") {
					return True, nil
				}
				return Unknown, err
			}
			return FromBool(t == Unknown), nil
		case ast.UnaryExists:
			// lax: stops at the first item; strict: evaluates completely.
			found := false
			saved := e.existsDepth
			if e.lax {
				e.existsDepth = 1
			}
			err := e.step(n.Operand(), item, e.lax, func(any) error {
				found = true
				if e.lax {
					return errStop
				}
				return nil
			})
			e.existsDepth = saved
			if errors.Is(err, errStop) {
				return True, nil
			}
			if err != nil {
				if kindOf(err) == Soft {
					return Unknown, nil
				}
				return Unknown, err
			}
			return FromBool(found), nil
		}
	case *ast.RegexNode:
		re, err := regexOf(n)
		if err != nil {
			return Unknown, err
		}
		return e.pairs(n.Operand(), nil, item, false, func(a, _ any) (Tri, error) {
			s, ok := a.(string)
			if !ok {
				return Unknown, nil
			}
			return FromBool(re.MatchString(s)), nil
		})
	}
	return Unknown, unspec(fmt.Sprintf("predicate %T", n))
}

// regexOf builds the regular expression of a like_regex node from its printed
// pattern and flags (not through the library's own RegexNode.Regexp): i, s, m
// become Go's inline flags; q makes the pattern a literal and leaves only i.
func regexOf(n *ast.RegexNode) (re *regexp.Regexp, err error) {
	g := gen.FromNode(n)
	if g == nil || g.K != gen.KRegex || strings.HasPrefix(g.S, "?unquotable:") {
		return nil, unspec("like_regex pattern not recoverable from the printed node")
	}
	src, fl := g.S, ""
	quote := strings.Contains(g.Flags, "q")
	for _, f := range []string{"i", "s", "m"} {
		if strings.Contains(g.Flags, f) && (f == "i" || !quote) {
			fl += f
		}
	}
	if strings.Contains(g.Flags, "x") {
		return nil, unspec("like_regex flag x")
	}
	if quote {
		src = regexp.QuoteMeta(src)
	}
	if fl != "" {
		src = "(?" + fl + ")" + src
	}
	re, cerr := regexp.Compile(src)
	if cerr != nil {
		return nil, unspec("regexp does not compile")
	}
	return re, nil
}

func (e *env) pairs(l, r ast.Node, item any, unwrapRight bool, f func(a, b any) (Tri, error)) (Tri, error) {
	ls, ok, err := e.seqSilent(l, item, true)
	if err != nil {
		return Unknown, err
	}
	if !ok {
		return Unknown, nil
	}
	rs := []any{nil}
	if r != nil {
		rs, ok, err = e.seqSilent(r, item, unwrapRight)
		if err != nil {
			return Unknown, err
		}
		if !ok {
			return Unknown, nil
		}
	}
	anyTrue, anyUnk := false, false
	for _, a := range ls {
		for _, b := range rs {
			t, err := f(a, b)
			if err != nil {
				return Unknown, err
			}
			switch t {
			case Unknown:
				if !e.lax {
					return Unknown, nil
				}
				anyUnk = true
			case True:
				if e.lax {
					return True, nil
				}
				anyTrue = true
			}
		}
	}
	if anyTrue {
		return True, nil
	}
	if anyUnk {
		return Unknown, nil
	}
	return False, nil
}

func isDatetime(v any) bool {
	switch v.(type) {
	case *types.Date, *types.Time, *types.TimeTZ, *types.Timestamp, *types.TimestampTZ:
		return true
	}
	return false
}

func (e *env) compare(op string, a, b any) (Tri, error) {
	if _, ok := a.(KVID); ok {
		return Unknown, unspec("keyvalue id compared")
	}
	if _, ok := b.(KVID); ok {
		return Unknown, unspec("keyvalue id compared")
	}
	if isDatetime(a) || isDatetime(b) {
		if e.dev.DatetimeVsOtherInvalid && isDatetime(a) != isDatetime(b) && a != nil && b != nil && isDatetime(a) {
			return Unknown, &mErr{"invalid", "datetime vs non-datetime"}
		}
		return CompareDatetime(op, a, b, e.useTZ, e.zone)
	}
	return Compare(op, a, b)
}

func methodName(m ast.MethodName) string {
	switch m {
	case ast.MethodAbs:
		return "abs"
	case ast.MethodSize:
		return "size"
	case ast.MethodType:
		return "type"
	case ast.MethodFloor:
		return "floor"
	case ast.MethodCeiling:
		return "ceiling"
	case ast.MethodDouble:
		return "double"
	case ast.MethodKeyValue:
		return "keyvalue"
	case ast.MethodBigInt:
		return "bigint"
	case ast.MethodBoolean:
		return "boolean"
	case ast.MethodInteger:
		return "integer"
	case ast.MethodNumber:
		return "number"
	case ast.MethodString:
		return "string"
	}
	return "?"
}

func (e *env) method(name string, n ast.Node, item any, unwrap bool, next func(any) error, unwrapSelf func([]any) error) error {
	switch name {
	case "type":
		return next(TypeName(item))
	case "size":
		if arr, ok := item.([]any); ok {
			return next(int64(len(arr)))
		}
		if !e.lax && !e.ignore {
			return soft("size of non-array")
		}
		return next(int64(1))
	}
	if arr, ok := item.([]any); ok {
		if unwrap {
			return unwrapSelf(arr)
		}
		return soft("item method applied to an array")
	}
	if name == "keyvalue" {
		obj, ok := item.(map[string]any)
		if !ok {
			return soft("keyvalue on non-object")
		}
		// (a generated triple is an object like any other: its triples carry
		// the id of the triple it was, and the id member becomes a value)
		id := KVID{Owner: fmt.Sprintf("%p", obj)}
		ks := make([]string, 0, len(obj))
		for k := range obj {
			ks = append(ks, k)
		}
		sort.Strings(ks)
		for _, k := range ks {
			if err := next(map[string]any{"key": k, "value": obj[k], "id": id}); err != nil {
				return err
			}
		}
		return nil
	}
	if _, ok := item.(KVID); ok {
		return unspec("keyvalue id passed to a method")
	}
	var p, s *int64
	if name == "decimal" {
		b := n.(*ast.BinaryNode)
		if l, ok := b.Left().(*ast.IntegerNode); ok && l != nil {
			v := l.Int()
			p = &v
		}
		if r, ok := b.Right().(*ast.IntegerNode); ok && r != nil {
			v := r.Int()
			s = &v
		}
	}
	v, err := Method(name, item, p, s)
	if err != nil {
		return err
	}
	return next(v)
}

// bareID reports whether v contains a keyvalue id anywhere but in the "id"
// member of a top-level triple.
func bareID(v any, top bool) bool {
	switch v := v.(type) {
	case KVID:
		return true
	case []any:
		for _, x := range v {
			if bareID(x, false) {
				return true
			}
		}
	case map[string]any:
		for k, x := range v {
			if top && (k == "id" || k == "value") && len(v) == 3 {
				// the id of a triple, or - in the triple of a triple - the id
				// that was a member value one level up
				if _, ok := x.(KVID); ok {
					continue
				}
			}
			if bareID(x, false) {
				return true
			}
		}
	}
	return false
}
