package gen

import (
	"math/rand/v2"
	"regexp"
	"strconv"
	"strings"
)

func mustFloat(s string) float64 {
	f, err := strconv.ParseFloat(s, 64)
	if err != nil {
		panic("harness: bad float " + s)
	}
	return f
}

func mustInt(s string) int64 {
	i, err := strconv.ParseInt(s, 10, 64)
	if err != nil {
		panic("harness: bad int " + s)
	}
	return i
}

// DocCfg tunes the document generator.
type DocCfg struct {
	Depth   int
	MaxKids int
	// MaxMembers, if > 0, bounds the number of members of every object.
	MaxMembers int
	Keys       []string
	Strs       []string
	Nums       []string
}

func DefaultDocCfg() DocCfg {
	return DocCfg{
		Depth: 3, MaxKids: 3,
		Keys: []string{"a", "b", "c"},
		Strs: []string{"a", "ab", "b", "", "x", "1", "true", "2023-08-15", "12:34:56"},
		Nums: []string{"0", "1", "2", "3", "-1", "1.5", "2.0", "10", "0.5", "-2.5", "1e2"},
	}
}

// Doc generates random JSON text.
func Doc(r *rand.Rand, c DocCfg) string {
	var sb strings.Builder
	doc(r, c, c.Depth, &sb)
	return sb.String()
}

func doc(r *rand.Rand, c DocCfg, depth int, sb *strings.Builder) {
	x := r.IntN(12)
	switch {
	case x < 3 && depth > 0:
		n := r.IntN(c.MaxKids + 1)
		sb.WriteByte('[')
		for i := 0; i < n; i++ {
			if i > 0 {
				sb.WriteByte(',')
			}
			doc(r, c, depth-1, sb)
		}
		sb.WriteByte(']')
	case x < 7 && depth > 0:
		n := r.IntN(c.MaxKids + 1)
		if c.MaxMembers > 0 && n > c.MaxMembers {
			n = c.MaxMembers
		}
		sb.WriteByte('{')
		seen := map[string]bool{}
		first := true
		for i := 0; i < n; i++ {
			k := c.Keys[r.IntN(len(c.Keys))]
			if seen[k] {
				continue
			}
			seen[k] = true
			if !first {
				sb.WriteByte(',')
			}
			first = false
			sb.WriteString(strconv.Quote(k))
			sb.WriteByte(':')
			doc(r, c, depth-1, sb)
		}
		sb.WriteByte('}')
	case x < 8:
		sb.WriteString(strconv.Quote(c.Strs[r.IntN(len(c.Strs))]))
	case x < 9:
		sb.WriteString([]string{"true", "false", "null", "null"}[r.IntN(4)])
	default:
		if r.IntN(24) == 0 {
			// boundary values: exact only as integers / only as doubles
			sb.WriteString(docBigNums[r.IntN(len(docBigNums))])
		} else {
			sb.WriteString(c.Nums[r.IntN(len(c.Nums))])
		}
	}
}

var docBigNums = []string{"9007199254740993", "9007199254740992", "9007199254740992.0", "9223372036854775807", "-9223372036854775808", "9223372036854775808", "2147483648", "1e19", "123456789012345678901234567890", "0." + strings.Repeat("0", 30) + "1", "1e308", "-1e308", "1.7976931348623157e308", "1e-320"}

// Trees enumerates all JSON documents (as text) with at most maxNodes nodes
// over the given leaf alphabet and object keys. A node is a scalar, an array
// or an object; children count as nodes.
func Trees(maxNodes int, leaves, keys []string) []string {
	memo := map[int][]string{}
	var exact func(n int) []string
	// forests(n, k): all sequences of k trees with total n nodes
	var forests func(n, k int) [][]string
	fmemo := map[[2]int][][]string{}
	forests = func(n, k int) [][]string {
		if k == 0 {
			if n == 0 {
				return [][]string{{}}
			}
			return nil
		}
		if n < k {
			return nil
		}
		key := [2]int{n, k}
		if v, ok := fmemo[key]; ok {
			return v
		}
		var out [][]string
		for first := 1; first <= n-(k-1); first++ {
			for _, t := range exact(first) {
				for _, rest := range forests(n-first, k-1) {
					seq := append([]string{t}, rest...)
					out = append(out, seq)
				}
			}
		}
		fmemo[key] = out
		return out
	}
	exact = func(n int) []string {
		if v, ok := memo[n]; ok {
			return v
		}
		var out []string
		if n == 1 {
			out = append(out, leaves...)
			out = append(out, "[]", "{}")
			memo[n] = out
			return out
		}
		// arrays with k >= 1 children
		for k := 1; k <= n-1; k++ {
			for _, seq := range forests(n-1, k) {
				out = append(out, "["+strings.Join(seq, ",")+"]")
			}
		}
		// objects with k distinct keys (in key order; all subsets of size k)
		for k := 1; k <= n-1 && k <= len(keys); k++ {
			for _, ks := range subsets(keys, k) {
				for _, seq := range forests(n-1, k) {
					parts := make([]string, k)
					for i := range seq {
						parts[i] = strconv.Quote(ks[i]) + ":" + seq[i]
					}
					out = append(out, "{"+strings.Join(parts, ",")+"}")
				}
			}
		}
		memo[n] = out
		return out
	}
	var all []string
	for n := 1; n <= maxNodes; n++ {
		all = append(all, exact(n)...)
	}
	return all
}

func subsets(keys []string, k int) [][]string {
	var out [][]string
	var rec func(start int, cur []string)
	rec = func(start int, cur []string) {
		if len(cur) == k {
			out = append(out, append([]string(nil), cur...))
			return
		}
		for i := start; i < len(keys); i++ {
			rec(i+1, append(cur, keys[i]))
		}
	}
	rec(0, nil)
	return out
}

var numTok = regexp.MustCompile(`(^|[\[,:])(-?[0-9][0-9.eE+-]*)`)

// InjectHuge replaces one number of the document text by a number outside
// the float64 range (only a UseNumber decode can represent it). Returns the
// text unchanged if it has no number.
func InjectHuge(r *rand.Rand, doc string) string {
	locs := numTok.FindAllStringSubmatchIndex(doc, -1)
	if len(locs) == 0 {
		return doc
	}
	l := locs[r.IntN(len(locs))]
	huge := []string{"1e400", "-1e400", "1e999", "1e-400"}[r.IntN(4)]
	return doc[:l[4]] + huge + doc[l[5]:]
}
