package gen

import (
	"fmt"
	"math"
	"math/rand/v2"
	"strconv"
	"strings"
	"unicode/utf8"
)

// Style selects among the documented lexical and syntactic alternatives.
// The zero value (R == nil) is the conservative canonical spelling: every
// operator operand parenthesised, keys quoted, one space around operators.
type Style struct {
	R *rand.Rand
	// MinimalParens: use the documented precedence/associativity to omit
	// parentheses (otherwise every compound operand is parenthesised).
	MinimalParens bool
	// Lexical enables separators/comments, keyword case, key/str/number forms.
	Lexical bool
	// NoTrailingSep suppresses the optional separator after the last token.
	NoTrailingSep bool
}

func (st *Style) coin(n int) bool { return st != nil && st.R != nil && st.R.IntN(n) == 0 }

func (st *Style) lex() bool { return st != nil && st.R != nil && st.Lexical }

// Spell renders the abstract path as text.
func Spell(p *Path, st *Style) string {
	var sb strings.Builder
	w := &speller{sb: &sb, st: st}
	w.sep0()
	if !p.Lax {
		w.kw("strict")
		w.space()
	} else if st.lex() && st.coin(4) {
		w.kw("lax")
		w.space()
	}
	w.top(p.Root)
	if st == nil || !st.NoTrailingSep {
		w.sep0()
	}
	return sb.String()
}

// SpellNode renders an expression/predicate node (no mode prefix).
func SpellNode(n *N, st *Style) string {
	var sb strings.Builder
	w := &speller{sb: &sb, st: st}
	w.top(n)
	return sb.String()
}

type speller struct {
	sb *strings.Builder
	st *Style
}

// Separators -----------------------------------------------------------

// comments are complete C-style comments with awkward bodies.
var comments = []string{"/* c */", "/**/", "/*/ x */", "/***/", "/* * / */", "/*\n*/", "/* \" */", "/*/*/", "/* /* looks nested */", "/*//*/", "/* $.a == 1 */", "/*\t*\t*/", "/* é 日本 */", "/*****/", "/*/**/", "/* '\\ */", "/* \ufffd */"}

func (w *speller) ws() string {
	switch w.st.R.IntN(8) {
	case 0:
		return "\t"
	case 1:
		return "\n"
	case 2:
		return "  "
	case 3:
		return comments[w.st.R.IntN(len(comments))]
	case 4:
		return " " + comments[w.st.R.IntN(len(comments))] + " "
	case 5:
		return "\r\n"
	case 6:
		// several comments in one gap, with and without blanks between them
		a, b := comments[w.st.R.IntN(len(comments))], comments[w.st.R.IntN(len(comments))]
		return a + []string{"", " ", "\n", "\t "}[w.st.R.IntN(4)] + b
	}
	return " "
}

// sep0: optional separator where none is needed.
func (w *speller) sep0() {
	if w.st.lex() && w.st.coin(6) {
		w.sb.WriteString(w.ws())
	}
}

// space: separator that is required (between two word-like tokens) or conventional.
func (w *speller) space() {
	if w.st.lex() && w.st.coin(3) {
		w.sb.WriteString(w.ws())
		return
	}
	w.sb.WriteByte(' ')
}

// optspace: conventional space around an operator that may be dropped.
func (w *speller) optspace() {
	if w.st.lex() {
		switch w.st.R.IntN(4) {
		case 0:
			return
		case 1:
			w.sb.WriteString(w.ws())
			return
		}
	}
	w.sb.WriteByte(' ')
}

func (w *speller) tok(s string) { w.sb.WriteString(s) }

// kw writes a case-insensitive keyword.
func (w *speller) kw(s string) {
	if w.st.lex() && w.st.coin(4) {
		b := []byte(s)
		for i := range b {
			if b[i] >= 'a' && b[i] <= 'z' && w.st.R.IntN(2) == 0 {
				b[i] -= 32
			}
		}
		s = string(b)
	}
	if w.st.lex() && w.st.coin(12) {
		// a reserved word is the text its escapes decode to: one letter written
		// as \xNN, \uNNNN, \u{N...} or - where that starts no escape - behind a backslash
		i := w.st.R.IntN(len(s))
		c := s[i]
		if (c >= 'a' && c <= 'z') || (c >= 'A' && c <= 'Z') {
			var e string
			switch w.st.R.IntN(4) {
			case 0:
				e = fmt.Sprintf(`\x%02x`, c)
			case 1:
				e = fmt.Sprintf(`\u%04X`, c)
			case 2:
				e = fmt.Sprintf(`\u{%x}`, c)
			default:
				if strings.IndexByte("bfnrtvxuBFNRTVXU", c) < 0 {
					e = `\` + string(c)
				} else {
					e = fmt.Sprintf(`\x%02X`, c)
				}
			}
			s = s[:i] + e + s[i+1:]
		}
	}
	w.sb.WriteString(s)
}

// Precedence -------------------------------------------------------------

func binPrec(op string) int {
	switch op {
	case "||":
		return 0
	case "&&":
		return 1
	case "==", "!=", "<", ">", "<=", ">=", "starts with":
		return 2
	case "+", "-":
		return 3
	case "*", "/", "%":
		return 4
	}
	return 6
}

func isArith(n *N) bool {
	if n.K != KBin {
		return false
	}
	switch n.S {
	case "+", "-", "*", "/", "%":
		return true
	}
	return false
}

// top spells an expr_or_predicate.
func (w *speller) top(n *N) {
	if n.IsPredKind() && n.Next == nil {
		w.pred(n, -1)
		return
	}
	w.expr(n, -1, false)
}

// pred spells a predicate in a context of the given binding strength
// (-1 none, 0 operand of ||, 1 operand of &&).  right: it is the right
// operand of a left-associative operator of the same precedence.
func (w *speller) pred(n *N, ctxPrec int) {
	if !n.IsPredKind() || n.Next != nil {
		// an expression used where a predicate is required cannot be spelled
		w.tok("<<not a predicate>>")
		return
	}
	switch n.K {
	case KBin:
		switch n.S {
		case "&&", "||":
			p := binPrec(n.S)
			parens := ctxPrec >= 0
			if w.st != nil && w.st.MinimalParens {
				parens = ctxPrec > p
			}
			if w.st.lex() && w.st.coin(8) {
				parens = true
			}
			if parens {
				w.tok("(")
				w.sep0()
			}
			// left operand: same precedence allowed on the left (left assoc)
			w.predOperand(n.A, p, false)
			w.optspace()
			w.tok(n.S)
			w.optspace()
			w.predOperand(n.B, p, true)
			if parens {
				w.sep0()
				w.tok(")")
			}
		case "starts with":
			w.cmpParens(ctxPrec, func() {
				w.expr(n.A, 2, false)
				w.space()
				w.kw("starts")
				w.space()
				w.kw("with")
				w.space()
				w.primary(n.B)
			})
		default:
			w.cmpParens(ctxPrec, func() {
				w.expr(n.A, 2, false)
				w.optspace()
				op := n.S
				if op == "!=" && w.st.lex() && w.st.coin(2) {
					op = "<>"
				}
				w.tok(op)
				w.optspace()
				w.expr(n.B, 2, true)
			})
		}
	case KRegex:
		w.cmpParens(ctxPrec, func() {
			w.expr(n.A, 2, false)
			w.space()
			w.kw("like_regex")
			w.space()
			w.str(n.S)
			if n.Flags != "" {
				w.space()
				w.kw("flag")
				w.space()
				w.str(n.Flags)
			}
		})
	case KUn:
		switch n.S {
		case "!":
			w.tok("!")
			w.sep0()
			// NOT_P delimited_predicate: '(' predicate ')' or exists(...)
			if n.A.K == KUn && n.A.S == "exists" && n.A.Next == nil && w.st != nil && w.st.MinimalParens {
				w.pred(n.A, -1)
			} else {
				w.tok("(")
				w.sep0()
				w.pred(n.A, -1)
				w.sep0()
				w.tok(")")
			}
		case "isunknown":
			w.tok("(")
			w.sep0()
			w.pred(n.A, -1)
			w.sep0()
			w.tok(")")
			w.space()
			w.kw("is")
			w.space()
			w.kw("unknown")
		case "exists":
			w.kw("exists")
			w.sep0()
			w.tok("(")
			w.sep0()
			w.expr(n.A, -1, false)
			w.sep0()
			w.tok(")")
		}
	}
}

// cmpParens wraps a comparison-level predicate: in canonical style it is
// parenthesised whenever it is an operand of a connective.
func (w *speller) cmpParens(ctxPrec int, f func()) {
	parens := ctxPrec >= 0
	if w.st != nil && w.st.MinimalParens {
		parens = false // comparison binds tighter than && and ||
	}
	if w.st.lex() && w.st.coin(8) {
		parens = true
	}
	if parens {
		w.tok("(")
		w.sep0()
	}
	f()
	if parens {
		w.sep0()
		w.tok(")")
	}
}

func (w *speller) predOperand(n *N, parentPrec int, right bool) {
	if w.st != nil && w.st.MinimalParens && n.K == KBin && (n.S == "&&" || n.S == "||") && n.Next == nil {
		p := binPrec(n.S)
		need := p < parentPrec || (p == parentPrec && right)
		if need {
			w.tok("(")
			w.pred(n, -1)
			w.tok(")")
		} else {
			w.pred(n, -1)
		}
		return
	}
	if n.K == KUn && n.Next == nil && (n.S == "!" || n.S == "exists" || n.S == "isunknown") {
		// "! delimited" and "(p) is unknown" are at the lowest priority level of
		// the predicate grammar: NOT_P is %right above AND, so they never need
		// parentheses as operands; exists(...) is delimited.
		if w.st != nil && w.st.MinimalParens {
			w.pred(n, -1)
			return
		}
		if n.S == "exists" {
			w.pred(n, -1)
			return
		}
		w.tok("(")
		w.pred(n, -1)
		w.tok(")")
		return
	}
	w.pred(n, parentPrec)
}

// expr spells an expression. ctxPrec is the precedence of the enclosing
// arithmetic operator (-1: none, 2: comparison operand, 3,4: + - / * operand,
// 5: unary operand); right marks a right operand.
func (w *speller) expr(n *N, ctxPrec int, right bool) {
	extra := w.st.lex() && w.st.coin(10) && !(n.K == KLast)
	switch {
	case n.Next == nil && isArith(n):
		p := binPrec(n.S)
		parens := ctxPrec >= 2
		if w.st != nil && w.st.MinimalParens {
			parens = ctxPrec > p || (ctxPrec == p && right)
		}
		if extra {
			parens = true
		}
		if parens {
			w.tok("(")
			w.sep0()
		}
		w.expr(n.A, p, false)
		w.optspaceArith(true)
		w.tok(n.S)
		w.optspaceArith(false)
		w.expr(n.B, p, true)
		if parens {
			w.sep0()
			w.tok(")")
		}
	case n.Next == nil && n.K == KUn && (n.S == "+" || n.S == "-"):
		parens := ctxPrec >= 2
		if w.st != nil && w.st.MinimalParens {
			// unary binds tightest; as a right operand of a binary operator
			// "a - -b" is fine too.
			parens = false
		}
		if extra {
			parens = true
		}
		if parens {
			w.tok("(")
		}
		w.tok(n.S)
		// the operand of unary: anything of lower precedence needs parens
		w.expr(n.A, 5, false)
		if parens {
			w.tok(")")
		}
	default:
		if extra && !(n.IsPredKind() && n.Next == nil) {
			w.tok("(")
			w.sep0()
			w.chain(n)
			w.sep0()
			w.tok(")")
			return
		}
		w.chain(n)
	}
}

func (w *speller) optspaceArith(before bool) {
	// "1 -1" and "1-1" are both fine, "a--b" is a - (-b), and a comment may
	// follow the operator directly ("4//* halves */2"). What has to stay apart
	// is a wildcard and the operator after it: ".* *" is not ".**".
	if w.st.lex() {
		s := w.sb.String()
		afterStar := before && len(s) > 0 && s[len(s)-1] == '*'
		switch w.st.R.IntN(4) {
		case 0:
			if !afterStar {
				return
			}
		case 1:
			if !afterStar {
				w.sb.WriteString(w.ws())
				return
			}
		}
	}
	w.sb.WriteByte(' ')
}

// chain spells head + accessor steps.
func (w *speller) chain(n *N) {
	switch n.K {
	case KBin, KUn, KRegex:
		// compound head: '(' expr|predicate ')' accessor_op ...
		if n.Next == nil {
			// a predicate in expression position cannot be spelled; an
			// arithmetic node is handled by expr().
			w.tok("<<pred as expr>>")
			return
		}
		w.tok("(")
		w.sep0()
		head := *n
		head.Next = nil
		if head.IsPredKind() {
			w.pred(&head, -1)
		} else {
			w.expr(&head, -1, false)
		}
		w.sep0()
		w.tok(")")
	case KInt, KNum:
		if n.Next != nil {
			w.tok("(")
			w.number(n)
			w.tok(")")
		} else {
			w.number(n)
		}
	default:
		// redundant parentheses around a prefix of the chain: ($.a.b).c is
		// the chain $.a.b.c
		if n.Next != nil && n.Next.Next != nil && w.st.lex() && w.st.coin(12) {
			steps := 0
			for s := n.Next; s != nil; s = s.Next {
				steps++
			}
			k := 1 + w.st.R.IntN(steps-1)
			w.tok("(")
			w.sep0()
			w.primary(n)
			s := n.Next
			for i := 0; i < k; i++ {
				w.sep0()
				w.step(s)
				s = s.Next
			}
			w.sep0()
			w.tok(")")
			for ; s != nil; s = s.Next {
				w.sep0()
				w.step(s)
			}
			return
		}
		w.primary(n)
	}
	for s := n.Next; s != nil; s = s.Next {
		w.sep0()
		w.step(s)
	}
}

func (w *speller) primary(n *N) {
	switch n.K {
	case KRoot:
		w.tok("$")
	case KCurrent:
		w.tok("@")
	case KLast:
		w.kw("last")
	case KNull:
		w.tok("null")
	case KTrue:
		w.tok("true")
	case KFalse:
		w.tok("false")
	case KStr:
		w.str(n.S)
	case KVar:
		w.variable(n.S)
	case KInt, KNum:
		w.number(n)
	default:
		w.tok(fmt.Sprintf("<<bad primary %d>>", n.K))
	}
}

func (w *speller) step(s *N) {
	switch s.K {
	case KKey:
		w.tok(".")
		w.sep0()
		w.key(s.S)
	case KAnyKey:
		w.tok(".")
		w.sep0()
		w.tok("*")
	case KAnyArray:
		w.tok("[")
		w.sep0()
		w.tok("*")
		w.sep0()
		w.tok("]")
	case KAny:
		w.tok(".")
		w.sep0()
		w.tok("**")
		lvl := func(v int64) {
			if v < 0 {
				w.kw("last")
			} else {
				w.intLit(v, true)
			}
		}
		switch {
		case s.First == 0 && s.Last == -1 && !(w.st.lex() && w.st.coin(3)):
		case s.First == s.Last && !(w.st.lex() && w.st.coin(4)):
			w.tok("{")
			w.sep0()
			lvl(s.First)
			w.sep0()
			w.tok("}")
		default:
			w.tok("{")
			w.sep0()
			lvl(s.First)
			w.space()
			w.kw("to")
			w.space()
			lvl(s.Last)
			w.sep0()
			w.tok("}")
		}
	case KIndex:
		w.tok("[")
		for i, sub := range s.Subs {
			if i > 0 {
				w.tok(",")
			}
			w.sep0()
			w.expr(sub[0], -1, false)
			if sub[1] != nil {
				w.space()
				w.kw("to")
				w.space()
				w.expr(sub[1], -1, false)
			}
			w.sep0()
		}
		w.tok("]")
	case KFilter:
		if w.st == nil || !w.st.lex() || !w.st.coin(2) {
			w.tok(" ")
		}
		w.tok("?")
		w.sep0()
		w.tok("(")
		w.sep0()
		w.pred(s.A, -1)
		w.sep0()
		w.tok(")")
	case KMethod:
		w.tok(".")
		w.sep0()
		w.kw(s.S)
		w.sep0()
		w.tok("(")
		w.sep0()
		w.tok(")")
	case KDecimal:
		w.tok(".")
		w.kw("decimal")
		w.tok("(")
		if s.A != nil {
			w.sep0()
			w.signedInt(s.A.I)
			if s.B != nil {
				w.sep0()
				w.tok(",")
				w.sep0()
				w.signedInt(s.B.I)
			}
			w.sep0()
		}
		w.tok(")")
	case KDatetime:
		w.tok(".")
		w.kw(s.S)
		w.tok("(")
		if s.A != nil {
			w.sep0()
			if s.A.K == KStr {
				w.str(s.A.S)
			} else {
				w.intLit(s.A.I, true)
			}
			w.sep0()
		}
		w.tok(")")
	default:
		w.tok(fmt.Sprintf("<<bad step %d>>", s.K))
	}
}

func (w *speller) signedInt(v int64) {
	if v < 0 {
		w.tok("-")
		w.intLit(-v, true)
		return
	}
	if w.st.lex() && w.st.coin(4) {
		w.tok("+")
	}
	w.intLit(v, true)
}

// Literals ----------------------------------------------------------------

func underscores(r *rand.Rand, digits string) string {
	if len(digits) < 2 || r.IntN(3) != 0 {
		return digits
	}
	var sb strings.Builder
	for i, c := range digits {
		if i > 0 && r.IntN(3) == 0 {
			sb.WriteByte('_')
		}
		sb.WriteRune(c)
	}
	return sb.String()
}

// intLit writes a non-negative integer in one of its spellings.
func (w *speller) intLit(v int64, nonneg bool) {
	if !w.st.lex() {
		w.tok(strconv.FormatInt(v, 10))
		return
	}
	r := w.st.R
	switch r.IntN(6) {
	case 0:
		p := "0x"
		if r.IntN(2) == 0 {
			p = "0X"
		}
		d := strconv.FormatInt(v, 16)
		if r.IntN(2) == 0 {
			d = strings.ToUpper(d)
		}
		w.tok(p + underscores(r, d))
	case 1:
		p := "0o"
		if r.IntN(2) == 0 {
			p = "0O"
		}
		w.tok(p + underscores(r, strconv.FormatInt(v, 8)))
	case 2:
		p := "0b"
		if r.IntN(2) == 0 {
			p = "0B"
		}
		w.tok(p + underscores(r, strconv.FormatInt(v, 2)))
	default:
		w.tok(underscores(r, strconv.FormatInt(v, 10)))
	}
}

func (w *speller) number(n *N) {
	if n.K == KInt {
		if n.I == 0 && w.st.lex() && w.st.coin(5) {
			// signs fold into a literal, any number of them: zero stays zero
			w.tok([]string{"-0", "- -0", "-(-0)", "-(-(0))", "+0", "-0x0", "- - -0", "-(-0b0)"}[w.st.R.IntN(8)])
			return
		}
		if n.I < 0 {
			w.tok("-")
			if n.I == math.MinInt64 {
				w.tok("9223372036854775808")
				return
			}
			w.intLit(-n.I, true)
			return
		}
		w.intLit(n.I, true)
		return
	}
	f := n.F
	if math.Signbit(f) {
		w.tok("-")
		f = -f
	}
	w.tok(FloatSpelling(f, w.st))
}

// FloatSpelling returns a decimal-literal spelling of non-negative f that the
// documented syntax permits and that denotes exactly f (NUMERIC token: it
// always contains '.' or an exponent).
func FloatSpelling(f float64, st *Style) string {
	s := strconv.FormatFloat(f, 'f', -1, 64)
	if len(s) > 40 {
		s = strconv.FormatFloat(f, 'e', -1, 64)
	}
	if !strings.ContainsAny(s, ".eE") {
		s += ".0"
	}
	if st == nil || st.R == nil || !st.Lexical {
		return s
	}
	r := st.R
	if f == 0 && r.IntN(3) == 0 {
		// a bare zero mantissa with an exponent is a zero like any other
		return []string{"0e0", "0E5", "0e-3", "0e+1_0", "0.e1", "0.0e0", ".0e1", "0E+0", "0.00"}[r.IntN(9)]
	}
	switch r.IntN(6) {
	case 0:
		e := strconv.FormatFloat(f, 'e', -1, 64) // d.ddde±xx
		if r.IntN(2) == 0 {
			e = strings.Replace(e, "e", "E", 1)
		}
		if r.IntN(2) == 0 {
			e = strings.Replace(e, "e+", "e", 1)
			e = strings.Replace(e, "E+", "E", 1)
		}
		return e
	case 1:
		if strings.HasPrefix(s, "0.") {
			return s[1:] // .5
		}
	case 2:
		if strings.HasSuffix(s, ".0") {
			return s[:len(s)-1] // 5.
		}
	case 3:
		if i := strings.IndexByte(s, '.'); i > 1 && !strings.ContainsAny(s, "eE") {
			return underscores(r, s[:i]) + s[i:]
		}
	}
	return s
}

// identityEscapable: a character that, written after a backslash, denotes
// itself - not one that begins an escape sequence (b f n r t v x u), not a
// digit (\0 and legacy octal escapes in ECMAScript), not a line terminator.
func identityEscapable(c rune) bool {
	switch {
	case c < 0x20 || c == 0x7f || c == 0x2028 || c == 0x2029 || c == 0xfffd:
		return false
	case c >= '0' && c <= '9':
		return false
	case strings.ContainsRune("bfnrtvxu", c):
		return false
	}
	return true
}

var simpleEsc = map[rune]string{'\b': `\b`, '\f': `\f`, '\n': `\n`, '\r': `\r`, '\t': `\t`, '\v': `\v`, '"': `\"`, '\\': `\\`}

// quoteRune spells one code point inside a quoted string.
func (w *speller) quoteRune(sb *strings.Builder, c rune, next rune) {
	if w.st.lex() && w.st.coin(3) {
		r := w.st.R
		switch r.IntN(5) {
		case 0:
			if c <= 0xff && c > 0 {
				if r.IntN(2) == 0 {
					fmt.Fprintf(sb, `\x%02x`, c)
				} else {
					fmt.Fprintf(sb, `\x%02X`, c)
				}
				return
			}
		case 1:
			if c <= 0xffff {
				if r.IntN(2) == 0 {
					fmt.Fprintf(sb, `\u%04x`, c)
				} else {
					fmt.Fprintf(sb, `\u%04X`, c)
				}
				return
			}
			c1 := 0xd800 + ((c - 0x10000) >> 10)
			c2 := 0xdc00 + ((c - 0x10000) & 0x3ff)
			fmt.Fprintf(sb, `\u%04x\u%04X`, c1, c2)
			return
		case 2:
			w2 := 1 + r.IntN(6)
			s := fmt.Sprintf("%x", c)
			for len(s) < w2 {
				s = "0" + s
			}
			if len(s) <= 6 {
				sb.WriteString(`\u{` + s + `}`)
				return
			}
		case 3:
			// ECMAScript conventions: a backslash before a character that
			// starts no escape sequence stands for that character
			if identityEscapable(c) {
				sb.WriteByte('\\')
				sb.WriteRune(c)
				return
			}
		}
	}
	if (c < 0x20 || c == 0x7f) && c != '\n' && c != '\r' && w.st.lex() && w.st.coin(4) {
		// escapes "may be used": a control character other than a line
		// terminator can also stand for itself inside the quotes
		sb.WriteRune(c)
		return
	}
	if e, ok := simpleEsc[c]; ok {
		sb.WriteString(e)
		return
	}
	if c < 0x20 || c == 0x7f {
		fmt.Fprintf(sb, `\u%04x`, c)
		return
	}
	sb.WriteRune(c)
}

// Quote spells a string literal in double quotes.
func (w *speller) quoted(s string) string {
	var sb strings.Builder
	sb.WriteByte('"')
	for _, c := range s {
		w.quoteRune(&sb, c, 0)
	}
	sb.WriteByte('"')
	return sb.String()
}

func (w *speller) str(s string) { w.tok(w.quoted(s)) }

// keywords that the lexer turns into tokens; all are allowed as key names.
var keywords = map[string]bool{
	"is": true, "to": true, "abs": true, "lax": true, "date": true, "flag": true, "last": true, "size": true,
	"time": true, "type": true, "with": true, "floor": true, "bigint": true, "double": true, "exists": true,
	"number": true, "starts": true, "strict": true, "string": true, "boolean": true, "ceiling": true,
	"decimal": true, "integer": true, "time_tz": true, "unknown": true, "datetime": true, "keyvalue": true,
	"timestamp": true, "like_regex": true, "timestamp_tz": true, "null": true, "true": true, "false": true,
}

// BareIdentOK reports whether s can be written as a bare identifier: ASCII
// letter or underscore start, then letters, digits, underscores. (The
// documented rule is wider - XID - but this subset is unambiguous.)
func BareIdentOK(s string) bool {
	if s == "" {
		return false
	}
	for i, c := range s {
		switch {
		case c == '_' || (c >= 'a' && c <= 'z') || (c >= 'A' && c <= 'Z'):
		case c >= '0' && c <= '9':
			if i == 0 {
				return false
			}
		case c >= 0x80 && isXIDContinueSample(c) && (i > 0 || isXIDStartSample(c)):
		default:
			return false
		}
	}
	return true
}

// A small, certain subset of XID_Start / XID_Continue beyond ASCII: Latin-1
// letters, Greek, Cyrillic, CJK unified ideographs.
func isXIDStartSample(c rune) bool {
	switch {
	case c >= 0xc0 && c <= 0xff && c != 0xd7 && c != 0xf7:
		return true
	case c >= 0x391 && c <= 0x3a1, c >= 0x3b1 && c <= 0x3c9:
		return true
	case c >= 0x410 && c <= 0x44f:
		return true
	case c >= 0x4e00 && c <= 0x9fa5:
		return true
	case c >= 0x905 && c <= 0x939, c >= 0xe01 && c <= 0xe30: // Devanagari and Thai letters
		return true
	case c >= 0x2160 && c <= 0x2188: // letter numbers (roman numerals)
		return true
	}
	return false
}

// XID_Continue is wider than XID_Start: combining marks, vowel signs, digits of
// other scripts, connector punctuation and the middle dot continue an
// identifier without being letters.
func isXIDContinueSample(c rune) bool {
	switch {
	case isXIDStartSample(c):
		return true
	case c >= 0x300 && c <= 0x36f, c >= 0x93e && c <= 0x94c, c == 0xe31, c >= 0xe34 && c <= 0xe3a:
		return true
	case c >= 0x660 && c <= 0x669, c >= 0x966 && c <= 0x96f:
		return true
	case c == 0xb7 || c == 0x203f || c == 0x2040:
		return true
	}
	return false
}

func (w *speller) key(s string) {
	if w.st.lex() && BareIdentOK(s) && w.st.R.IntN(3) != 0 {
		// bare identifier, possibly with escapes inside
		var sb strings.Builder
		for i, c := range s {
			if w.st.coin(8) && c < 0x10000 && i > 0 {
				fmt.Fprintf(&sb, `\u%04x`, c)
				continue
			}
			if w.st.coin(10) && identityEscapable(c) {
				sb.WriteByte('\\')
			}
			sb.WriteRune(c)
		}
		w.tok(sb.String())
		return
	}
	if w.st.lex() && s != "" && !BareIdentOK(s) && utf8.ValidString(s) && w.st.R.IntN(4) == 0 {
		// "identifiers are subject to the same escapes as strings": any key
		// can be written without quotes when the characters that cannot stand
		// in an identifier are escaped
		var sb strings.Builder
		for i, c := range s {
			identChar := c == '_' || (c >= 'a' && c <= 'z') || (c >= 'A' && c <= 'Z') || (c >= '0' && c <= '9' && i > 0) ||
				(c >= 0x80 && isXIDContinueSample(c) && (i > 0 || isXIDStartSample(c)))
			switch {
			case identChar:
				sb.WriteRune(c)
			case simpleEsc[c] != "":
				sb.WriteString(simpleEsc[c])
			case c < 0x20 || c == 0x7f || c == 0xfffd || (c >= '0' && c <= '9'):
				if w.st.coin(2) && c <= 0xff {
					fmt.Fprintf(&sb, `\x%02x`, c)
				} else {
					fmt.Fprintf(&sb, `\u%04x`, c)
				}
			case identityEscapable(c) && w.st.R.IntN(3) != 0:
				sb.WriteByte('\\')
				sb.WriteRune(c)
			default:
				fmt.Fprintf(&sb, `\u{%x}`, c)
			}
		}
		w.tok(sb.String())
		return
	}
	w.tok(w.quoted(s))
}

func varBareOK(s string) bool {
	if s == "" {
		return false
	}
	for _, c := range s {
		switch {
		case c == '_' || (c >= 'a' && c <= 'z') || (c >= 'A' && c <= 'Z') || (c >= '0' && c <= '9'):
		case c >= 0x80 && isXIDContinueSample(c):
		default:
			return false
		}
	}
	return true
}

func (w *speller) variable(s string) {
	if varBareOK(s) && (w.st == nil || w.st.R == nil || !w.st.Lexical || w.st.R.IntN(3) != 0) {
		w.tok("$" + s)
		return
	}
	w.tok("$" + w.quoted(s))
}

// ValidText reports whether s may appear as a key/string/variable content:
// valid UTF-8 without NUL.
func ValidText(s string) bool {
	return utf8.ValidString(s) && !strings.ContainsRune(s, 0)
}
