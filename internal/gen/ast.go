// Package gen holds the harness' own abstract path syntax, its bridge to the
// implementation's AST (FromAST, through exported accessors only), spellers,
// and the path/document generators.
package gen

import (
	"fmt"
	"math"
	"strconv"
	"strings"

	"github.com/theory/sqljson/path/ast"
)

// Kind of an abstract node.
type Kind int

const (
	KRoot    Kind = iota // $
	KCurrent             // @
	KLast                // last
	KNull
	KTrue
	KFalse
	KStr // S
	KInt // I
	KNum // F
	KVar // S
	// accessors (only as steps)
	KKey      // S
	KAnyKey   // .*
	KAnyArray // [*]
	KAny      // .**{First to Last}; -1 = last/unbounded
	KIndex    // Subs
	KFilter   // A = predicate
	KMethod   // S = name without dot/parens: abs size type floor ceiling double keyvalue bigint boolean integer number string
	KDecimal  // A, B optional KInt
	KDatetime // S = datetime date time time_tz timestamp timestamp_tz ; A optional arg (KStr template or KInt precision)
	// operators
	KBin   // S = operator text: && || == != < > <= >= starts with + - * / %
	KUn    // S = + - ! isunknown exists
	KRegex // A operand, S pattern, Flags
)

// N is an abstract path node. Steps are linked through Next, like the
// implementation's AST, so the two can be compared structurally.
type N struct {
	K     Kind
	S     string
	I     int64
	F     float64
	Flags string
	A, B  *N
	Subs  [][2]*N
	First int64
	Last  int64
	Next  *N
}

// Path is a whole abstract path.
type Path struct {
	Lax  bool
	Pred bool
	Root *N
}

func (n *N) IsPredKind() bool {
	switch n.K {
	case KBin:
		switch n.S {
		case "+", "-", "*", "/", "%":
			return false
		}
		return true
	case KUn:
		return n.S == "!" || n.S == "isunknown" || n.S == "exists"
	case KRegex:
		return true
	}
	return false
}

// Clone deep-copies a node (and its chain).
func (n *N) Clone() *N {
	if n == nil {
		return nil
	}
	c := *n
	c.A = n.A.Clone()
	c.B = n.B.Clone()
	c.Next = n.Next.Clone()
	if n.Subs != nil {
		c.Subs = make([][2]*N, len(n.Subs))
		for i, s := range n.Subs {
			c.Subs[i] = [2]*N{s[0].Clone(), s[1].Clone()}
		}
	}
	return &c
}

// End returns the last node of the chain starting at n.
func (n *N) End() *N {
	for n.Next != nil {
		n = n.Next
	}
	return n
}

// Append links step at the end of n's chain and returns n.
func (n *N) Append(step *N) *N {
	n.End().Next = step
	return n
}

// Count returns the number of nodes in the tree.
func (n *N) Count() int {
	if n == nil {
		return 0
	}
	c := 1 + n.A.Count() + n.B.Count() + n.Next.Count()
	for _, s := range n.Subs {
		c += s[0].Count() + s[1].Count()
	}
	return c
}

// Walk visits every node.
func (n *N) Walk(f func(*N)) {
	if n == nil {
		return
	}
	f(n)
	n.A.Walk(f)
	n.B.Walk(f)
	for _, s := range n.Subs {
		s[0].Walk(f)
		s[1].Walk(f)
	}
	n.Next.Walk(f)
}

// Sexp renders the tree canonically for structural comparison.
func (p *Path) Sexp() string {
	var sb strings.Builder
	if p.Lax {
		sb.WriteString("(lax ")
	} else {
		sb.WriteString("(strict ")
	}
	if p.Pred {
		sb.WriteString("pred ")
	}
	sexp(&sb, p.Root)
	sb.WriteString(")")
	return sb.String()
}

func (n *N) Sexp() string {
	var sb strings.Builder
	sexp(&sb, n)
	return sb.String()
}

func sexp(sb *strings.Builder, n *N) {
	if n == nil {
		sb.WriteString("nil")
		return
	}
	if n.Next != nil {
		sb.WriteString("(chain ")
		for x := n; x != nil; x = x.Next {
			if x != n {
				sb.WriteByte(' ')
			}
			sexp1(sb, x)
		}
		sb.WriteString(")")
		return
	}
	sexp1(sb, n)
}

func sexp1(sb *strings.Builder, n *N) {
	switch n.K {
	case KRoot:
		sb.WriteString("$")
	case KCurrent:
		sb.WriteString("@")
	case KLast:
		sb.WriteString("last")
	case KNull:
		sb.WriteString("null")
	case KTrue:
		sb.WriteString("true")
	case KFalse:
		sb.WriteString("false")
	case KStr:
		sb.WriteString("(str " + strconv.QuoteToASCII(n.S) + ")")
	case KInt:
		fmt.Fprintf(sb, "(int %d)", n.I)
	case KNum:
		fmt.Fprintf(sb, "(num %x)", math.Float64bits(n.F))
	case KVar:
		sb.WriteString("(var " + strconv.QuoteToASCII(n.S) + ")")
	case KKey:
		sb.WriteString("(key " + strconv.QuoteToASCII(n.S) + ")")
	case KAnyKey:
		sb.WriteString(".*")
	case KAnyArray:
		sb.WriteString("[*]")
	case KAny:
		fmt.Fprintf(sb, "(any %d %d)", n.First, n.Last)
	case KIndex:
		sb.WriteString("(index")
		for _, s := range n.Subs {
			sb.WriteString(" (sub ")
			sexp(sb, s[0])
			sb.WriteByte(' ')
			sexp(sb, s[1])
			sb.WriteString(")")
		}
		sb.WriteString(")")
	case KFilter:
		sb.WriteString("(filter ")
		sexp(sb, n.A)
		sb.WriteString(")")
	case KMethod:
		sb.WriteString("(method " + n.S + ")")
	case KDecimal:
		sb.WriteString("(decimal ")
		sexp(sb, n.A)
		sb.WriteByte(' ')
		sexp(sb, n.B)
		sb.WriteString(")")
	case KDatetime:
		sb.WriteString("(" + n.S + " ")
		sexp(sb, n.A)
		sb.WriteString(")")
	case KBin:
		sb.WriteString("(" + n.S + " ")
		sexp(sb, n.A)
		sb.WriteByte(' ')
		sexp(sb, n.B)
		sb.WriteString(")")
	case KUn:
		sb.WriteString("(u" + n.S + " ")
		sexp(sb, n.A)
		sb.WriteString(")")
	case KRegex:
		sb.WriteString("(like_regex ")
		sexp(sb, n.A)
		sb.WriteString(" " + strconv.QuoteToASCII(n.S) + " " + strconv.Quote(n.Flags) + ")")
	}
}

var binOps = map[ast.BinaryOperator]string{
	ast.BinaryAnd: "&&", ast.BinaryOr: "||", ast.BinaryEqual: "==", ast.BinaryNotEqual: "!=",
	ast.BinaryLess: "<", ast.BinaryGreater: ">", ast.BinaryLessOrEqual: "<=", ast.BinaryGreaterOrEqual: ">=",
	ast.BinaryStartsWith: "starts with", ast.BinaryAdd: "+", ast.BinarySub: "-", ast.BinaryMul: "*",
	ast.BinaryDiv: "/", ast.BinaryMod: "%",
}

var methodNames = map[ast.MethodName]string{
	ast.MethodAbs: "abs", ast.MethodSize: "size", ast.MethodType: "type", ast.MethodFloor: "floor",
	ast.MethodCeiling: "ceiling", ast.MethodDouble: "double", ast.MethodKeyValue: "keyvalue",
	ast.MethodBigInt: "bigint", ast.MethodBoolean: "boolean", ast.MethodInteger: "integer",
	ast.MethodNumber: "number", ast.MethodString: "string",
}

var dtNames = map[ast.UnaryOperator]string{
	ast.UnaryDateTime: "datetime", ast.UnaryDate: "date", ast.UnaryTime: "time", ast.UnaryTimeTZ: "time_tz",
	ast.UnaryTimestamp: "timestamp", ast.UnaryTimestampTZ: "timestamp_tz",
}

// FromAST converts an implementation AST to the abstract form using only
// exported accessors.
func FromAST(a *ast.AST) *Path {
	return &Path{Lax: a.IsLax(), Pred: a.IsPredicate(), Root: FromNode(a.Root())}
}

func anyBound(u uint32) int64 {
	if u == math.MaxUint32 {
		return -1
	}
	return int64(u)
}

// FromNode converts a node and its chain.
func FromNode(n ast.Node) *N {
	if n == nil || isNilNode(n) {
		return nil
	}
	var r *N
	switch n := n.(type) {
	case *ast.ConstNode:
		switch n.Const() {
		case ast.ConstRoot:
			r = &N{K: KRoot}
		case ast.ConstCurrent:
			r = &N{K: KCurrent}
		case ast.ConstLast:
			r = &N{K: KLast}
		case ast.ConstAnyArray:
			r = &N{K: KAnyArray}
		case ast.ConstAnyKey:
			r = &N{K: KAnyKey}
		case ast.ConstTrue:
			r = &N{K: KTrue}
		case ast.ConstFalse:
			r = &N{K: KFalse}
		case ast.ConstNull:
			r = &N{K: KNull}
		}
	case *ast.StringNode:
		r = &N{K: KStr, S: n.Text()}
	case *ast.IntegerNode:
		r = &N{K: KInt, I: n.Int()}
	case *ast.NumericNode:
		r = &N{K: KNum, F: n.Float()}
	case *ast.VariableNode:
		r = &N{K: KVar, S: n.Text()}
	case *ast.KeyNode:
		r = &N{K: KKey, S: n.Text()}
	case *ast.BinaryNode:
		switch n.Operator() {
		case ast.BinaryDecimal:
			r = &N{K: KDecimal, A: FromNode(n.Left()), B: FromNode(n.Right())}
		case ast.BinarySubscript:
			r = &N{K: KBin, S: "to", A: FromNode(n.Left()), B: FromNode(n.Right())}
		default:
			r = &N{K: KBin, S: binOps[n.Operator()], A: FromNode(n.Left()), B: FromNode(n.Right())}
		}
	case *ast.UnaryNode:
		switch n.Operator() {
		case ast.UnaryExists:
			r = &N{K: KUn, S: "exists", A: FromNode(n.Operand())}
		case ast.UnaryNot:
			r = &N{K: KUn, S: "!", A: FromNode(n.Operand())}
		case ast.UnaryIsUnknown:
			r = &N{K: KUn, S: "isunknown", A: FromNode(n.Operand())}
		case ast.UnaryPlus:
			r = &N{K: KUn, S: "+", A: FromNode(n.Operand())}
		case ast.UnaryMinus:
			r = &N{K: KUn, S: "-", A: FromNode(n.Operand())}
		case ast.UnaryFilter:
			r = &N{K: KFilter, A: FromNode(n.Operand())}
		default:
			r = &N{K: KDatetime, S: dtNames[n.Operator()], A: FromNode(n.Operand())}
		}
	case *ast.RegexNode:
		pat, flags := splitRegexString(n.String())
		r = &N{K: KRegex, A: FromNode(n.Operand()), S: pat, Flags: flags}
	case *ast.MethodNode:
		r = &N{K: KMethod, S: methodNames[n.Name()]}
	case *ast.AnyNode:
		r = &N{K: KAny, First: anyBound(n.First()), Last: anyBound(n.Last())}
	case *ast.ArrayIndexNode:
		r = &N{K: KIndex}
		for _, s := range n.Subscripts() {
			b, ok := s.(*ast.BinaryNode)
			if !ok {
				r.Subs = append(r.Subs, [2]*N{FromNode(s), nil})
				continue
			}
			r.Subs = append(r.Subs, [2]*N{FromNode(b.Left()), FromNode(b.Right())})
		}
	}
	if r == nil {
		r = &N{K: KStr, S: fmt.Sprintf("?unknown node %T", n)}
	}
	r.Next = FromNode(n.Next())
	return r
}

// IsNilNode detects typed nil pointers stored in the Node interface.
func IsNilNode(n ast.Node) bool { return isNilNode(n) }

// isNilNode detects typed nil pointers stored in the Node interface.
func isNilNode(n ast.Node) bool {
	switch x := n.(type) {
	case *ast.ConstNode:
		return x == nil
	case *ast.StringNode:
		return x == nil
	case *ast.IntegerNode:
		return x == nil
	case *ast.NumericNode:
		return x == nil
	case *ast.VariableNode:
		return x == nil
	case *ast.KeyNode:
		return x == nil
	case *ast.BinaryNode:
		return x == nil
	case *ast.UnaryNode:
		return x == nil
	case *ast.RegexNode:
		return x == nil
	case *ast.MethodNode:
		return x == nil
	case *ast.AnyNode:
		return x == nil
	case *ast.ArrayIndexNode:
		return x == nil
	}
	return false
}

// splitRegexString extracts pattern and flags from the printed form of a
// RegexNode (the node exports no accessor for them): the first depth-0,
// unquoted " like_regex " is followed by a Go-quoted pattern and an optional
// ` flag "..."`.
func splitRegexString(txt string) (pat, flags string) {
	depth := 0
	for i := 0; i < len(txt); i++ {
		switch txt[i] {
		case '"':
			q, _, ok := pathQuotedPrefix(txt[i:])
			if !ok {
				return "?unquotable:" + txt, ""
			}
			i += len(q) - 1
		case '(', '[', '{':
			depth++
		case ')', ']', '}':
			depth--
		case ' ':
			if depth == 0 && strings.HasPrefix(txt[i:], " like_regex ") {
				rest := txt[i+len(" like_regex "):]
				q, val, ok := pathQuotedPrefix(rest)
				if !ok {
					return "?unquotable:" + txt, ""
				}
				pat = val
				rest = rest[len(q):]
				if strings.HasPrefix(rest, ` flag "`) {
					if _, fv, ok := pathQuotedPrefix(rest[len(" flag "):]); ok {
						flags = fv
					}
				}
				return pat, flags
			}
		}
	}
	return "?no like_regex:" + txt, ""
}

// pathQuotedPrefix reads a double-quoted string at the start of s as the
// printer writes it (strconv.Quote escapes plus \u{N...}) and returns the
// quoted text and its value.
func pathQuotedPrefix(s string) (quoted, val string, ok bool) {
	if len(s) == 0 || s[0] != '"' {
		return "", "", false
	}
	var sb strings.Builder
	i := 1
	for i < len(s) {
		c := s[i]
		switch {
		case c == '"':
			return s[:i+1], sb.String(), true
		case c != '\\':
			sb.WriteByte(c)
			i++
		default:
			if i+1 >= len(s) {
				return "", "", false
			}
			e := s[i+1]
			i += 2
			switch e {
			case 'a':
				sb.WriteByte(7)
			case 'b':
				sb.WriteByte('\b')
			case 'f':
				sb.WriteByte('\f')
			case 'n':
				sb.WriteByte('\n')
			case 'r':
				sb.WriteByte('\r')
			case 't':
				sb.WriteByte('\t')
			case 'v':
				sb.WriteByte('\v')
			case 'x', 'u', 'U':
				n := map[byte]int{'x': 2, 'u': 4, 'U': 8}[e]
				var digits string
				if e == 'u' && i < len(s) && s[i] == '{' {
					j := strings.IndexByte(s[i:], '}')
					if j < 0 {
						return "", "", false
					}
					digits = s[i+1 : i+j]
					i += j + 1
				} else {
					if i+n > len(s) {
						return "", "", false
					}
					digits = s[i : i+n]
					i += n
				}
				v, err := strconv.ParseUint(digits, 16, 32)
				if err != nil {
					return "", "", false
				}
				if e == 'x' {
					sb.WriteByte(byte(v))
				} else {
					sb.WriteRune(rune(v))
				}
			default:
				sb.WriteByte(e)
			}
		}
	}
	return "", "", false
}
