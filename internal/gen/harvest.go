package gen

import (
	"os"
	"path/filepath"
	"regexp"
	"sort"
	"strconv"
	"strings"
)

var (
	reBackquoted = regexp.MustCompile("`([^`\n]{1,300})`")
	reQuoted     = regexp.MustCompile(`"((?:[^"\\\n]|\\.){1,300})"`)
)

// Harvest collects candidate path texts from the string literals of the
// library's own tests and documentation under dir (maintainer-written paths
// covering every node kind). The caller keeps those that Parse accepts.
// Optional enrichment: returns nil if dir cannot be read.
func Harvest(dir string) []string {
	seen := map[string]bool{}
	_ = filepath.Walk(dir, func(p string, info os.FileInfo, err error) error {
		if err != nil || info.IsDir() {
			return nil
		}
		if !(strings.HasSuffix(p, "_test.go") || strings.HasSuffix(p, "README.md")) {
			return nil
		}
		if info.Size() > 4<<20 {
			return nil
		}
		b, err := os.ReadFile(p)
		if err != nil {
			return nil
		}
		s := string(b)
		for _, m := range reBackquoted.FindAllStringSubmatch(s, -1) {
			seen[m[1]] = true
		}
		for _, m := range reQuoted.FindAllStringSubmatch(s, -1) {
			if u, err := strconv.Unquote(`"` + m[1] + `"`); err == nil {
				seen[u] = true
			}
		}
		return nil
	})
	var out []string
	for s := range seen {
		if strings.ContainsAny(s, "$@") || strings.Contains(s, "strict") || strings.Contains(s, "lax") {
			out = append(out, s)
		}
	}
	sort.Strings(out)
	return out
}
