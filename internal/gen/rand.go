package gen

import (
	"math/rand/v2"
	"strings"
)

// Cfg tunes the random path generator.
type Cfg struct {
	Depth         int  // nesting budget (filters, operators)
	MaxSteps      int  // accessor steps per chain
	Methods       bool // numeric/string/boolean methods
	Datetime      bool // datetime methods
	KeyValue      bool
	Vars          bool
	Arith         bool
	Regex         bool
	Any           bool // .**
	HardErrs      bool // $missing, .datetime("tmpl"), bad decimal args
	Keys          []string
	VarNames      []string
	Strs          []string
	Nums          []string // numeric literal texts (non-negative), e.g. "0","1","1.5"
	OnlyAccessors bool     // C07: accessors + filters only
	// QPatterns, if set, are like_regex patterns used (every other time) with
	// the q flag only: as regular expressions most of them do not compile.
	QPatterns []string
}

// DefaultCfg is the general-purpose configuration.
func DefaultCfg() Cfg {
	return Cfg{
		Depth: 3, MaxSteps: 4, Methods: true, Datetime: false, KeyValue: true, Vars: true, Arith: true,
		Regex: true, Any: true, HardErrs: true,
		Keys:     []string{"a", "b", "c"},
		VarNames: []string{"v", "w", "arr", "sarr", "obj", "nul"},
		Strs:     []string{"a", "ab", "b", "", "x", "1", "true"},
		Nums:     []string{"0", "1", "2", "3", "1.5", "2.0", "10", "0.5"},
	}
}

// G is a random abstract-path generator.
type G struct {
	R *rand.Rand
	C Cfg
}

func (g *G) pick(xs []string) string { return xs[g.R.IntN(len(xs))] }

// bigNums: rarely used literals at the int64 / 2^53 / int32 boundaries, in
// integer and in floating-point spelling.
var bigNums = []string{"9007199254740993", "9007199254740992.0", "9007199254740992", "9223372036854775807", "9.223372036854775807e18", "2147483648", "1e19", "4611686018427387904", "1e308", "1.7976931348623157e308", "1e-320"}

func (g *G) num() *N {
	s := g.pick(g.C.Nums)
	if g.R.IntN(24) == 0 {
		s = g.pick(bigNums)
	}
	neg := g.R.IntN(6) == 0
	return NumFromText(s, neg)
}

// NumFromText builds a KInt/KNum from a non-negative decimal text.
func NumFromText(s string, neg bool) *N {
	if strings.ContainsAny(s, ".eE") {
		f := mustFloat(s)
		if neg {
			f = -f
		}
		return &N{K: KNum, F: f}
	}
	i := mustInt(s)
	if neg {
		i = -i
	}
	return &N{K: KInt, I: i}
}

func (g *G) scalar() *N {
	switch g.R.IntN(9) {
	case 0:
		return &N{K: KStr, S: g.pick(g.C.Strs)}
	case 1:
		return &N{K: []Kind{KTrue, KFalse, KNull}[g.R.IntN(3)]}
	case 2:
		if g.C.Vars {
			return g.variable()
		}
	}
	return g.num()
}

func (g *G) variable() *N {
	if g.C.HardErrs && g.R.IntN(12) == 0 {
		return &N{K: KVar, S: "missing"}
	}
	return &N{K: KVar, S: g.pick(g.C.VarNames)}
}

// Step generates one accessor step.
func (g *G) Step(depth int, inFilter, inSub bool) *N {
	for {
		switch g.R.IntN(22) {
		case 0, 1, 2, 3, 4:
			return &N{K: KKey, S: g.pick(g.C.Keys)}
		case 5:
			return &N{K: KAnyKey}
		case 6:
			return &N{K: KAnyArray}
		case 7, 8:
			return g.index(depth, inFilter)
		case 9:
			if g.C.Any {
				return g.anyStep()
			}
		case 10, 11, 12:
			if depth > 0 {
				return &N{K: KFilter, A: g.Pred(depth-1, true, inSub)}
			}
		case 13:
			if !g.C.OnlyAccessors {
				return &N{K: KMethod, S: "size"}
			}
		case 14:
			if !g.C.OnlyAccessors {
				return &N{K: KMethod, S: "type"}
			}
		case 15, 16:
			if g.C.Methods && !g.C.OnlyAccessors {
				return &N{K: KMethod, S: g.pick([]string{"abs", "floor", "ceiling", "double", "number", "string", "boolean", "integer", "bigint"})}
			}
		case 17:
			if g.C.KeyValue && !g.C.OnlyAccessors {
				kv := &N{K: KMethod, S: "keyvalue"}
				if g.R.IntN(2) == 0 {
					// usually followed by one of the members of the triple
					kv.Next = &N{K: KKey, S: g.pick([]string{"value", "value", "key", "id"})}
				}
				return kv
			}
		case 18:
			if g.C.Methods && !g.C.OnlyAccessors {
				return g.decimal()
			}
		case 19:
			if g.C.Datetime && !g.C.OnlyAccessors {
				return g.datetime()
			}
		default:
			return &N{K: KKey, S: g.pick(g.C.Keys)}
		}
	}
}

func (g *G) decimal() *N {
	n := &N{K: KDecimal}
	switch g.R.IntN(4) {
	case 0:
	case 1:
		n.A = &N{K: KInt, I: int64(1 + g.R.IntN(6))}
	default:
		n.A = &N{K: KInt, I: int64(1 + g.R.IntN(6))}
		n.B = &N{K: KInt, I: int64(g.R.IntN(4)) - 1}
	}
	if g.C.HardErrs && g.R.IntN(10) == 0 {
		n.A = &N{K: KInt, I: []int64{0, 1001, -1}[g.R.IntN(3)]}
	}
	return n
}

func (g *G) datetime() *N {
	names := []string{"datetime", "date", "time", "time_tz", "timestamp", "timestamp_tz"}
	n := &N{K: KDatetime, S: names[g.R.IntN(len(names))]}
	switch {
	case n.S == "datetime":
		if g.C.HardErrs && g.R.IntN(8) == 0 {
			n.A = &N{K: KStr, S: "HH24:MI"}
		}
	case n.S != "date" && g.R.IntN(3) == 0:
		n.A = &N{K: KInt, I: int64(g.R.IntN(8))}
	}
	return n
}

func (g *G) anyStep() *N {
	type b struct{ f, l int64 }
	opts := []b{{0, -1}, {1, 1}, {0, 1}, {1, -1}, {2, 2}, {-1, -1}, {1, 2}, {0, 0}, {2, -1}, {2, 1}, {3, 0}, {1, 0}}
	o := opts[g.R.IntN(len(opts))]
	return &N{K: KAny, First: o.f, Last: o.l}
}

func (g *G) index(depth int, inFilter bool) *N {
	n := &N{K: KIndex}
	k := 1 + g.R.IntN(2)
	if g.R.IntN(8) == 0 {
		k = 3
	}
	for i := 0; i < k; i++ {
		s := [2]*N{g.bound(depth, inFilter), nil}
		if g.R.IntN(3) == 0 {
			s[1] = g.bound(depth, inFilter)
		}
		n.Subs = append(n.Subs, s)
	}
	return n
}

func (g *G) bound(depth int, inFilter bool) *N {
	switch g.R.IntN(12) {
	case 0:
		return &N{K: KLast}
	case 1:
		return &N{K: KBin, S: "-", A: &N{K: KLast}, B: &N{K: KInt, I: int64(1 + g.R.IntN(2))}}
	case 2:
		return NumFromText(g.pick([]string{"1.9", "0.5", "5", "1"}), g.R.IntN(3) == 0)
	case 3:
		if depth > 0 && !g.C.OnlyAccessors {
			return g.Chain(depth-1, inFilter, true)
		}
	case 4:
		if depth > 0 && !g.C.OnlyAccessors && g.C.Arith {
			return g.Expr(depth-1, inFilter, true)
		}
	}
	return &N{K: KInt, I: int64(g.R.IntN(3))}
}

func (g *G) head(inFilter, inSub bool) *N {
	r := g.R.IntN(12)
	switch {
	case r < 7 && inFilter:
		return &N{K: KCurrent}
	case r < 9:
		return &N{K: KRoot}
	case r == 9 && g.C.Vars:
		return g.variable()
	case r == 10 && inSub:
		return &N{K: KLast}
	}
	if inFilter {
		return &N{K: KCurrent}
	}
	return &N{K: KRoot}
}

// Chain generates head + 0..MaxSteps accessor steps.
func (g *G) Chain(depth int, inFilter, inSub bool) *N {
	h := g.head(inFilter, inSub)
	n := g.R.IntN(g.C.MaxSteps + 1)
	for i := 0; i < n; i++ {
		h.Append(g.Step(depth, inFilter, inSub))
	}
	return h
}

var arithOps = []string{"+", "-", "*", "/", "%"}
var cmpOps = []string{"==", "!=", "<", "<=", ">", ">="}

// Expr generates an expression (never a bare predicate).
func (g *G) Expr(depth int, inFilter, inSub bool) *N {
	if g.C.OnlyAccessors {
		return g.Chain(depth, inFilter, inSub)
	}
	switch g.R.IntN(12) {
	case 0, 1:
		if depth > 0 && g.C.Arith {
			return &N{K: KBin, S: g.pick(arithOps), A: g.Expr(depth-1, inFilter, inSub), B: g.Expr(depth-1, inFilter, inSub)}
		}
	case 2:
		if depth > 0 && g.C.Arith {
			return Normalize(&N{K: KUn, S: g.pick([]string{"-", "+"}), A: g.Expr(depth-1, inFilter, inSub)})
		}
	case 3, 4:
		return g.scalar()
	case 5:
		if depth > 0 {
			// compound head with accessor steps
			var h *N
			if g.R.IntN(3) == 0 {
				h = g.Pred(depth-1, inFilter, inSub)
			} else if g.C.Arith && g.R.IntN(4) == 0 {
				// (-$.a).abs(), (+@) ? (...): a unary operator with steps after it
				h = &N{K: KUn, S: g.pick([]string{"-", "+"}), A: g.Chain(depth-1, inFilter, inSub)}
			} else if g.C.Arith {
				h = &N{K: KBin, S: g.pick(arithOps), A: g.Expr(depth-1, inFilter, inSub), B: g.Expr(depth-1, inFilter, inSub)}
			} else {
				h = g.scalar()
			}
			k := 1 + g.R.IntN(2)
			for i := 0; i < k; i++ {
				h.Append(g.Step(depth-1, inFilter, inSub))
			}
			return h
		}
	case 6:
		// literal head with steps
		h := g.scalar()
		k := 1 + g.R.IntN(2)
		for i := 0; i < k; i++ {
			h.Append(g.Step(depth, inFilter, inSub))
		}
		return h
	}
	return g.Chain(depth, inFilter, inSub)
}

// Pred generates a predicate.
func (g *G) Pred(depth int, inFilter, inSub bool) *N {
	switch g.R.IntN(14) {
	case 0, 1:
		if depth > 0 {
			return &N{K: KBin, S: g.pick([]string{"&&", "||"}), A: g.Pred(depth-1, inFilter, inSub), B: g.Pred(depth-1, inFilter, inSub)}
		}
	case 2:
		if depth > 0 {
			return &N{K: KUn, S: "!", A: g.Pred(depth-1, inFilter, inSub)}
		}
	case 3:
		if depth > 0 {
			return &N{K: KUn, S: "isunknown", A: g.Pred(depth-1, inFilter, inSub)}
		}
	case 4, 5:
		return &N{K: KUn, S: "exists", A: g.Expr(depth, inFilter, inSub)}
	case 6:
		var r *N
		if g.C.Vars && g.R.IntN(4) == 0 {
			r = &N{K: KVar, S: g.pick([]string{"w", "w", "sarr", "arr", "nul"})}
		} else {
			r = &N{K: KStr, S: g.pick([]string{"a", "", "ab"})}
		}
		return &N{K: KBin, S: "starts with", A: g.Expr(depth, inFilter, inSub), B: r}
	case 7:
		if g.C.Regex && len(g.C.QPatterns) > 0 && g.R.IntN(4) == 0 {
			return &N{K: KRegex, A: g.Expr(depth, inFilter, inSub), S: g.pick(g.C.QPatterns), Flags: g.pick([]string{"q", "iq", "qs", "mq"})}
		}
		if g.C.Regex {
			return &N{K: KRegex, A: g.Expr(depth, inFilter, inSub), S: g.pick([]string{"^a", "b$", "a.b", "", "A", "a\nb"}), Flags: g.pick([]string{"", "", "i", "s", "m", "q", "iq"})}
		}
	}
	return &N{K: KBin, S: g.pick(cmpOps), A: g.Expr(depth, inFilter, inSub), B: g.Expr(depth, inFilter, inSub)}
}

// Path generates a whole path.
func (g *G) Path() *Path {
	p := &Path{Lax: g.R.IntN(2) == 0}
	if g.R.IntN(6) == 0 && !g.C.OnlyAccessors {
		p.Pred = true
		p.Root = g.Pred(g.C.Depth-1, false, false)
		return p
	}
	p.Root = g.Expr(g.C.Depth, false, false)
	if p.Root.IsPredKind() && p.Root.Next == nil {
		p.Pred = true
	}
	return p
}

// Normalize applies the parser's sign folding to an abstract tree: unary
// plus/minus applied to a bare numeric literal is the (negated) literal.
func Normalize(n *N) *N {
	if n == nil {
		return nil
	}
	n.A = Normalize(n.A)
	n.B = Normalize(n.B)
	n.Next = Normalize(n.Next)
	for i := range n.Subs {
		n.Subs[i][0] = Normalize(n.Subs[i][0])
		n.Subs[i][1] = Normalize(n.Subs[i][1])
	}
	if n.K == KUn && (n.S == "+" || n.S == "-") && n.A != nil && n.A.Next == nil {
		switch n.A.K {
		case KInt:
			v := n.A.I
			if n.S == "-" {
				v = -v
			}
			return &N{K: KInt, I: v, Next: n.Next}
		case KNum:
			v := n.A.F
			if n.S == "-" {
				v = -v
			}
			return &N{K: KNum, F: v, Next: n.Next}
		}
	}
	return n
}
