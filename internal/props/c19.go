package props

import (
	"context"
	"encoding/json"
	"errors"
	"fmt"
	"math/rand/v2"
	"runtime"
	"sort"
	"strings"
	"sync"
	"sync/atomic"
	"time"

	"github.com/anishathalye/porcupine"
	"github.com/theory/sqljson/path"

	"verif/internal/gen"
	"verif/internal/h"
)

func init() {
	register(&Prop{
		ID:    "C19",
		Level: "exploration",
		Rule: "race-detector build; per round a FRESH copy of every pool path is parsed and never executed, printed or fingerprinted before N goroutines are released from a barrier; each goroutine issues M calls of Query/First/Exists/Match/ExistsOrMatch/String (and concurrent Parse) on the shared *Path values, shared documents and one shared variables map, with seeded Gosched yields injected at evaluation steps (H1 hook); " +
			"every call is recorded {client, input, call, result fingerprint, return} and the history is checked with porcupine against 'result = isolated baseline of the same input' (baseline computed on separately parsed copies); AST fingerprints compared after the run; then each path is queried after 0..K other calls (incl. failing, silent and cancelled ones) on the same *Path. " +
			"Non-trivial: an operation that overlapped in time with another operation on the same *Path; distinct by (path, document, entry, options)",
		Run: runC19,
		Shards: func(tier string) int {
			if tier == "thorough" {
				return 12
			}
			return 6
		},
		MinExercised: map[string]int64{"concurrent-differs": 10000, "ast-changed": 50, "repeat-differs": 500, "history-dependent": 500},
		Assumptions: []string{
			"data races are those the Go race detector reports for accesses that actually executed; schedules are those the Go scheduler produced under this stress (GOMAXPROCS 1..16, injected yields)",
			"results of paths that expand the members of multi-member objects are compared as multisets (member order is open)",
		},
	})
}

var c19Pool = []string{
	`$`, `$.a`, `$.a.b`, `$.*`, `$[*]`, `$.a[0]`, `$.a[0 to 1]`, `$.a[last]`, `$.a[$.i]`, `$.**`, `$.**{1 to 2}`, `$.**{last}`, `strict $.**.b`,
	`$.a ? (@ > 1)`, `$.o ? (@.b == 2).b`, `$.a ? (@ > $.i)`, `$.list[*] ? (@.x > 1 && @.y == "b")`, `$.list[*] ? (@.x > 1 || exists(@.z))`, `$.list[*] ? (!(@.x == 1))`,
	`$.list[*] ? ((@.x == "a") is unknown)`, `$.list[*] ? (@.y starts with "a")`, `$.list[*] ? (@.y like_regex "^A" flag "i")`, `$.list[*].y like_regex "b$"`, `$.list[*] ? (@.y like_regex "a.c" flag "sq")`,
	`$.s like_regex "^[a-z]+[0-9]*$"`, `$.s like_regex "(ab)+c?" flag "ism"`, `$.list[*] ? (@.x ? (@ > 1) > 0).y`, `$.list[*] ? (@.t.datetime() < "2023-08-16".datetime()).t`,
	`$.i + 1`, `$.i * $.f - 2`, `-$.a`, `+$.a[0]`, `($.i + 1).abs()`, `$.f / 2`, `$.i % 2`, `$.a.abs()`, `$.f.floor()`, `$.f.ceiling()`, `$.n.double()`, `$.n.number()`, `$.f.decimal(5,1)`,
	`$.n.integer()`, `$.n.bigint()`, `$.bools.boolean()`, `$.a.string()`, `$.a.type()`, `$.a.size()`, `$.o.keyvalue()`, `$.o.keyvalue().value`, `$.list[*].keyvalue().key`, `$.o.keyvalue().keyvalue().id`,
	`$.d.datetime()`, `$.d.date()`, `$.tm.time()`, `$.tmz.time_tz()`, `$.ts.timestamp()`, `$.tsz.timestamp_tz()`, `$.tsz.timestamp(2).string()`, `$.ts.timestamp_tz()`, `$.d.datetime() < $.tsz.datetime()`, `$.tmz.time()`,
	`$v`, `$arr[*]`, `$obj.b[last]`, `$.i == $v`, `$arr[2].a + $v`, `$.s starts with $w`, `$missing`, `$.a[$missing]`, `"lit"`, `(1 + 2) * 3`, `null.type()`, `true`,
	`strict $.a`, `strict $.nokey`, `strict $.a[5]`, `strict $.list[*].x`, `strict $.list[*] ? (@.x > 1)`, `strict exists($.a)`, `strict $.a.size() == 3`, `strict -$.s`, `strict $.a[0 to last].type()`,
	`$.aa[0 to 1][*]`, `$.aa[0,2][*]`, `$.aa[0,1][*]`, `$.aa[2,0][*]`, `$.aa[*][*]`, `$.aa[*][0 to last]`, `$.aa[last][*]`, `$.aa[0,1,0][*]`, `$.**[*]`, `$.aa[*] ? (@.size() > 1)[*]`,
	`$."\u0061"`, `$.a\u0061[0]`, `$.s == "\u0061bc\u{31}"`, `$.list[*] ? (@.y starts with "\u0041\u0062")`, `"\ud83d\ude04\u00e9\u4e2d".size()`, `$"\u0076" + $.\u0069`, `$.s like_regex "^\u0061.c"`,
	`$obj.keyvalue()`, `$obj.keyvalue().id`, `$arr[2].keyvalue().id`, `$[*] ? (@ == 1 || @ == 2)`,
	`$.kv.keyvalue().value.double()`, `$.kv.keyvalue() ? (@.value.double() > 1).key`, `$ ? (exists(@.kv.keyvalue().value.double()))`, `strict $.kv.keyvalue().value.integer()`,
	`strict $.big[*].x`, `strict $.big[*].x ? (@ > 100)`, `strict $.big[0 to 7].x ? (@ > 100)`, `strict $.a[*] ? (@ > 100)`, `strict $.big[*].x.double()`, `$.big[*].x ? (@ > 6)`, `$vf + $vi`, `$vn.string()`, `$arr[0] + $vn`,
	`$.i == 1`, `$.a[*] > 1`, `exists($.a ? (@ > 2))`, `($.i == "x") is unknown`, `$.i == 1 && $.f > 1`, `!($.s == "x")`, `$.x.y.z`, `$.a.b.c`, `$.a[*].foo`, `$.list[1 to last].x`, `$.list[*].t.date().string()`,
	// precisions above 6 (capped, with whatever bookkeeping goes with that), a key that is missing next to its case variants
	// a variable inside what follows another variable (a filter on it, its subscript)
	`$arr ? (@ > $v)`, `$arr[$vi]`, `$obj.b ? (@ < $arr[1])`, `$arr[*] ? (@ == $v || @ > $vf)`, `$obj.b[$arr[0]]`, `strict $arr[*] ? (@.a == $arr[2].a).a`,
	`$.tsz.timestamp_tz(7).string()`, `$.tm.time(9).string()`, `$.ts.timestamp(8)`, `$.tmz.time_tz(7)`, `strict $.key`, `strict $.list[*].X`, `strict $.kv.A`,
}

var c19Docs = []string{
	`{"Key":1,"KEY":2,"kEy":3,"a":[1,2,3],"aa":[[1,2,3],[4],[5],[6,7]],"i":1,"f":1.5,"n":"12","s":"abc1","o":{"b":2},"bools":["t",0],"list":[{"x":1,"y":"ab","t":"2023-08-15"},{"x":2,"y":"Abc","t":"2023-08-17"},{"x":"a","y":"b","z":1,"t":"2023-08-15"}],"d":"2023-08-15","tm":"12:34:56","tmz":"12:34:56+01:00","ts":"2023-08-15T12:34:56","tsz":"2023-08-15T12:34:56.789+01:00","kv":{"a":1.5,"b":"x","c":2,"d":"y","e":3,"f":"z"},"big":[{"x":1},{"x":2},{"x":3},{"x":4},{"x":5},{"x":6},{"x":7},{"x":8},{"y":9}]}`,
	`{"a":[],"i":0,"f":-0.5,"n":"x","s":"","o":{},"bools":[],"list":[],"d":"bad","tm":"","tmz":"","ts":"","tsz":""}`,
	`[1,[2,[3,[4]]],{"b":{"b":1}}]`, `null`, `"just a string"`, `42`, `{"a":{"b":{"c":1}},"i":[0],"x":{"y":{"z":[1,2]}}}`,
	`{"a":[3,2,1],"aa":[[],[7,8,9,10,11],[12]],"i":2,"f":1e10,"n":"2147483648","s":"ab\nc","o":{"b":2},"bools":["yes","no",1],"list":[{"x":5,"y":"a.c"}],"d":"2024-02-29","tm":"23:59:59.999","tmz":"00:00:00Z","ts":"2024-02-29 23:59:59","tsz":"2024-02-29T23:59:59-08:00"}`,
	`[]`, `{}`, `[null,null]`, `{"a":[1,"x",null,[2]],"i":-1,"f":2.5,"n":"1.5","s":"ABC","o":{"b":"2"},"list":[{"x":2,"y":"abc"}]}`,
}

const c19Vars = `{"v":1,"w":"ab","arr":[1,2,{"a":3}],"obj":{"b":[1,2]},"vn":2.50}`

type c19Input struct {
	pi, di int
	entry  string
	silent bool
	tz     bool
}

func (in c19Input) key() string {
	return fmt.Sprintf("%d|%d|%s|%v|%v", in.pi, in.di, in.entry, in.silent, in.tz)
}

var c19Entries = []string{"query", "first", "exists", "match", "existsormatch", "string"}

var c19BaseVars map[string]any

var c19Concurrent atomic.Bool
var c19NamedZone = func() *time.Location {
	l, err := time.LoadLocation("Asia/Kolkata") // +05:30 for every date of the pool documents
	if err != nil {
		panic("harness: tzdata: " + err.Error())
	}
	return l
}()

var c19Zone = time.FixedZone("+05:30", 5*3600+1800)

// c19ZoneOverride, if set, is the context zone of every call (further
// cold-start phases, each in a zone the process has not used yet).
var c19ZoneOverride *time.Location

// c19Exec runs one input on the given paths and returns the result fingerprint.
func c19Exec(paths []*path.Path, docs []any, vars map[string]any, in c19Input, exposed []bool, yieldEvery int) string {
	p := paths[in.pi]
	if in.entry == "string" {
		return p.String()
	}
	m := h.NewMon()
	m.YieldEvery = yieldEvery
	if c19BaseVars != nil && strings.Contains(c19Pool[in.pi], ".keyvalue()") && c19Pool[in.pi][0] == '$' && c19Pool[in.pi][1] != '.' && c19Pool[in.pi][1] != ' ' {
		// ids of objects reached through a variable are relative to the
		// variables map: comparable only between calls given the same map
		vars = c19BaseVars
	}
	zone := c19Zone
	if yieldEvery != 0 || c19Concurrent.Load() {
		// the concurrent phase runs in a NAMED zone with the same offset, which
		// no sequential call of this process has used before: whatever the
		// library sets up on first use of a zone is set up under contention
		zone = c19NamedZone
	}
	if z := c19ZoneOverride; z != nil {
		zone = z
	}
	o := h.CallMonitored(in.entry, p, docs[in.di], h.Opts{Vars: vars, Silent: in.silent, TZ: in.tz, Zone: zone}, m)
	fp := o.Class
	if len(o.Faults) > 0 {
		fp += " FAULT:" + strings.Join(o.Faults, ";")
	}
	if o.Class != h.OK {
		if exposed[in.pi] {
			return fp // which member fails first is open
		}
		return fp + " " + o.ErrText()
	}
	switch in.entry {
	case "query":
		if exposed[in.pi] {
			return fp + " " + h.CanonBag(o.Items)
		}
		return fp + " " + h.CanonList(o.Items)
	case "first":
		if exposed[in.pi] {
			return fp + " (first of exposed)"
		}
		return fp + " " + h.Canon(o.Val)
	}
	return fp + " " + fmt.Sprint(o.Bool)
}

// c19Overlap: identical calls that overlap in time. All goroutines issue the
// same call - the same *Path, no options - at the same moment, yielding at
// every step so that the calls are in flight together; one of them has a
// context that is cancelled in mid-flight. Each call returns what it returns
// alone: the cancelled one its cancellation (or its result, if it was done
// before), every other one its result. Half of the goroutines pass the
// document, the other half a shorter slice of the same backing array - another
// document, with other answers. Every call must also have done its own
// evaluation (at least one step observed by the hooks under its own context).
func c19Overlap(c *h.Ctx, n, rounds int) {
	full := make([]any, 0, 80)
	for i := 0; i < 63; i++ {
		if i%2 == 0 {
			full = append(full, float64(100+i))
		} else {
			full = append(full, map[string]any{"x": float64(100 + i)})
		}
	}
	full = append(full, float64(9))
	short := full[: len(full)-1 : len(full)-1]
	docs := []any{full, short}
	// ... and paths that nest deeply (200 steps in flight per call): what one
	// evaluation may use does not depend on how many others are under way
	var deep any = float64(1)
	for i := 0; i < 200; i++ {
		deep = map[string]any{"a": deep}
	}
	deepChain := strings.Repeat(".a", 200)
	ptxts := []string{`$[*] ? (@ == 9)`, `$[*] ? (@ < 10)`, `$[last]`, `$.size()`, `strict $[*] ? (@ == 9)`, `$.** ? (@ == 9)`, `$[*] ? (@.x > 150 || @ == 9)`, `$[60 to last]`, `$[*] ? (@ == 9).type()`,
		`$[last] == 9`, `exists($[*] ? (@ == 9))`, `$[*] > 161`, `$[*].x ? (@ == 161)`, `strict $[63]`,
		`$` + deepChain, `strict $` + deepChain + ` == 1`, `$ ? (exists(@` + deepChain + `))`}
	docsOf := func(pi int) []any {
		if strings.Contains(ptxts[pi], deepChain) {
			return []any{deep, deep}
		}
		return docs
	}
	entries := []string{"exists", "existsormatch", "query", "first"}
	paths := make([]*path.Path, len(ptxts))
	base := map[string]string{}
	fpOf := func(o *h.Out) string {
		fp := o.Class
		switch {
		case len(o.Faults) > 0:
			fp += " FAULT:" + strings.Join(o.Faults, ";")
		case o.Class != h.OK:
			fp += " " + o.ErrText()
		case o.Entry == "query":
			fp += " " + h.CanonList(o.Items)
		case o.Entry == "first":
			fp += " " + h.Canon(o.Val)
		default:
			fp += " " + fmt.Sprint(o.Bool)
		}
		return fp
	}
	for i, t := range ptxts {
		paths[i] = path.MustParse(t)
		seq := path.MustParse(t)
		for di, d := range docsOf(i) {
			for _, e := range entries {
				base[fmt.Sprint(i, di, e)] = fpOf(h.CallMonitored(e, seq, d, h.Opts{}, h.NewMon()))
				c.Eval(1)
			}
		}
	}
	type res struct {
		key, got  string
		cancelled bool
		steps     int
	}
	nrounds := rounds * 40
	for round := 0; round < nrounds; round++ {
		pi := round % len(ptxts)
		entry := entries[(round/len(ptxts))%len(entries)]
		victim := round % n
		out := make([]res, n)
		c19Concurrent.Store(true)
		h.NoSharedAtomics = true
		var wg sync.WaitGroup
		start := make(chan struct{})
		for g := 0; g < n; g++ {
			wg.Add(1)
			go func(g int) {
				defer wg.Done()
				di := g % 2
				if round%3 == 0 {
					di = 0 // every call identical, document included
				}
				m := h.NewMon()
				m.YieldEvery = 1
				if g == victim {
					m.CancelAt = 2 + round%5
					m.Cause = context.Canceled
				}
				<-start
				o := h.CallMonitored(entry, paths[pi], docsOf(pi)[di], h.Opts{}, m)
				out[g] = res{key: fmt.Sprint(pi, di, entry), got: fpOf(o), cancelled: g == victim, steps: m.Steps}
			}(g)
		}
		close(start)
		wg.Wait()
		c19Concurrent.Store(false)
		h.NoSharedAtomics = false
		c.Eval(n)
		for g, r := range out {
			want := base[r.key]
			cs := h.Case{Kind: "overlap", Path: ptxts[pi], Entry: entry, Extra: map[string]string{"goroutine": fmt.Sprint(g), "cancelled-goroutine": fmt.Sprint(victim), "document": map[bool]string{true: "100..162,9 (64 elements)", false: "its first 63 elements (same backing array)"}[strings.HasPrefix(r.key, fmt.Sprint(pi, 0))]}}
			switch {
			case r.steps == 0:
				c.Violate("concurrent-differs", h.F("entry", entry, "kind", "no-evaluation-of-its-own"), fmt.Sprintf("%s(%s) returned %q although no evaluation step ran under the call's own context (it overlapped with %d identical calls)", entry, ptxts[pi], r.got, n-1), cs)
			case r.cancelled && strings.Contains(r.got, "context canceled"):
				c.Held("concurrent-differs")
			case r.got != want:
				kind := "overlapping-identical-calls"
				if strings.Contains(r.got, "context canceled") {
					kind = "another-call's-cancellation"
				}
				c.Violate("concurrent-differs", h.F("entry", entry, "kind", kind), fmt.Sprintf("%s(%s) overlapping with %d identical calls (goroutine %d of them was cancelled in mid-flight) returned %q; run alone it returns %q", entry, ptxts[pi], n-1, victim, r.got, want), cs)
			default:
				c.Held("concurrent-differs")
			}
		}
	}
	c.Count("overlap.identical-call-rounds", int64(nrounds))
}

// c19CancelledFromOutside: a caller cancels the context of a call that is
// under way - from another goroutine, as callers do (a request handler going
// away, a timeout). Contexts made by package context are used, not the
// monitored ones. The call returns its result or the cancellation, and
// whatever the library does to notice the cancellation is free of data races.
func c19CancelledFromOutside(c *h.Ctx) {
	var deep any = float64(1)
	for i := 0; i < 300; i++ {
		deep = map[string]any{"a": deep}
	}
	var wide []any
	for i := 0; i < 400; i++ {
		wide = append(wide, map[string]any{"x": float64(i)})
	}
	cases := []struct {
		p   *path.Path
		doc any
	}{
		{path.MustParse("$" + strings.Repeat(".a", 300)), deep},
		{path.MustParse(`$[*] ? (@.x > 390 || @.x == 7).x`), wide},
		{path.MustParse(`strict $[*].x ? (@ >= 0)`), wide},
		{path.MustParse(`$.** ? (@ == 1)`), deep},
	}
	h.NoSharedAtomics = true
	defer func() { h.NoSharedAtomics = false }()
	bad := ""
	for ci, cse := range cases {
		want, werr := cse.p.Query(context.Background(), cse.doc)
		if werr != nil {
			continue
		}
		wfp := h.CanonList(want)
		for i := 0; i < 120 && bad == ""; i++ {
			ctx, cancel := context.WithCancel(context.Background())
			var wg sync.WaitGroup
			wg.Add(1)
			go func(spin int) {
				defer wg.Done()
				for k := 0; k < spin; k++ {
					runtime.Gosched()
				}
				cancel()
			}(i % 23 * 3)
			var got []any
			var err error
			switch i % 3 {
			case 0:
				got, err = cse.p.Query(ctx, cse.doc)
			case 1:
				var v any
				v, err = cse.p.First(ctx, cse.doc)
				if err == nil {
					got = want[:min(1, len(want))]
					if h.Canon(v) != h.Canon(want[0]) {
						bad = fmt.Sprintf("case %d: First returned %s", ci, h.Canon(v))
					}
				}
			default:
				var b bool
				b, err = cse.p.Exists(ctx, cse.doc)
				if err == nil {
					got = want
					if !b {
						bad = fmt.Sprintf("case %d: Exists returned false", ci)
					}
				}
			}
			wg.Wait()
			cancel()
			c.Eval(1)
			switch {
			case err != nil && !errors.Is(err, context.Canceled):
				bad = fmt.Sprintf("case %d: a call whose context was cancelled from another goroutine returned %v", ci, err)
			case err == nil && i%3 == 0 && h.CanonList(got) != wfp:
				bad = fmt.Sprintf("case %d: a call whose context was cancelled from another goroutine returned a nil error and %d items (alone: %d)", ci, len(got), len(want))
			}
		}
	}
	if bad != "" {
		c.Violate("concurrent-differs", h.F("kind", "cancelled-from-outside"), bad, h.Case{Kind: "cancelled-from-outside"})
	} else {
		c.Held("concurrent-differs")
	}
}

// c19EditedDocuments: a call answers for the document it is given now. The
// caller may have edited the document since an earlier call (same object, same
// number of members), or the document may be a new one that happens to lie
// where an earlier, discarded one lay: nothing remembered from the earlier
// call may show.
func c19EditedDocuments(c *h.Ctx) {
	ptxts := []string{`$.keyvalue().key`, `$.keyvalue() ? (@.value > 5).key`, `$.*`, `$.o.keyvalue().key`, `$.** ? (@.type() == "number")`, `$.keyvalue().value`, `exists($.k07)`, `$.k07`, `$.o.*`, `$.size()`, `$.o.keyvalue().value`}
	for pi, pt := range ptxts {
		p := path.MustParse(pt)
		mk := func(round int) map[string]any {
			m := map[string]any{}
			for i := 0; i < 20; i++ {
				m[fmt.Sprintf("k%02d", i)] = float64(i + round)
			}
			inner := map[string]any{}
			for i := 0; i < 18; i++ {
				inner[fmt.Sprintf("m%02d_%d", i, round)] = float64(i)
			}
			m["o"] = inner
			return m
		}
		fp := func(o *h.Out) string {
			if o.Class != h.OK {
				return o.Summary()
			}
			return h.CanonBag(o.Items)
		}
		// (a) the caller edits the object between two calls
		doc := mk(0)
		first := fp(h.Call("query", p, doc, h.Opts{}))
		delete(doc, "k07")
		doc["k99"] = float64(99)
		in := doc["o"].(map[string]any)
		delete(in, "m03_0")
		in["zz"] = float64(77)
		got := fp(h.Call("query", p, doc, h.Opts{}))
		want := fp(h.Call("query", path.MustParse(pt), deepCopyJSON(doc), h.Opts{}))
		c.Eval(3)
		if got != want {
			c.Violate("repeat-differs", h.F("kind", "edited-document"), fmt.Sprintf("Query(%s) on a document edited since the previous call (one member replaced, same size) = %s; on a copy of the document as it is now: %s (before the edit: %s)", pt, got, want, first), h.Case{Kind: "edited-document", Path: pt})
		} else {
			c.Held("repeat-differs")
		}
		// (b) short-lived documents of one shape, one after the other
		bad := ""
		for round := 1; round <= 60 && bad == ""; round++ {
			d := mk(round)
			got := fp(h.Call("query", p, d, h.Opts{}))
			want := fp(h.Call("query", path.MustParse(pt), deepCopyJSON(d), h.Opts{}))
			c.Eval(2)
			if got != want {
				bad = fmt.Sprintf("round %d: %s, on a copy %s", round, got, want)
			}
			if round%8 == 0 {
				runtime.GC()
			}
		}
		if bad != "" {
			c.Violate("repeat-differs", h.F("kind", "short-lived-documents"), fmt.Sprintf("Query(%s) on freshly built documents of one shape, discarded after each call: %s", pt, bad), h.Case{Kind: "edited-document", Path: pt})
		} else {
			c.Held("repeat-differs")
		}
		_ = pi
	}
}

// c19HugeArrays: arrays of tens of thousands of elements with two elements
// far apart on which the step after [*] fails, each with an error text of its
// own: the same call returns the same error whenever and next to whatever it
// is made.
func c19HugeArrays(c *h.Ctx) {
	const n = 40000
	h.NoSharedAtomics = true
	defer func() { h.NoSharedAtomics = false }()
	k := 0
	for _, at := range [][2]int{{2500, 32500}, {100, 35100}, {4990, 30000}, {12000, 22000}, {19990, 20010}} {
		for _, pt := range []string{`$[*].double()`, `strict $[*].a`, `$[*] ? (@.type() != "null").double()`, `$[*].double().abs()`} {
			k++
			if !c.Mine(k) {
				continue
			}
			arr := make([]any, n)
			for i := range arr {
				arr[i] = float64(i % 97)
			}
			arr[at[0]], arr[at[1]] = "first", "second"
			if strings.Contains(pt, ".a") {
				for i := range arr {
					arr[i] = map[string]any{"a": float64(i % 97)}
				}
				arr[at[0]], arr[at[1]] = map[string]any{"b": 1.0}, map[string]any{"c": 2.0}
			}
			p := path.MustParse(pt)
			call := func(e string) string {
				switch e {
				case "first":
					v, err := p.First(context.Background(), arr)
					if err != nil {
						return "error: " + err.Error()
					}
					return "first: " + h.Canon(v)
				}
				items, err := p.Query(context.Background(), arr)
				if err != nil {
					return "error: " + err.Error()
				}
				return fmt.Sprintf("query: %d items", len(items))
			}
			// (what First returns is compared with what First returns)
			seen, seenFirst := map[string]int{}, map[string]int{}
			for r := 0; r < 7; r++ {
				seen[call("query")]++
				seenFirst[call("first")]++
				c.Eval(2)
			}
			var mu sync.Mutex
			var wg sync.WaitGroup
			for g := 0; g < 6; g++ {
				wg.Add(1)
				go func(g int) {
					defer wg.Done()
					for r := 0; r < 3; r++ {
						e := []string{"query", "first", "query"}[(g+r)%3]
						got := call(e)
						mu.Lock()
						if e == "first" {
							seenFirst[got]++
						} else {
							seen[got]++
						}
						mu.Unlock()
						runtime.Gosched()
					}
				}(g)
			}
			wg.Wait()
			c.Eval(18)
			if len(seen) > 1 || len(seenFirst) > 1 {
				var all []string
				for s, cnt := range seen {
					all = append(all, fmt.Sprintf("%dx %s", cnt, s))
				}
				for s, cnt := range seenFirst {
					all = append(all, fmt.Sprintf("%dx %s", cnt, s))
				}
				sort.Strings(all)
				c.Violate("repeat-differs", h.F("kind", "huge-array"), fmt.Sprintf("%s on an array of %d elements, of which elements %d and %d make the step after [*] fail: Query and First, each called 7 times alone and from 6 goroutines at once, returned %s", pt, n, at[0], at[1], strings.Join(all, "; ")), h.Case{Kind: "huge-array", Path: pt})
			} else {
				c.Held("repeat-differs")
			}
		}
	}
}

// c19Rescanned: a Path value is one word around the parsed expression, and
// copies of it (by assignment, or path.New on its AST) share that expression.
// Reading another text into one holder (Scan, UnmarshalText, UnmarshalBinary)
// gives that holder a new expression; every other holder keeps answering as
// before - also while the reading goes on in another goroutine.
func c19Rescanned(c *h.Ctx) {
	h.NoSharedAtomics = true
	defer func() { h.NoSharedAtomics = false }()
	doc := h.Decode(`{"a":[1,2,{"b":"x"}],"b":["x","y"],"c":{"a":5}}`, false)
	others := []string{`strict $.b[*]`, `$.c`, `$.a[*] ? (@ > 1)`, `strict $.c.a + 1`}
	for pi, pt := range c19Pool {
		if !c.Mine(pi) {
			continue
		}
		p, err := path.Parse(pt)
		if err != nil {
			continue
		}
		fp := func(q *path.Path) string {
			items, err := q.Query(context.Background(), doc)
			if err != nil {
				return q.String() + " -> error: " + err.Error()
			}
			return q.String() + " -> " + h.CanonBag(items)
		}
		want := fp(p)
		bad := ""
		for k, other := range others {
			holder := *p // a copy by assignment
			if k%2 == 1 {
				holder = *path.New(p.AST)
			}
			stop := make(chan struct{})
			var wg sync.WaitGroup
			var during string
			wg.Add(1)
			go func() {
				defer wg.Done()
				for {
					select {
					case <-stop:
						return
					default:
					}
					if got := fp(p); got != want && during == "" {
						during = got
					}
					runtime.Gosched()
				}
			}()
			var rerr error
			switch k % 3 {
			case 0:
				rerr = holder.UnmarshalText([]byte(other))
			case 1:
				rerr = holder.Scan(other)
			default:
				rerr = holder.UnmarshalBinary([]byte(other))
			}
			runtime.Gosched()
			close(stop)
			wg.Wait()
			c.Eval(2)
			switch {
			case rerr != nil:
				continue
			case during != "":
				bad = fmt.Sprintf("while %q was read into a copy of the Path value, the original answered %s (before: %s)", other, during, want)
			case fp(p) != want:
				bad = fmt.Sprintf("after %q was read into a copy of the Path value, the original answers %s (before: %s)", other, fp(p), want)
			case holder.String() == p.String() && p.String() != path.MustParse(other).String():
				bad = fmt.Sprintf("reading %q into a copy of the Path value left the copy at %s", other, holder.String())
			}
			if bad != "" {
				break
			}
		}
		if bad != "" {
			c.Violate("repeat-differs", h.F("kind", "another-holder-rescanned"), fmt.Sprintf("%s: %s", pt, bad), h.Case{Kind: "rescanned", Path: pt})
		} else {
			c.Held("repeat-differs")
		}
	}
}

// c19GeneratedIDs: the ids .keyvalue() gives the objects it generates are
// numbered within the execution. Chained, the id of a pair of a pair is that
// number times 10^10 plus an address distance (the distance is what the
// recorded C16 finding is about and is left out here): the numbers are the same
// in every execution, alone or next to others, however many objects a call
// generates.
func c19GeneratedIDs(c *h.Ctx) {
	h.NoSharedAtomics = true
	defer func() { h.NoSharedAtomics = false }()
	for wi, width := range []int{5, 70, 200} {
		if !c.Mine(wi) {
			continue
		}
		m := map[string]any{}
		for i := 0; i < width; i++ {
			m[fmt.Sprintf("k%03d", i)] = float64(i)
		}
		doc := map[string]any{"w": m}
		p := path.MustParse(`$.w.keyvalue().keyvalue().id`)
		numbers := func() string {
			items, err := p.Query(context.Background(), doc)
			if err != nil {
				return "error: " + err.Error()
			}
			var sb strings.Builder
			for _, it := range items {
				var id int64
				switch x := it.(type) {
				case int64:
					id = x
				case float64:
					id = int64(x)
				default:
					return fmt.Sprintf("an id of type %T", it)
				}
				fmt.Fprintf(&sb, "%d ", id/10000000000)
			}
			return sb.String()
		}
		want := numbers()
		seen := map[string]int{want: 1}
		for r := 0; r < 4; r++ {
			seen[numbers()]++
		}
		var mu sync.Mutex
		var wg sync.WaitGroup
		for g := 0; g < 4; g++ {
			wg.Add(1)
			go func() {
				defer wg.Done()
				for r := 0; r < 3; r++ {
					got := numbers()
					mu.Lock()
					seen[got]++
					mu.Unlock()
				}
			}()
		}
		wg.Wait()
		c.Eval(17)
		if len(seen) > 1 {
			var first string
			for s := range seen {
				if s != want {
					first = s
				}
			}
			if len(first) > 300 {
				first = first[:300] + "..."
			}
			w := want
			if len(w) > 300 {
				w = w[:300] + "..."
			}
			c.Violate("repeat-differs", h.F("kind", "generated-object-numbers", "width", fmt.Sprint(width)), fmt.Sprintf("$.w.keyvalue().keyvalue().id on an object of %d members, 17 executions (5 alone, 12 from 4 goroutines): the numbers of the generated objects (id / 10^10) were %s in the first and %s in another (%d different sequences)", width, w, first, len(seen)), h.Case{Kind: "generated-ids"})
		} else {
			c.Held("repeat-differs")
		}
	}
}

// c19ZoneNames: context zones whose abbreviations collide (CST is Chicago,
// Shanghai and Havana; IST is Kolkata, Jerusalem and Dublin): a cast made under
// one of them is not coloured by the casts made under the others before.
func c19ZoneNames(c *h.Ctx) {
	type zc struct {
		zone string
		ts   string
	}
	order := []zc{{"America/Chicago", "2024-01-15T12:00:00"}, {"Asia/Shanghai", "2024-01-15T12:00:00"}, {"America/Havana", "2024-01-15T12:00:00"}, {"Asia/Kolkata", "2024-01-15T12:00:00"}, {"Asia/Jerusalem", "2024-01-15T12:00:00"},
		{"Europe/Dublin", "2024-07-15T12:00:00"}, {"Asia/Shanghai", "2024-07-15T12:00:00"}, {"America/Chicago", "2024-07-15T12:00:00"}, {"Europe/London", "2024-07-15T12:00:00"}, {"Asia/Kolkata", "2024-07-15T12:00:00"}}
	if c.Shard%2 == 1 {
		for i, j := 0, len(order)-1; i < j; i, j = i+1, j-1 {
			order[i], order[j] = order[j], order[i]
		}
	}
	p := path.MustParse(`$.timestamp_tz().string()`)
	pc := path.MustParse(`$.timestamp_tz() == $v.timestamp_tz()`)
	for _, z := range order {
		loc, err := time.LoadLocation(z.zone)
		if err != nil {
			c.Count("zone-unavailable", 1)
			continue
		}
		wall, _ := time.Parse("2006-01-02T15:04:05", z.ts)
		inst := time.Date(wall.Year(), wall.Month(), wall.Day(), wall.Hour(), wall.Minute(), wall.Second(), 0, loc)
		want := inst.Format("2006-01-02T15:04:05-07:00")
		oq := h.Call("query", p, z.ts, h.Opts{TZ: true, Zone: loc})
		om := h.Call("match", pc, z.ts, h.Opts{TZ: true, Zone: loc, Vars: map[string]any{"v": want}})
		c.Eval(2)
		if oq.Class != h.OK || len(oq.Items) != 1 || oq.Items[0] != want || om.Class != h.OK || !om.Bool {
			c.Violate("history-dependent", h.F("kind", "zone-abbreviation"), fmt.Sprintf("%q.timestamp_tz() with WithTZ under the context zone %s = %s (equal to %q: %s); the zone's own rules give %s - after casts under other zones with the same abbreviation", z.ts, z.zone, oq.Summary(), want, om.Summary(), want), h.Case{Kind: "zone-names", Zone: z.zone})
		} else {
			c.Held("history-dependent")
		}
	}
}

func deepCopyJSON(v any) any {
	b, err := json.Marshal(v)
	if err != nil {
		panic("harness: " + err.Error())
	}
	return h.Decode(string(b), false)
}

// c19RejectedParses: Parse is called concurrently also with texts it rejects
// (user input), and a rejected text leaves nothing behind: a later Parse of
// the same text costs what the first one cost.
func c19RejectedParses(c *h.Ctx, n int) {
	bad := []string{`(99999999999999999999)[0]`, `$ ? (@ > (1e999)[*])`, `($.decimal(1,2,3))."b"`, `(99999999999999999999).a.b[*]`, `$.a == (1e400).abs()`, `$[99999999999999999999 to last]`, `$ ? (@ like_regex "(" flag "i")`,
		`$.a.decimal(1,2,3).b`, `(0x)[0].a`, `("\u12").a[*]`, `$ ? (@ ==`, `$.a like_regex "x" flag "z"`, `last.a[0]`, `@[*].a`, `$.**{99999999999 to 2}.a`, `(1e999 + 1e999).a.b.c`, `-(99999999999999999999).a`, `$[*] ? (@ > 99999999999999999999)[0][1]`}
	want := make([]string, len(bad))
	for i, t := range bad {
		_, err, pan := h.ParseSafe(t)
		if err == nil || pan != "" {
			c.Count("gen.unexpectedly-accepted", 1)
			continue
		}
		want[i] = err.Error()
	}
	c19Concurrent.Store(true)
	h.NoSharedAtomics = true
	var wg sync.WaitGroup
	var mu sync.Mutex
	var diffs []string
	start := make(chan struct{})
	for g := 0; g < n; g++ {
		wg.Add(1)
		go func(g int) {
			defer wg.Done()
			<-start
			for k := 0; k < 400; k++ {
				i := (k + g) % len(bad)
				if want[i] == "" {
					continue
				}
				_, err, pan := h.ParseSafe(bad[i])
				got := pan
				if err != nil {
					got = err.Error()
				}
				if got != want[i] {
					mu.Lock()
					diffs = append(diffs, fmt.Sprintf("concurrent Parse(%q) = %q; alone %q", bad[i], got, want[i]))
					mu.Unlock()
					return
				}
				if k%8 == 4 {
					// a long text (well beyond any "short path" threshold) next to the rejected ones
					if _, err := path.Parse(c19LongText); err != nil {
						mu.Lock()
						diffs = append(diffs, "concurrent Parse of a long valid text failed: "+err.Error())
						mu.Unlock()
						return
					}
				}
				if k%16 == 0 {
					pi := (k/16 + g) % len(c19Pool)
					pp, err := path.Parse(c19Pool[pi])
					if err != nil {
						mu.Lock()
						diffs = append(diffs, "concurrent Parse of a pool text failed: "+err.Error())
						mu.Unlock()
						return
					}
					if got := fmt.Sprint(pp.IsPredicate(), " ", pp.PgIndexOperator(), " ", pp.String()); c19PoolKind != nil && got != c19PoolKind[pi] {
						mu.Lock()
						diffs = append(diffs, fmt.Sprintf("Parse(%q) next to rejected parses gives (IsPredicate, operator, text) = %s; parsed first in this process: %s", c19Pool[pi], got, c19PoolKind[pi]))
						mu.Unlock()
						return
					}
				}
			}
		}(g)
	}
	close(start)
	wg.Wait()
	c19Concurrent.Store(false)
	h.NoSharedAtomics = false
	c.Eval(n * 400)
	if len(diffs) > 0 {
		c.Violate("concurrent-differs", h.F("kind", "parse-rejected"), diffs[0], h.Case{Kind: "concurrent-parse"})
	} else {
		c.Held("concurrent-differs")
	}
	// sequentially: what N rejected parses leave reachable does not grow with N
	measure := func(rounds int) uint64 {
		for k := 0; k < rounds; k++ {
			for _, t := range bad {
				_, _, _ = h.ParseSafe(t)
			}
		}
		runtime.GC()
		runtime.GC()
		var ms runtime.MemStats
		runtime.ReadMemStats(&ms)
		return ms.HeapAlloc
	}
	measure(50)
	h0 := measure(50)
	h1 := measure(3000)
	h2 := measure(3000)
	c.Eval(6100 * len(bad))
	c.Count("max:rejected-parse-heap-growth-bytes", max(int64(h2)-int64(h0), 0))
	// (two equal intervals, both of which must show the growth: one-off
	// allocations of the runtime do not repeat)
	const slack = 300 << 10
	if h1 > h0+slack && h2 > h1+slack {
		c.Violate("repeat-differs", h.F("kind", "rejected-parses-accumulate"), fmt.Sprintf("what rejected Parse calls leave reachable grows with their number: heap after GC %d bytes, %d after %d more rejected parses, %d after another %d - a rejected parse is not independent of the ones before it", h0, h1, 3000*len(bad), h2, 3000*len(bad)), h.Case{Kind: "rejected-parses"})
	} else {
		c.Held("repeat-differs")
	}
}

type c19Op struct {
	client int
	in     c19Input
	call   int64
	ret    int64
	out    string
}

func fresh0(pi int) *path.Path {
	p, _, _ := h.ParseSafe(c19Pool[pi])
	return p
}

func parsePool() ([]*path.Path, []bool) {
	paths := make([]*path.Path, len(c19Pool))
	exposed := make([]bool, len(c19Pool))
	for i, t := range c19Pool {
		p, err := path.Parse(t)
		if err != nil {
			panic("harness: pool path does not parse: " + t + ": " + err.Error())
		}
		paths[i] = p
		if c19PoolKind == nil {
			c19PoolKind = make([]string, len(c19Pool))
		}
		if c19PoolKind[i] == "" {
			// (the first parse of the text in this process, before any text was rejected)
			c19PoolKind[i] = fmt.Sprint(p.IsPredicate(), " ", p.PgIndexOperator(), " ", p.String())
		}
	}
	return paths, exposed
}

// c19LongText: a valid path of some 3000 bytes.
var c19LongText = "$" + strings.Repeat(`.list[*] ? (@.x > 1 && @.y == "b")`, 90) + ".x"

// c19PoolKind: what the first Parse of each pool text reported about it.
var c19PoolKind []string

// c19StuckInLibrary looks through a dump of all goroutine stacks for a
// goroutine that the Go runtime reports as blocked on a lock, a channel or a
// select for a minute or more (the runtime adds ", N minutes" to the state)
// and whose innermost frame outside the runtime and package sync is library
// code. Calls of the workload take micro- to milliseconds; a minute inside a
// lock that the library itself took is a call that does not return.
func c19StuckInLibrary(dump string) string {
	for _, g := range strings.Split(dump, "\n\n") {
		nl := strings.IndexByte(g, '\n')
		if nl < 0 {
			continue
		}
		head := g[:nl]
		if !strings.Contains(head, " minutes]") && !strings.Contains(head, " minute]") {
			continue
		}
		blocked := false
		for _, st := range []string{"[sync.", "[semacquire", "[chan receive", "[chan send", "[select"} {
			if strings.Contains(head, st) {
				blocked = true
			}
		}
		if !blocked {
			continue
		}
		for _, ln := range strings.Split(g[nl+1:], "\n") {
			if strings.HasPrefix(ln, "\t") || strings.HasPrefix(ln, "created by") {
				continue
			}
			if strings.HasPrefix(ln, "runtime.") || strings.HasPrefix(ln, "sync.") || strings.HasPrefix(ln, "internal/") || strings.HasPrefix(ln, "sync/") {
				continue
			}
			if strings.HasPrefix(ln, "github.com/theory/sqljson/") {
				if len(g) > 1800 {
					g = g[:1800]
				}
				return g
			}
			break
		}
	}
	return ""
}

func runC19(c *h.Ctx) {
	// calls that never return: see c19StuckInLibrary
	go func() {
		buf := make([]byte, 8<<20)
		for {
			time.Sleep(15 * time.Second)
			n := runtime.Stack(buf, true)
			if g := c19StuckInLibrary(string(buf[:n])); g != "" {
				c.Violate("concurrent-differs", h.F("kind", "never-returns"), "a call has been blocked inside the library for a minute or more while other calls were in flight:\n"+g, h.Case{Kind: "blocked"})
				_ = c.Finish("")
				panic("blocked call detected; shard result written")
			}
		}
	}()
	// shard parameters
	type cfg struct{ n, m, procs, yield int }
	cfgs := []cfg{{16, 1200, 16, 7}, {16, 1200, 4, 3}, {64, 400, 16, 0}, {2, 6000, 2, 5}, {16, 1000, 1, 2}, {32, 800, 8, 11},
		{16, 3000, 16, 7}, {64, 1500, 16, 3}, {2, 20000, 2, 5}, {16, 3000, 4, 0}, {64, 1000, 1, 2}, {32, 2000, 8, 13}}
	cf := cfgs[c.Shard%len(cfgs)]
	rounds := 4
	if c.Thorough() {
		cf = cfgs[6+c.Shard%6]
		rounds = 6
	}
	runtime.GOMAXPROCS(cf.procs)
	h.RecordStates = true

	docs := make([]any, len(c19Docs))
	for i, d := range c19Docs {
		docs[i] = h.Decode(d, i%2 == 0)
	}
	// numbers as json.Number (as a caller using Decoder.UseNumber passes them),
	// plus one float64 and one int64
	newVars := func() map[string]any {
		v := h.DecodeVars(c19Vars, true)
		v["vf"] = 2.5
		v["vi"] = int64(7)
		return v
	}
	varsFP := h.CanonTyped(newVars()) // of a map no call has seen
	vars := newVars()                 // baseline and sequential phases
	c19BaseVars = vars

	// Which pool paths expose member order? (computed from separately parsed copies)
	basePaths, exposed := parsePool()
	for i, p := range basePaths {
		exposed[i] = exposesOrder(gen.FromAST(p.AST))
	}
	// COLD START: the very first executions of this process are concurrent -
	// before any sequential call has run, so whatever the library sets up on
	// first use (per Path, per zone, per process) is set up under contention.
	// The results are judged against the baseline computed afterwards.
	var coldOps []c19Op
	{
		coldPaths, _ := parsePool()
		coldVars := newVars()
		c19Concurrent.Store(true)
		h.NoSharedAtomics = true
		var wg sync.WaitGroup
		start := make(chan struct{})
		per := make([][]c19Op, cf.n)
		for g := 0; g < cf.n; g++ {
			wg.Add(1)
			go func(g int) {
				defer wg.Done()
				<-start
				for k := 0; k < len(c19Pool)*3; k++ {
					pi := (k/3 + g%4) % len(c19Pool)
					in := c19Input{pi: pi, di: 0, entry: []string{"query", "exists", "match"}[k%3], silent: false, tz: true}
					per[g] = append(per[g], c19Op{client: g, in: in, out: c19Exec(coldPaths, docs, coldVars, in, exposed, cf.yield)})
				}
			}(g)
		}
		close(start)
		wg.Wait()
		c19Concurrent.Store(false)
		h.NoSharedAtomics = false
		for _, ops := range per {
			coldOps = append(coldOps, ops...)
		}
		if h.CanonTyped(coldVars) != varsFP {
			c.Violate("concurrent-differs", h.F("kind", "shared-input-modified", "phase", "cold-start"), "the shared variables map was modified", h.Case{Kind: "shared-input"})
		}
	}
	// Further cold starts: the first use of each of several zones whose offset is
	// not a whole number of hours (whatever is kept per zone or per offset is set
	// up under contention once more), on the datetime paths of the pool; each
	// judged against sequential calls in the same zone made afterwards.
	for _, zn := range []string{"Asia/Kathmandu", "America/St_Johns", "Australia/Eucla", "Pacific/Chatham", "Asia/Kabul", "Asia/Yangon", "Pacific/Marquesas"} {
		loc, err := time.LoadLocation(zn)
		if err != nil {
			continue
		}
		var dt []int
		for pi, t := range c19Pool {
			if strings.Contains(t, "time") || strings.Contains(t, "date") {
				dt = append(dt, pi)
			}
		}
		zPaths, _ := parsePool()
		zVars := newVars()
		c19ZoneOverride = loc
		c19Concurrent.Store(true)
		h.NoSharedAtomics = true
		var wg sync.WaitGroup
		start := make(chan struct{})
		per := make([][]c19Op, cf.n)
		for g := 0; g < cf.n; g++ {
			wg.Add(1)
			go func(g int) {
				defer wg.Done()
				<-start
				for k := 0; k < len(dt)*2; k++ {
					in := c19Input{pi: dt[(k/2+g%3)%len(dt)], di: []int{0, 7}[k%2], entry: []string{"query", "exists"}[(k/2)%2], tz: true}
					per[g] = append(per[g], c19Op{client: g, in: in, out: c19Exec(zPaths, docs, zVars, in, exposed, cf.yield)})
				}
			}(g)
		}
		close(start)
		wg.Wait()
		c19Concurrent.Store(false)
		h.NoSharedAtomics = false
		zb := map[string]string{}
		bad := 0
		for _, ops := range per {
			for _, op := range ops {
				want, ok := zb[op.in.key()]
				if !ok {
					want = c19Exec(basePaths, docs, vars, op.in, exposed, 0)
					zb[op.in.key()] = want
				}
				c.Eval(1)
				if want != op.out {
					bad++
					if bad <= 3 {
						c.Violate("concurrent-differs", h.F("entry", op.in.entry, "kind", "result", "phase", "cold-start-zone"), fmt.Sprintf("%s(%s) on doc %d among the first calls in zone %s, made concurrently, returned %q; run alone it returns %q", op.in.entry, c19Pool[op.in.pi], op.in.di, zn, op.out, want),
							h.Case{Kind: "concurrent", Path: c19Pool[op.in.pi], Doc: c19Docs[op.in.di], Entry: op.in.entry, TZ: true, Zone: zn, Vars: c19Vars})
					}
				} else {
					c.Held("concurrent-differs")
				}
			}
		}
		c19ZoneOverride = nil
	}
	// Isolated baseline on the separately parsed copies, sequentially.
	baseline := map[string]string{}
	var inputs []c19Input
	for pi := range c19Pool {
		for di := range docs {
			for _, e := range c19Entries {
				for _, silent := range []bool{false, true} {
					for _, tz := range []bool{false, true} {
						if e == "string" && (di > 0 || silent || tz) {
							continue
						}
						in := c19Input{pi, di, e, silent, tz}
						inputs = append(inputs, in)
						baseline[in.key()] = c19Exec(basePaths, docs, vars, in, exposed, 0)
						c.Eval(1)
						if strings.Contains(baseline[in.key()], "FAULT:") {
							c.Violate("concurrent-differs", h.F("kind", "hook-fault", "entry", e), fmt.Sprintf("%s(%s) on doc %d, run alone: %s", e, c19Pool[pi], di, baseline[in.key()]), h.Case{Kind: "concurrent", Path: c19Pool[pi], Doc: c19Docs[di], Entry: e, Silent: silent, TZ: tz, Vars: c19Vars})
						}
					}
				}
			}
		}
	}
	if h.CanonTyped(vars) != varsFP {
		c.Violate("concurrent-differs", h.F("kind", "shared-input-modified", "phase", "sequential"), "the variables map was modified by sequential calls: "+h.CanonTyped(vars)+" was "+varsFP, h.Case{Kind: "shared-input"})
	}
	for i, op := range coldOps {
		in := op.in
		// (the cold phase ran in the named zone: same offset, same results)
		if want, ok := baseline[in.key()]; ok && want != op.out {
			if i < 400 {
				c.Violate("concurrent-differs", h.F("entry", in.entry, "kind", "result", "phase", "cold-start"), fmt.Sprintf("%s(%s) on doc %d among the first concurrent calls of the process returned %q; run alone it returns %q", in.entry, c19Pool[in.pi], in.di, op.out, want),
					h.Case{Kind: "concurrent", Path: c19Pool[in.pi], Doc: c19Docs[in.di], Entry: in.entry, TZ: true, Vars: c19Vars})
			}
		} else {
			c.Held("concurrent-differs")
		}
	}
	c.Eval(len(coldOps))
	baseFP := make([]string, len(basePaths))
	for i, p := range basePaths {
		baseFP[i] = p.String() + " | " + gen.FromAST(p.AST).Sexp()
	}
	docFP := h.CanonTyped(docs)
	c.Count("pool.paths", int64(len(c19Pool)))
	c.Count("pool.inputs", int64(len(inputs)))

	var overlapPairs, overlapSamePath int64
	for round := 0; round < rounds; round++ {
		// FRESH copies, untouched until the barrier opens
		shared, _ := parsePool()
		// ... and a fresh variables map: the first uses of its members race too
		vars := newVars()
		c19Concurrent.Store(true)
		h.NoSharedAtomics = true
		var wg sync.WaitGroup
		start := make(chan struct{})
		t0 := time.Now()
		ops := make([][]c19Op, cf.n)
		var parseErrs atomic.Int64
		for g := 0; g < cf.n; g++ {
			wg.Add(1)
			go func(g int) {
				defer wg.Done()
				r := rand.New(rand.NewPCG(c.Seed*7919+uint64(c.Shard*131+round), uint64(g)))
				my := make([]c19Op, 0, cf.m)
				<-start
				for k := 0; k < cf.m; k++ {
					var in c19Input
					if k < cf.m/10 {
						// the same walk over the pool in every goroutine: first uses of each node coincide
						in = c19Input{pi: k % len(c19Pool), di: 0, entry: c19Entries[(k/len(c19Pool))%5], silent: false, tz: true}
					} else {
						in = inputs[r.IntN(len(inputs))]
					}
					if r.IntN(16) == 0 {
						// concurrent Parse of a pool text
						if _, err := path.Parse(c19Pool[r.IntN(len(c19Pool))]); err != nil {
							parseErrs.Add(1)
						}
					}
					op := c19Op{client: g, in: in, call: int64(time.Since(t0))}
					op.out = c19Exec(shared, docs, vars, in, exposed, cf.yield)
					op.ret = int64(time.Since(t0))
					my = append(my, op)
				}
				ops[g] = my
			}(g)
		}
		close(start)
		wg.Wait()
		if parseErrs.Load() > 0 {
			c.Violate("concurrent-differs", h.F("kind", "parse"), fmt.Sprintf("%d concurrent Parse calls of pool texts failed", parseErrs.Load()), h.Case{Kind: "concurrent-parse"})
		}
		c19Concurrent.Store(false)
		h.NoSharedAtomics = false
		// history check with porcupine: stateless model "output = isolated baseline of the input"
		var hist []porcupine.Operation
		for _, gops := range ops {
			for _, op := range gops {
				hist = append(hist, porcupine.Operation{ClientId: op.client, Input: op.in, Call: op.call, Output: op.out, Return: op.ret})
			}
		}
		model := porcupine.Model{
			// the model has no state, so every operation is its own partition
			// (P-compositionality): the search stays linear also when an
			// operation is illegal
			Partition: func(history []porcupine.Operation) [][]porcupine.Operation {
				parts := make([][]porcupine.Operation, len(history))
				for i := range history {
					parts[i] = history[i : i+1]
				}
				return parts
			},
			Init: func() any { return 0 },
			Step: func(st, in, out any) (bool, any) {
				return baseline[in.(c19Input).key()] == out.(string), st
			},
			DescribeOperation: func(in, out any) string { return fmt.Sprintf("%v -> %v", in, out) },
		}
		res, _ := porcupine.CheckOperationsVerbose(model, hist, 5*time.Minute)
		c.Eval(len(hist))
		switch res {
		case porcupine.Ok:
			for range hist {
				c.Held("concurrent-differs")
			}
		default:
			if res == porcupine.Unknown {
				c.Count("porcupine.timeout", 1) // decided operation by operation below
			}
			// find the offending operations (the model is stateless: per-operation)
			n := 0
			for _, gops := range ops {
				for _, op := range gops {
					if baseline[op.in.key()] != op.out {
						n++
						if n <= 5 {
							in := op.in
							c.Violate("concurrent-differs", h.F("entry", in.entry, "kind", "result"), fmt.Sprintf("concurrent %s(%s) on doc %d (silent=%v tz=%v) returned %q; run alone it returns %q", in.entry, c19Pool[in.pi], in.di, in.silent, in.tz, op.out, baseline[in.key()]),
								h.Case{Kind: "concurrent", Path: c19Pool[in.pi], Doc: c19Docs[in.di], Entry: in.entry, Silent: in.silent, TZ: in.tz, Vars: c19Vars})
						}
					} else {
						c.Held("concurrent-differs")
					}
				}
			}
		}
		// overlap statistics: sweep over call/return events
		type ev struct {
			t     int64
			start bool
			pi    int
		}
		var evs []ev
		for _, op := range hist {
			in := op.Input.(c19Input)
			evs = append(evs, ev{op.Call, true, in.pi}, ev{op.Return, false, in.pi})
		}
		sort.Slice(evs, func(i, j int) bool { return evs[i].t < evs[j].t })
		open := 0
		openBy := map[int]int{}
		for _, e := range evs {
			if e.start {
				overlapPairs += int64(open)
				overlapSamePath += int64(openBy[e.pi])
				if openBy[e.pi] > 0 {
					c.Distinct("overlap", fmt.Sprint(e.pi, round, e.t))
				}
				open++
				openBy[e.pi]++
			} else {
				open--
				openBy[e.pi]--
			}
		}
		// AST fingerprints after the run equal those of the separately parsed copies
		for i, p := range shared {
			fp := p.String() + " | " + gen.FromAST(p.AST).Sexp()
			if fp != baseFP[i] {
				c.Violate("ast-changed", h.F("kind", "fingerprint"), fmt.Sprintf("AST of %q after the concurrent workload: %s; freshly parsed: %s", c19Pool[i], fp, baseFP[i]), h.Case{Kind: "ast", Path: c19Pool[i]})
			} else {
				c.Held("ast-changed")
			}
		}
		if h.CanonTyped(docs) != docFP || h.CanonTyped(vars) != varsFP {
			c.Violate("concurrent-differs", h.F("kind", "shared-input-modified"), "a shared document or the shared variables map was modified", h.Case{Kind: "shared-input"})
		}
	}
	c19Overlap(c, cf.n, rounds)
	c19RejectedParses(c, cf.n)
	c19EditedDocuments(c)
	c19CancelledFromOutside(c)
	c19HugeArrays(c)
	c19Rescanned(c)
	c19GeneratedIDs(c)
	c19ZoneNames(c)
	c.Count("overlap.operation-pairs", overlapPairs)
	c.Count("overlap.same-path-pairs", overlapSamePath)
	c.Count("max:goroutines", int64(cf.n))
	c.Count(fmt.Sprintf("config.n%d.m%d.procs%d.yield%d", cf.n, cf.m, cf.procs, cf.yield), 1)
	c.Sample("config", map[string]any{"goroutines": cf.n, "calls-per-goroutine": cf.m, "GOMAXPROCS": cf.procs, "yield-every-steps": cf.yield, "rounds": rounds})
	c.Sample("operation", map[string]any{"path": c19Pool[21], "doc#": 0, "entry": "query", "baseline": baseline[c19Input{21, 0, "query", false, false}.key()]})

	// results stay what they were: hold the items returned by one call, run other
	// queries over the same documents, then look at the held items again
	{
		freshH, _ := parsePool()
		type held struct {
			in    c19Input
			items []any
			fp    string
		}
		var hs []held
		for pi := range c19Pool {
			for _, di := range []int{0, 7} {
				o := h.Call("query", freshH[pi], docs[di], h.Opts{Vars: vars, TZ: true, Zone: c19Zone})
				c.Eval(1)
				if o.Class == h.OK && len(o.Items) > 0 {
					hs = append(hs, held{c19Input{pi, di, "query", false, true}, o.Items, h.CanonList(o.Items)})
				}
			}
		}
		for pi := range c19Pool {
			for _, di := range []int{0, 7} {
				h.Call("query", freshH[pi], docs[di], h.Opts{Vars: vars, TZ: true, Zone: c19Zone})
				c.Eval(1)
			}
		}
		for _, hd := range hs {
			if h.CanonList(hd.items) != hd.fp {
				c.Violate("repeat-differs", h.F("kind", "held-result-changed"), fmt.Sprintf("items returned by Query(%s) changed after later queries ran: were %s, now %s", c19Pool[hd.in.pi], hd.fp, h.CanonList(hd.items)),
					h.Case{Kind: "held-result", Path: c19Pool[hd.in.pi], Doc: c19Docs[hd.in.di], Vars: c19Vars})
			} else {
				c.Held("repeat-differs")
			}
		}
		if h.CanonTyped(docs) != docFP {
			c.Violate("concurrent-differs", h.F("kind", "shared-input-modified"), "a shared document was modified by sequential queries", h.Case{Kind: "shared-input"})
		}
	}
	// result lists belong to their callers: appending to one (an empty one,
	// too) must not show through another
	{
		var empties [][]any
		for pi := range c19Pool {
			if len(empties) >= 8 {
				break
			}
			o := h.Call("query", fresh0(pi), docs[1], h.Opts{Vars: vars})
			if o.Class == h.OK && len(o.Items) == 0 && o.Items != nil {
				empties = append(empties, o.Items)
			}
		}
		for i := range empties {
			empties[i] = append(empties[i], fmt.Sprintf("caller %d", i))
		}
		bad := ""
		for i := range empties {
			if empties[i][0] != fmt.Sprintf("caller %d", i) {
				bad = fmt.Sprintf("after %d callers each appended one item to the empty result Query gave them, caller %d reads %v", len(empties), i, empties[i][0])
				break
			}
		}
		if bad != "" {
			c.Violate("repeat-differs", h.F("kind", "results-share-storage"), bad, h.Case{Kind: "result-aliasing"})
		} else if len(empties) >= 2 {
			c.Held("repeat-differs")
		}
	}
	// two callers that parsed the same text hold independent Paths: using one
	// of them as a Scan / Unmarshal destination must not reach the other, nor
	// what Parse returns for that text afterwards
	for pi, txt := range c19Pool {
		p1, e1, _ := h.ParseSafe(txt)
		p2, e2, _ := h.ParseSafe(txt)
		if e1 != nil || e2 != nil || p1 == nil || p2 == nil {
			continue
		}
		before := p2.String()
		ob := h.Call("query", p2, docs[0], h.Opts{Vars: vars, TZ: true, Zone: c19Zone})
		var serr error
		switch pi % 3 {
		case 0:
			serr = p1.Scan(`strict $.some.other."path" ? (@ > 1)`)
		case 1:
			serr = p1.UnmarshalText([]byte(`$.rebound[*]`))
		default:
			serr = p1.UnmarshalBinary([]byte(`"rebound" == $.x`))
		}
		oa := h.Call("query", p2, docs[0], h.Opts{Vars: vars, TZ: true, Zone: c19Zone})
		p3, e3, _ := h.ParseSafe(txt)
		c.Eval(2)
		switch {
		case serr != nil:
			c.Note("rebinding a Path failed: " + serr.Error())
		case p2.String() != before || oa.Class != ob.Class || (!exposed[pi] && h.CanonList(oa.Items) != h.CanonList(ob.Items)):
			c.Violate("history-dependent", h.F("kind", "paths-share-state"), fmt.Sprintf("after another Path parsed from the same text %q was rebound by Scan/Unmarshal, this one prints %q and Query returns %s (before: %s)", txt, p2.String(), oa.Summary(), ob.Summary()), h.Case{Kind: "alias", Path: txt})
		case e3 != nil || p3 == nil || p3.String() != before:
			c.Violate("history-dependent", h.F("kind", "parse-returns-rebound-path"), fmt.Sprintf("Parse(%q) returns a path printing %q after an earlier result for that text was rebound", txt, safeString(p3)), h.Case{Kind: "alias", Path: txt})
		default:
			c.Held("history-dependent")
		}
	}
	// sequential order-independence: each path after 0..K other calls on the same *Path
	r := c.Rand("c19-seq")
	fresh, _ := parsePool()
	for pi := range c19Pool {
		for _, k := range []int{0, 1, 3, 10} {
			for j := 0; j < k; j++ {
				in := inputs[r.IntN(len(inputs))]
				in.pi = pi
				if r.IntN(4) == 0 {
					// a cancelled call on the same path
					m := &h.CallMon{CancelAt: 1 + r.IntN(3), Cause: context.Canceled}
					h.CallMonitored("query", fresh[pi], docs[in.di], h.Opts{Vars: vars}, m)
				} else {
					c19Exec(fresh, docs, vars, in, exposed, 0)
				}
				c.Eval(1)
			}
			for _, probe := range []c19Input{{pi, 0, "query", false, true}, {pi, 7, "query", true, false}, {pi, 0, "exists", false, false}, {pi, 0, "string", false, false}} {
				got := c19Exec(fresh, docs, vars, probe, exposed, 0)
				again := c19Exec(fresh, docs, vars, probe, exposed, 0)
				c.Eval(2)
				cs := h.Case{Kind: "sequential", Path: c19Pool[pi], Doc: c19Docs[probe.di], Entry: probe.entry, Silent: probe.silent, TZ: probe.tz, Vars: c19Vars}
				if got != baseline[probe.key()] {
					c.Violate("history-dependent", h.F("entry", probe.entry), fmt.Sprintf("%s(%s) after %d other calls on the same Path returned %q; on a fresh Path %q", probe.entry, c19Pool[pi], k, got, baseline[probe.key()]), cs)
				} else {
					c.Held("history-dependent")
				}
				if got != again {
					c.Violate("repeat-differs", h.F("entry", probe.entry), fmt.Sprintf("%s(%s) repeated returned %q then %q", probe.entry, c19Pool[pi], got, again), cs)
				} else {
					c.Held("repeat-differs")
				}
			}
		}
	}
}
