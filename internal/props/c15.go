package props

import (
	"context"
	"encoding/json"
	"fmt"
	"sort"
	"strings"

	"verif/internal/gen"
	"verif/internal/h"
	"verif/internal/model"
)

func init() {
	register(&Prop{
		ID:    "C15",
		Level: "exploration",
		Rule: "exhaustive small scope: all JSON trees with at most 6 nodes (quick: 5) over leaves {1, \"s\", null, [], {}} and keys a, b, x level bounds {0..4, last} as single levels and as 'a to b' ranges (ascending and descending), bare and followed by .a / .* / [*] in strict mode, and .* / [*] / bare .** in lax mode; random trees up to 40 nodes. " +
			"Oracle: an explicit depth-counting tree walk written in the harness (object members form an unordered group). Non-trivial: the document is a container; distinct by (tree, path)",
		Run:          runC15,
		Replay:       replayC15,
		MinExercised: map[string]int64{"anykey": 500, "anyarray": 500, "anylevel": 20000, "anylevel.last": 2000, "equiv.unbounded": 500, "anylevel.chain": 5000, "anylevel.aliased": 2000, "equiv.kfold": 2000, "strict.skip": 5000, "exists": 5000, "wild.chain": 5000, "preorder.exists": 3000},
		Assumptions:  []string{"object member order is open: results are compared as sequences in which the members of one object may appear in any order (all orders enumerated for objects of <= 3 members)"},
	})
}

// wnode is a walk result: a value at a depth.
type wnode struct {
	v     any
	depth int
}

// walkOrders returns every pre-order listing (value, depth) of the nodes
// strictly below v, for every order of object members. cap bounds the number
// of listings (nil if exceeded).
func walkOrders(v any, depth int, cap int) [][]wnode {
	var kids []any
	var keys []string
	switch c := v.(type) {
	case []any:
		kids = c
	case map[string]any:
		keys = h.SortedKeys(c)
		for _, k := range keys {
			kids = append(kids, c[k])
		}
	default:
		return [][]wnode{{}}
	}
	// listing of each child subtree (child itself first)
	sub := make([][][]wnode, len(kids))
	for i, k := range kids {
		below := walkOrders(k, depth+1, cap)
		if below == nil {
			return nil
		}
		for _, b := range below {
			sub[i] = append(sub[i], append([]wnode{{k, depth + 1}}, b...))
		}
	}
	perms := [][]int{identity(len(kids))}
	if keys != nil && len(kids) > 1 {
		perms = permutations(len(kids))
	}
	var out [][]wnode
	for _, perm := range perms {
		// cartesian product over children's alternatives
		acc := [][]wnode{{}}
		for _, ci := range perm {
			var next [][]wnode
			for _, a := range acc {
				for _, s := range sub[ci] {
					next = append(next, append(append([]wnode{}, a...), s...))
					if len(next) > cap {
						return nil
					}
				}
			}
			acc = next
		}
		out = append(out, acc...)
		if len(out) > cap {
			return nil
		}
	}
	return out
}

func identity(n int) []int {
	p := make([]int, n)
	for i := range p {
		p[i] = i
	}
	return p
}

func permutations(n int) [][]int {
	var out [][]int
	var rec func(cur []int, used []bool)
	rec = func(cur []int, used []bool) {
		if len(cur) == n {
			out = append(out, append([]int(nil), cur...))
			return
		}
		for i := 0; i < n; i++ {
			if !used[i] {
				used[i] = true
				rec(append(cur, i), used)
				used[i] = false
			}
		}
	}
	rec(nil, make([]bool, n))
	return out
}

func isContainer(v any) bool {
	switch v.(type) {
	case []any, map[string]any:
		return true
	}
	return false
}

// selectLevels filters a listing by depth bounds; last<0 = unbounded;
// leavesOnly: the {last} form.
func selectLevels(root any, listing []wnode, first, last int, leavesOnly bool) []any {
	var out []any
	if !leavesOnly && first == 0 {
		out = append(out, root)
	}
	for _, w := range listing {
		if leavesOnly {
			if !isContainer(w.v) {
				out = append(out, w.v)
			}
			continue
		}
		if w.depth >= first && (last < 0 || w.depth <= last) && w.depth >= 1 {
			out = append(out, w.v)
		}
	}
	return out
}

func canonItems(items []any) string {
	parts := make([]string, len(items))
	for i, it := range items {
		parts[i] = h.Canon(it)
	}
	return strings.Join(parts, " | ")
}

type anySpec struct {
	text        string
	first, last int
	leaves      bool
}

func anySpecs() []anySpec {
	specs := []anySpec{{".**", 0, -1, false}, {".**{last}", 0, 0, true}}
	for a := 0; a <= 4; a++ {
		specs = append(specs, anySpec{fmt.Sprintf(".**{%d}", a), a, a, false})
		specs = append(specs, anySpec{fmt.Sprintf(".**{%d to last}", a), a, -1, false})
		for b := 0; b <= 4; b++ {
			// (b < a: an empty depth interval selects nothing)
			specs = append(specs, anySpec{fmt.Sprintf(".**{%d to %d}", a, b), a, b, false})
		}
		// (from the deepest level up to level a: no level is at least "last" and at most a)
		specs = append(specs, anySpec{fmt.Sprintf(".**{last to %d}", a), 1 << 30, a, false})
	}
	return specs
}

// applySuffix applies a following strict-mode accessor to the selected nodes
// (below .** members/arrays that do not apply are skipped).
func applySuffix(items []any, suffix string) (out [][]any) {
	// returns alternatives because .* expands object members in any order
	alts := [][]any{{}}
	for _, it := range items {
		var choices [][]any
		switch suffix {
		case "":
			choices = [][]any{{it}}
		case ".a":
			if m, ok := it.(map[string]any); ok {
				if v, ok := m["a"]; ok {
					choices = [][]any{{v}}
				}
			}
			if choices == nil {
				choices = [][]any{{}}
			}
		case ".*":
			if m, ok := it.(map[string]any); ok {
				ks := h.SortedKeys(m)
				for _, perm := range permutations(len(ks)) {
					var c []any
					for _, i := range perm {
						c = append(c, m[ks[i]])
					}
					choices = append(choices, c)
				}
				if len(ks) == 0 {
					choices = [][]any{{}}
				}
			} else {
				choices = [][]any{{}}
			}
		case "[*]":
			if a, ok := it.([]any); ok {
				choices = [][]any{a}
			} else {
				choices = [][]any{{}}
			}
		}
		var next [][]any
		for _, a := range alts {
			for _, ch := range choices {
				next = append(next, append(append([]any{}, a...), ch...))
				if len(next) > 400 {
					return nil
				}
			}
		}
		alts = next
	}
	return alts
}

func checkAny(c *h.Ctx, docText string, doc any, listings [][]wnode, spec anySpec, lax bool, suffix string) {
	ptxt := "$" + spec.text + suffix
	if !lax {
		ptxt = "strict " + ptxt
	}
	p := cachedPath(ptxt)
	if p == nil {
		c.Count("gen.unparsable", 1)
		return
	}
	// (every other time the arrays of the document are cut out of one backing
	// array with spare capacity, as a caller may have built them)
	docv := h.Decode(docText, c15UseNum)
	if c15Seq%2 == 1 {
		docv = h.SpareCap(docv)
	}
	before := h.CanonTyped(docv)
	o := h.Call("query", p, docv, h.Opts{})
	c.Eval(1)
	if isContainer(doc) {
		c.Distinct(docText, ptxt)
	}
	cs := h.Case{Kind: "any", Path: ptxt, Doc: docText, UseNum: c15UseNum}
	if o.Class == h.OK {
		// the walk leaves the document as it was, and what it returned stays
		// what it was when the same document is walked again
		kept := h.CanonListTyped(o.Items)
		o2 := h.Call("query", p, docv, h.Opts{})
		c.Eval(1)
		switch {
		case h.CanonTyped(docv) != before:
			c.Violate("aliasing", h.F("mode", modeName(lax), "kind", "document-changed"), fmt.Sprintf("Query(%s) changed the document: %s -> %s", ptxt, before, h.CanonTyped(docv)), cs)
		case h.CanonListTyped(o.Items) != kept:
			c.Violate("aliasing", h.F("mode", modeName(lax), "kind", "earlier-result-changed"), fmt.Sprintf("the items returned by Query(%s) on %s were %s; after a second Query on the same document they read %s", ptxt, docText, kept, h.CanonListTyped(o.Items)), cs)
		case o2.Class == h.OK && !hasMultiMemberObject(docv) && h.CanonListTyped(o2.Items) != kept:
			c.Violate("aliasing", h.F("mode", modeName(lax), "kind", "second-walk-differs"), fmt.Sprintf("Query(%s) on %s returned %s, and then %s", ptxt, docText, kept, h.CanonListTyped(o2.Items)), cs)
		default:
			c.Held("aliasing")
		}
	}
	clause := "anylevel"
	if spec.leaves {
		clause = "anylevel.last"
	}
	if suffix != "" {
		clause = "strict.skip"
	}
	if o.Class == h.Panic || o.Class == h.Invalid {
		c.Skip(clause, "panic-or-invalid-is-C05")
		return
	}
	if o.Class != h.OK {
		c.Violate(clause, h.F("mode", modeName(lax), "got", o.Class, "suffix", suffix), fmt.Sprintf("Query(%s) on %s = %s; recursive descent (and member accessors below it) never fail", ptxt, docText, o.Summary()), cs)
		return
	}
	got := canonItems(o.Items)
	// a traversal that is interrupted (the context becomes done between two of
	// the executor's polls) either fails or has visited every node: a result
	// with a nil error is the complete one
	c15Seq++
	if len(o.Items) > 1 && c15Seq%3 == 0 {
		want := sortedCanon(o.Items)
		for n := 1; n <= min(o.Polls, 5); n++ {
			m := &h.CallMon{CancelAt: -1, CancelAfterPoll: n, Cause: context.Canceled}
			oi := h.CallMonitored("query", p, h.Decode(docText, c15UseNum), h.Opts{}, m)
			c.Eval(1)
			if oi.Class == h.OK && oi.Err == nil && sortedCanon(oi.Items) != want {
				ics := cs
				ics.Extra = map[string]string{"context-done-after-poll": fmt.Sprint(n)}
				c.Violate("interrupted", h.F("mode", modeName(lax)), fmt.Sprintf("Query(%s) on %s, with a context that became done after the executor's poll %d of %d, returned [%s] and a nil error; every node is [%s]", ptxt, docText, n, o.Polls, canonItems(oi.Items), got), ics)
				break
			}
			c.Held("interrupted")
		}
	}
	// the result-less traversal (Exists) agrees with the collecting one
	if suffix == "" {
		oe := h.Call("exists", p, h.Decode(docText, c15UseNum), h.Opts{})
		c.Eval(1)
		if oe.Class != h.OK || oe.Bool != (len(o.Items) > 0) {
			c.Violate("exists", h.F("mode", modeName(lax), "form", "bare"), fmt.Sprintf("Query(%s) on %s returns %d items but Exists = %s", ptxt, docText, len(o.Items), oe.Summary()), cs)
		} else {
			c.Held("exists")
		}
		// ... and exists() inside a filter on the item, in either mode: true
		// exactly if the descent selects something - also when its only match
		// is the item itself (level 0) or the node visited last is not one
		if pq := cachedPath(map[bool]string{true: "", false: "strict "}[lax] + `$ ? (exists(@.w` + spec.text + `))`); pq != nil {
			wrapped := map[string]any{"w": h.Decode(docText, c15UseNum)}
			oq := h.Call("query", pq, wrapped, h.Opts{})
			c.Eval(1)
			if oq.Class != h.OK || (len(oq.Items) == 1) != (len(o.Items) > 0) {
				c.Violate("exists", h.F("mode", modeName(lax), "form", "in-filter"), fmt.Sprintf("Query(%s) on %s returns %d items but $ ? (exists(@.w%s)) on {\"w\": doc} = %s", ptxt, docText, len(o.Items), spec.text, oq.Summary()), cs)
			} else {
				c.Held("exists")
			}
		}
		// ... also for the last node the walk selects, behind a filter and inside exists()
		if len(o.Items) > 0 && lax {
			lastItem := o.Items[len(o.Items)-1]
			if sc, ok := scalarLit(lastItem); ok {
				// the traversal as an operand: every node it selects takes part
				// in the comparison, whichever entry point asks - the one that
				// wants a single item included
				if pw := cachedPath(`$ ? (@.w` + spec.text + ` == ` + sc + `)`); pw != nil {
					wrapped := map[string]any{"w": h.Decode(docText, c15UseNum)}
					for _, entry := range []string{"first", "query", "exists"} {
						ow := h.Call(entry, pw, wrapped, h.Opts{})
						c.Eval(1)
						found := ow.Class == h.OK && (entry == "first" && ow.Val != nil || entry == "query" && len(ow.Items) == 1 || entry == "exists" && ow.Bool)
						if ow.Class != h.Panic && !found {
							c.Violate("exists", h.F("mode", modeName(lax), "form", "operand", "entry", entry), fmt.Sprintf("%s selects %s on %s (its last node), but %s($ ? (@.w%s == %s)) on {\"w\": doc} = %s", ptxt, sc, docText, entry, spec.text, sc, ow.Summary()), cs)
						} else {
							c.Held("exists")
						}
					}
				}
				ftxt := ptxt + " ? (@ == " + sc + ")"
				if pf := cachedPath(ftxt); pf != nil {
					of := h.Call("exists", pf, h.Decode(docText, c15UseNum), h.Opts{})
					op := h.Call("query", cachedPath(`"item" ? (exists($`+spec.text+" ? (@ == "+sc+")))"), h.Decode(docText, c15UseNum), h.Opts{})
					c.Eval(2)
					if of.Class != h.OK || !of.Bool || op.Class != h.OK || len(op.Items) != 1 {
						c.Violate("exists", h.F("mode", modeName(lax), "form", "filter"), fmt.Sprintf("%s selects %s on %s, but Exists(%s) = %s and \"item\" ? (exists($%s ? (@ == %s))) = %s", ptxt, sc, docText, ftxt, of.Summary(), spec.text, sc, op.Summary()), cs)
					} else {
						c.Held("exists")
					}
				}
			}
		}
	}
	if listings == nil {
		// too many member orders: compare as multisets
		c.Skip(clause, "member-order-cap")
		return
	}
	var firstWant string
	for _, l := range listings {
		sel := selectLevels(doc, l, spec.first, spec.last, spec.leaves)
		alts := [][]any{sel}
		if suffix != "" {
			alts = applySuffix(sel, suffix)
			if alts == nil {
				c.Skip(clause, "member-order-cap")
				return
			}
		}
		for _, a := range alts {
			w := canonItems(a)
			if firstWant == "" {
				firstWant = w
			}
			if w == got {
				c.Held(clause)
				if c.WantSample(clause) {
					c.Sample(clause, map[string]any{"path": ptxt, "doc": docText, "result": "[" + got + "]"})
				}
				return
			}
		}
	}
	// classify count/dup problems
	kind := "wrong-nodes"
	gs := strings.Split(got, " | ")
	ws := strings.Split(firstWant, " | ")
	sort.Strings(gs)
	sort.Strings(ws)
	if strings.Join(gs, "|") == strings.Join(ws, "|") {
		kind = "wrong-order"
	}
	c.Violate(clause, h.F("mode", modeName(lax), "kind", kind, "suffix", suffix), fmt.Sprintf("Query(%s) on %s = [%s]; the tree walk gives [%s] (members of one object in any order)", ptxt, docText, got, firstWant), cs)
}

var c15Seq int

func sortedCanon(items []any) string {
	parts := make([]string, len(items))
	for i, it := range items {
		parts[i] = h.CanonTyped(it)
	}
	sort.Strings(parts)
	return strings.Join(parts, " | ")
}

func checkTree(c *h.Ctx, docText string, specs []anySpec, full bool) {
	doc := h.Decode(docText, c15UseNum)
	listings := walkOrders(doc, 0, 300)
	for _, lax := range []bool{true, false} {
		// .* and [*]
		for _, acc := range []string{".*", "[*]"} {
			ptxt := "$" + acc
			if !lax {
				ptxt = "strict " + ptxt
			}
			p := cachedPath(ptxt)
			o := h.Call("query", p, h.Decode(docText, c15UseNum), h.Opts{})
			c.Eval(1)
			clause := "anykey"
			if acc == "[*]" {
				clause = "anyarray"
			}
			cs := h.Case{Kind: "wild", Path: ptxt, Doc: docText, UseNum: c15UseNum}
			var wants []string
			wantErr := false
			switch d := doc.(type) {
			case map[string]any:
				if acc == ".*" {
					ks := h.SortedKeys(d)
					for _, perm := range permutations(len(ks)) {
						var it []any
						for _, i := range perm {
							it = append(it, d[ks[i]])
						}
						wants = append(wants, canonItems(it))
					}
					if len(ks) == 0 {
						wants = []string{""}
					}
				} else if lax {
					wants = []string{canonItems([]any{doc})} // [*] on a non-array: the item itself
				} else {
					wantErr = true
				}
			case []any:
				if acc == "[*]" {
					wants = []string{canonItems(d)}
				} else if lax {
					// .* on an array: unwrap one level, then members of each object element
					alts := applySuffix(d, ".*")
					for _, a := range alts {
						wants = append(wants, canonItems(a))
					}
				} else {
					wantErr = true
				}
			default:
				if acc == "[*]" && lax {
					wants = []string{canonItems([]any{doc})}
				} else if lax {
					wants = []string{""}
				} else {
					wantErr = true
				}
			}
			if o.Class == h.Panic || o.Class == h.Invalid {
				c.Skip(clause, "panic-or-invalid-is-C05")
				continue
			}
			good := false
			if wantErr {
				good = o.Class == h.Soft
			} else if o.Class == h.OK {
				g := canonItems(o.Items)
				for _, w := range wants {
					if w == g {
						good = true
					}
				}
			}
			if !good {
				c.Violate(clause, h.F("mode", modeName(lax)), fmt.Sprintf("Query(%s) on %s = %s; expected one of %v (error expected: %v)", ptxt, docText, o.Summary(), wants, wantErr), cs)
			} else {
				c.Held(clause)
			}
		}
		for _, spec := range specs {
			checkAny(c, docText, doc, listings, spec, lax, "")
			if !lax {
				for _, suf := range []string{".a", ".*", "[*]"} {
					if suf == "[*]" {
						// [*] below .** in strict mode: non-arrays are skipped (structural flag forced)
						checkAny(c, docText, doc, listings, spec, lax, suf)
						continue
					}
					checkAny(c, docText, doc, listings, spec, lax, suf)
				}
			}
		}
		// the descent applied to each element of an array (scalars among them)
		// is the descent of each element; and a step that fails on one node
		// (silently) ends the walk there - the nodes after it are not visited
		if arr, ok := doc.([]any); ok && len(arr) > 0 && listings != nil {
			for si, spec := range specs {
				if si%2 != 1 {
					continue
				}
				for _, suf := range []string{"", ".a", ".*", "[*]"} {
					if lax && suf != "" {
						continue
					}
					ptxt := map[bool]string{true: "", false: "strict "}[lax] + "$[*]" + spec.text + suf
					one := cachedPath(map[bool]string{true: "", false: "strict "}[lax] + "$" + spec.text + suf)
					p := cachedPath(ptxt)
					if p == nil || one == nil || hasMultiMemberObject(doc) {
						continue
					}
					o := h.Call("query", p, h.Decode(docText, c15UseNum), h.Opts{})
					var want []any
					okAll := true
					for _, el := range h.Decode(docText, c15UseNum).([]any) {
						oe := h.Call("query", one, el, h.Opts{})
						c.Eval(1)
						if oe.Class != h.OK {
							okAll = false
							break
						}
						want = append(want, oe.Items...)
					}
					c.Eval(1)
					if !okAll || o.Class == h.Panic {
						continue
					}
					if o.Class != h.OK || h.CanonListTyped(o.Items) != h.CanonListTyped(want) {
						c.Violate("anylevel.chain", h.F("mode", modeName(lax), "kind", "per-element"), fmt.Sprintf("Query(%s) on %s = %s; the same descent applied to each element gives %s", ptxt, docText, o.Summary(), h.CanonListTyped(want)), h.Case{Kind: "any", Path: ptxt, Doc: docText, UseNum: c15UseNum})
					} else {
						c.Held("anylevel.chain")
					}
				}
			}
		}
		// lax mode: an array accessor after the descent wraps every scalar (and
		// object) node it meets - node by node
		if lax && listings != nil && !hasMultiMemberObject(doc) {
			for si, spec := range specs {
				if si%2 != 0 {
					continue
				}
				for _, acc := range []string{"[0]", "[last]", "[*]", "[0 to last]", "[0,0]", ".a", "[1]"} {
					p, one := cachedPath("$"+spec.text+acc), cachedPath("$"+acc)
					if p == nil || one == nil {
						continue
					}
					o := h.Call("query", p, h.Decode(docText, c15UseNum), h.Opts{})
					c.Eval(1)
					if o.Class != h.OK {
						continue
					}
					var want []any
					ok := true
					for _, x := range selectLevels(doc, listings[0], spec.first, spec.last, spec.leaves) {
						ox := h.Call("query", one, x, h.Opts{})
						c.Eval(1)
						if ox.Class != h.OK {
							ok = false
							break
						}
						want = append(want, ox.Items...)
					}
					if !ok {
						continue
					}
					if h.CanonList(o.Items) != h.CanonList(want) {
						c.Violate("anylevel", h.F("mode", "lax", "kind", "array-accessor-after"), fmt.Sprintf("Query($%s%s) on %s = %s; node by node: %s", spec.text, acc, docText, o.Summary(), h.CanonList(want)), h.Case{Kind: "any", Path: "$" + spec.text + acc, Doc: docText, UseNum: c15UseNum})
					} else {
						c.Held("anylevel")
					}
				}
			}
		}
		if lax && listings != nil && !hasMultiMemberObject(doc) {
			for si, spec := range specs {
				if si%3 != 2 {
					continue
				}
				ptxt := "$" + spec.text + ".double()"
				p, one := cachedPath(ptxt), cachedPath("$.double()")
				if p == nil || one == nil {
					continue
				}
				os := h.Call("query", p, h.Decode(docText, c15UseNum), h.Opts{Silent: true})
				c.Eval(1)
				if os.Class != h.OK {
					continue
				}
				var want []any
				for _, x := range selectLevels(doc, listings[0], spec.first, spec.last, spec.leaves) {
					ox := h.Call("query", one, x, h.Opts{})
					c.Eval(1)
					if ox.Class != h.OK {
						// the walk ends at the first node the step fails on (with
						// what the step had produced from that node before failing)
						if oxs := h.Call("query", one, x, h.Opts{Silent: true}); oxs.Class == h.OK {
							want = append(want, oxs.Items...)
						}
						break
					}
					want = append(want, ox.Items...)
				}
				if h.CanonList(os.Items) != h.CanonList(want) {
					c.Violate("anylevel", h.F("mode", "lax", "kind", "silent-stop"), fmt.Sprintf("silent Query(%s) on %s = %s; node by node, up to the first node .double() fails on: %s", ptxt, docText, os.Summary(), h.CanonList(want)), h.Case{Kind: "any", Path: ptxt, Doc: docText, UseNum: c15UseNum, Silent: true})
				} else {
					c.Held("anylevel")
				}
			}
		}
		// strict mode: a filter after .** sees the same relaxation - a member
		// accessor inside its condition skips the nodes it does not apply to
		// (the comparison is then false, not unknown: visible under ! and is unknown)
		if !lax && listings != nil && len(listings) > 0 {
			for si, spec := range specs {
				if si%2 != 0 {
					continue
				}
				for fi, form := range []string{" ? (!(@.a == 1))", " ? ((@.a == 1) is unknown)", " ? (!(@.a == 1)).a", " ? (!(exists(@.a)))"} {
					ptxt := "strict $" + spec.text + form
					p := cachedPath(ptxt)
					if p == nil {
						continue
					}
					o := h.Call("query", p, h.Decode(docText, c15UseNum), h.Opts{})
					c.Eval(1)
					if o.Class == h.Panic || o.Class == h.Invalid {
						continue
					}
					matched, open := false, false
					var firstWant string
					for _, l := range listings {
						var want []any
						for _, x := range selectLevels(doc, l, spec.first, spec.last, spec.leaves) {
							cmp, has := model.False, false
							var av any
							if m, ok := x.(map[string]any); ok {
								if v, ok := m["a"]; ok {
									has, av = true, v
									var cerr error
									if cmp, cerr = model.Compare("==", v, int64(1)); cerr != nil {
										open = true // a number without a by-value verdict
									}
								}
							}
							keep := false
							switch fi {
							case 0, 2:
								keep = model.Not(cmp) == model.True
							case 1:
								keep = cmp == model.Unknown
							case 3:
								keep = !has
							}
							if keep && fi == 2 {
								if has {
									want = append(want, av)
								}
								continue
							}
							if keep {
								want = append(want, x)
							}
						}
						w := canonItems(want)
						if firstWant == "" {
							firstWant = w
						}
						if o.Class == h.OK && canonItems(o.Items) == w {
							matched = true
							break
						}
					}
					if open {
						c.Skip("strict.skip", "number-without-a-by-value-verdict")
					} else if !matched {
						c.Violate("strict.skip", h.F("mode", "strict", "kind", "filter-condition", "suffix", form), fmt.Sprintf("Query(%s) on %s = %s; below .** a member accessor in the condition skips what it does not apply to, so the filter keeps [%s]", ptxt, docText, o.Summary(), firstWant), h.Case{Kind: "any", Path: ptxt, Doc: docText, UseNum: c15UseNum})
					} else {
						c.Held("strict.skip")
					}
				}
			}
		}
		// strict mode: several member accessors after one .** all skip what they
		// do not apply to (the relaxation lasts for the whole rest of the chain)
		if !lax && listings != nil && len(listings) > 0 {
			for si, spec := range specs {
				if spec.leaves || si%3 != 0 {
					continue
				}
				sel := selectLevels(doc, listings[0], spec.first, spec.last, spec.leaves)
				for _, steps := range [][]string{{".*", ".*"}, {"[*]", ".a"}, {".*", "[*]"}, {".a", ".b"}, {"[*]", "[*]", ".a"}, {".*", ".a", ".*"}, {".a", "[*]", ".*"}} {
					ptxt := "strict $" + spec.text + strings.Join(steps, "")
					p := cachedPath(ptxt)
					if p == nil {
						continue
					}
					o := h.Call("query", p, h.Decode(docText, c15UseNum), h.Opts{})
					c.Eval(1)
					want := sel
					for _, st := range steps {
						var next []any
						for _, it := range want {
							switch st {
							case ".*":
								if m, ok := it.(map[string]any); ok {
									for _, k := range h.SortedKeys(m) {
										next = append(next, m[k])
									}
								}
							case "[*]":
								if a, ok := it.([]any); ok {
									next = append(next, a...)
								}
							default:
								if m, ok := it.(map[string]any); ok {
									if v, ok := m[st[1:]]; ok {
										next = append(next, v)
									}
								}
							}
						}
						want = next
					}
					cs := h.Case{Kind: "any", Path: ptxt, Doc: docText, UseNum: c15UseNum}
					if o.Class != h.OK || h.CanonBag(o.Items) != h.CanonBag(want) {
						c.Violate("strict.skip", h.F("mode", "strict", "kind", "chain-after-descent", "steps", fmt.Sprint(len(steps))), fmt.Sprintf("Query(%s) on %s = %s; skipping what each accessor does not apply to gives %s", ptxt, docText, o.Summary(), h.CanonBag(want)), cs)
					} else {
						c.Held("strict.skip")
					}
				}
			}
		}
		// equivalences on real executions
		if full {
			mode := ""
			if !lax {
				mode = "strict "
			}
			eq := func(clause, a, b string) {
				pa, pb := cachedPath(mode+a), cachedPath(mode+b)
				if pa == nil || pb == nil {
					return
				}
				oa := h.Call("query", pa, h.Decode(docText, c15UseNum), h.Opts{})
				ob := h.Call("query", pb, h.Decode(docText, c15UseNum), h.Opts{})
				c.Eval(2)
				if oa.Class != ob.Class || (oa.Class == h.OK && h.CanonBag(oa.Items) != h.CanonBag(ob.Items)) {
					// k-fold any-child on scalars errs in strict mode while .**{k} skips: compare only when both succeed
					if oa.Class == h.OK && ob.Class == h.OK {
						c.Violate(clause, h.F("mode", modeName(lax)), fmt.Sprintf("%s%s = %s but %s%s = %s on %s", mode, a, oa.Summary(), mode, b, ob.Summary(), docText), h.Case{Kind: "equiv", Path: mode + a, Doc: docText, UseNum: c15UseNum, Extra: map[string]string{"other": mode + b}})
					} else {
						c.Skip(clause, "one-side-errs")
					}
					return
				}
				c.Held(clause)
			}
			eq("equiv.unbounded", "$.**", "$.**{0 to last}")
			if lax {
				// in lax mode .* / [*] unwrap, so the k-fold form is built from the strict any-child only
			} else {
				// any child of x = members of an object or elements of an array: .**{1}
				eq("equiv.kfold", "$.**{2}", "$.**{1}.**{1}")
				eq("equiv.kfold", "$.**{3}", "$.**{1}.**{1}.**{1}")
				eq("equiv.kfold", "$.**{1 to 2}", "$.**{1}.**{0 to 1}")
			}
		}
	}
}

// c15UseNum: numbers of the document decoded as json.Number instead of float64.
var c15UseNum bool

// checkAnyChain: one recursive descent inside another. $ S1 S2 selects, as a
// multiset, what S2 selects from each node S1 selects (two executions of the
// real code per node; order is left out because members expand in any order).
func checkAnyChain(c *h.Ctx, docText string, s1, s2 string, lax bool) {
	mode := ""
	if !lax {
		mode = "strict "
	}
	pf, p1, p2 := cachedPath(mode+"$"+s1+s2), cachedPath(mode+"$"+s1), cachedPath(mode+"$"+s2)
	if pf == nil || p1 == nil || p2 == nil {
		c.Count("gen.unparsable", 1)
		return
	}
	doc := h.Decode(docText, c15UseNum)
	of := h.Call("query", pf, doc, h.Opts{})
	o1 := h.Call("query", p1, doc, h.Opts{})
	c.Eval(2)
	cs := h.Case{Kind: "chain", Path: mode + "$" + s1 + s2, Doc: docText, UseNum: c15UseNum, Extra: map[string]string{"s1": s1, "s2": s2}}
	if of.Class != h.OK || o1.Class != h.OK {
		if of.Class == h.Panic || o1.Class == h.Panic {
			c.Skip("anylevel.chain", "panic-is-C05")
			return
		}
		if o1.Class == h.Soft && of.Class == h.Soft {
			// a strict wildcard on the wrong kind of item fails with or without a continuation
			c.Held("anylevel.chain")
			return
		}
		c.Violate("anylevel.chain", h.F("mode", modeName(lax), "kind", "error"), fmt.Sprintf("Query(%s) = %s, Query(%s$%s) = %s on %s; recursive descent never fails", cs.Path, of.Summary(), mode, s1, o1.Summary(), docText), cs)
		return
	}
	var want []any
	for _, x := range o1.Items {
		o2 := h.Call("query", p2, x, h.Opts{})
		c.Eval(1)
		if o2.Class != h.OK {
			c.Skip("anylevel.chain", "inner-fails")
			return
		}
		want = append(want, o2.Items...)
	}
	if len(o1.Items) > 1 {
		c.Distinct("chain", docText, cs.Path)
	}
	if h.CanonBag(of.Items) != h.CanonBag(want) {
		c.Violate("anylevel.chain", h.F("mode", modeName(lax)), fmt.Sprintf("Query(%s) on %s = %s (%d items) but %s applied to each of the %d nodes of %s gives %d items %s", cs.Path, docText, h.CanonBag(of.Items), len(of.Items), s2, len(o1.Items), s1, len(want), h.CanonBag(want)), cs)
		return
	}
	// where no object has several members every execution walks in the same
	// order: then the sequence itself is that of the step-by-step evaluation
	if !hasMultiMemberObject(doc) && h.CanonListTyped(of.Items) != h.CanonListTyped(want) {
		c.Violate("anylevel.chain", h.F("mode", modeName(lax), "kind", "order"), fmt.Sprintf("Query(%s) on %s = %s but %s applied, in order, to each node of %s gives %s", cs.Path, docText, h.CanonListTyped(of.Items), s2, s1, h.CanonListTyped(want)), cs)
		return
	}
	c.Held("anylevel.chain")
}

// checkAliased: a document in which the same Go value occurs at several
// positions (a caller assembling a document from shared parts) is traversed
// like its deep copy: every occurrence is a node of its own.
func checkAliased(c *h.Ctx, docText string, lax bool) {
	v := h.Decode(docText, c15UseNum)
	if !isContainer(v) {
		return
	}
	var aliased any = []any{v, map[string]any{"k": v, "l": []any{v}}, v}
	b, err := json.Marshal(aliased)
	if err != nil {
		return
	}
	copyDoc := h.Decode(string(b), c15UseNum)
	mode := ""
	if !lax {
		mode = "strict "
	}
	for _, sp := range []string{".**", ".**{1 to 3}", ".**{2}", ".**{last}", ".**{3 to last}", ".**.*", ".** ? (@.type() == \"number\")", "[*].**{1}", ".**{2}.**{1}"} {
		p := cachedPath(mode + "$" + sp)
		if p == nil {
			continue
		}
		oa := h.Call("query", p, aliased, h.Opts{})
		oc := h.Call("query", p, copyDoc, h.Opts{})
		ea := h.Call("exists", p, aliased, h.Opts{})
		ec := h.Call("exists", p, copyDoc, h.Opts{})
		c.Eval(4)
		c.Distinct("alias", docText, mode+sp)
		cs := h.Case{Kind: "alias", Path: mode + "$" + sp, Doc: docText, UseNum: c15UseNum}
		same := oa.Class == oc.Class && (oa.Class != h.OK || h.CanonBag(oa.Items) == h.CanonBag(oc.Items)) && ea.Class == ec.Class && ea.Bool == ec.Bool
		if !same {
			c.Violate("anylevel.aliased", h.F("mode", modeName(lax)), fmt.Sprintf("Query(%s) on [v, {k: v, l: [v]}, v] with one shared v = %s: %d items %s; on its deep copy %d items %s (Exists: %s / %s)", cs.Path, docText, len(oa.Items), oa.Summary(), len(oc.Items), oc.Summary(), ea.Summary(), ec.Summary()), cs)
		} else {
			c.Held("anylevel.aliased")
		}
	}
}

var c15ChainSpecs = []string{".**", ".**{1}", ".**{2}", ".**{3}", ".**{1 to 2}", ".**{2 to 3}", ".**{2 to last}", ".**{last}", ".*", "[*]", ".**{0 to 1}"}

// checkPreorderExists: Exists over a recursive descent with a continuation
// against the node-by-node evaluation in document order.
func checkPreorderExists(c *h.Ctx, spec, cont, docText string, useNum bool) {
	pn, pc, pf := cachedPath("$"+spec), cachedPath("$"+cont), cachedPath("$"+spec+cont)
	if pn == nil || pc == nil || pf == nil {
		c.Count("gen.unparsable", 1)
		return
	}
	doc := h.Decode(docText, useNum)
	nodes := h.Call("query", pn, doc, h.Opts{})
	c.Eval(1)
	if nodes.Class != h.OK {
		return
	}
	want := "false"
	for _, x := range nodes.Items {
		ox := h.Call("exists", pc, x, h.Opts{})
		c.Eval(1)
		if ox.Class == h.Panic || ox.Class == h.Invalid {
			want = ""
			break
		}
		if ox.Class != h.OK {
			want = ox.Class + ": " + ox.ErrText()
			break
		}
		if ox.Bool {
			want = "true"
			break
		}
	}
	if want == "" {
		c.Skip("preorder.exists", "panic-or-invalid-is-C05")
		return
	}
	og := h.Call("exists", pf, doc, h.Opts{})
	c.Eval(1)
	got := og.Class + ": " + og.ErrText()
	if og.Class == h.OK {
		got = fmt.Sprint(og.Bool)
	}
	if og.Class == h.Panic {
		return
	}
	c.Distinct("preorder", spec, cont, docText)
	if got != want {
		c.Violate("preorder.exists", h.F("spec", spec), fmt.Sprintf("Exists($%s%s) on %s = %s; node by node in document order (nodes %s) the first to decide gives %s", spec, cont, docText, og.Summary(), h.CanonList(nodes.Items), want), h.Case{Kind: "preorder", Path: "$" + spec + cont, Doc: docText, UseNum: useNum, Entry: "exists", Extra: map[string]string{"spec": spec, "cont": cont}})
	} else {
		c.Held("preorder.exists")
	}
}

func replayC15(c *h.Ctx, cs h.Case) {
	c15UseNum = cs.UseNum
	if cs.Kind == "deep" {
		c.Note("replay: deep chains are rebuilt by the run itself: ./check C15 quick (deterministic section)")
		runC15(c)
		return
	}
	if cs.Kind == "preorder" {
		checkPreorderExists(c, cs.Extra["spec"], cs.Extra["cont"], cs.Doc, cs.UseNum)
		return
	}
	if cs.Kind == "exec" {
		if ec, err := CaseFrom(cs); err == nil {
			o := h.Call("query", ec.P, ec.DocValue(), ec.Opts())
			if verdict, feat, detail := modelVerdict(ec, o); verdict == "violated" {
				c.Violate("wild.chain", feat, detail, cs)
			} else {
				c.Note("replay: " + verdict + " " + o.Summary())
			}
		}
		return
	}
	if cs.Kind == "alias" {
		checkAliased(c, cs.Doc, !strings.HasPrefix(cs.Path, "strict "))
		return
	}
	if cs.Kind == "chain" {
		checkAnyChain(c, cs.Doc, cs.Extra["s1"], cs.Extra["s2"], !strings.HasPrefix(cs.Path, "strict "))
		return
	}
	checkTree(c, cs.Doc, anySpecs(), true)
}

func runC15(c *h.Ctx) {
	// level bounds far beyond any document: rejected by the parser, or - if
	// accepted - levels like any other (nothing lies that deep; as an upper
	// bound they do not limit anything)
	{
		k := 0
		for _, lv := range []string{"2147483647", "2147483648", "4294967296", "9999999999", "0x100000000", "99999999999999999999", "1_000_000_000_000", "2147483646"} {
			for _, d := range []string{`{"a":{"b":[1,2]},"c":3}`, `[1,[2,[3]]]`, `5`} {
				for _, lax := range []bool{true, false} {
					k++
					if !c.Mine(k) {
						continue
					}
					mode := map[bool]string{true: "", false: "strict "}[lax]
					for _, f := range [][2]string{{"$.**{%s}", ""}, {"$.**{%s to last}", ""}, {"$.**{0 to %s}", "$.**{0 to last}"}, {"$.**{1 to %s}", "$.**{1 to last}"}, {"$.**{%s to %s}", ""}} {
						ptxt := mode + strings.ReplaceAll(f[0], "%s", lv)
						p, err, pan := h.ParseSafe(ptxt)
						if pan != "" {
							continue // C04's business
						}
						if err != nil {
							c.Count("level.rejected-by-parser", 1)
							c.Held("anylevel")
							continue
						}
						o := h.Call("query", p, h.Decode(d, false), h.Opts{})
						oe := h.Call("exists", p, h.Decode(d, false), h.Opts{})
						c.Eval(2)
						want := ""
						if f[1] != "" {
							if ow := h.Call("query", cachedPath(mode+f[1]), h.Decode(d, false), h.Opts{}); ow.Class == h.OK {
								want = h.CanonBag(ow.Items)
							}
						} else {
							want = h.CanonBag(nil)
						}
						if o.Class != h.OK || h.CanonBag(o.Items) != want || oe.Class != h.OK || oe.Bool != (len(o.Items) > 0) {
							c.Violate("anylevel", h.F("mode", modeName(lax), "kind", "huge-level"), fmt.Sprintf("Query(%s) on %s = %s, Exists = %s; expected the nodes %s", ptxt, d, o.Summary(), oe.Summary(), want), h.Case{Kind: "any", Path: ptxt, Doc: d})
						} else {
							c.Held("anylevel")
						}
					}
				}
			}
		}
	}
	maxNodes := c.N(5, 6)
	trees := gen.Trees(maxNodes, []string{"1", `"s"`, "null"}, []string{"a", "b"})
	specs := anySpecs()
	c.Count("trees.enumerated", int64(len(trees)))
	for i, t := range trees {
		if c.Mine(i) {
			c15UseNum = false
			checkTree(c, t, specs, true)
			if strings.Contains(t, "1") && i%3 == 0 {
				c15UseNum = true // the same tree with its numbers as json.Number
				checkTree(c, t, specs, true)
			}
		}
	}
	c.SetExhaustive(fmt.Sprintf("all JSON trees of <= %d nodes over leaves {1,\"s\",null,[],{}} and keys a,b x %d level-bound forms x suffixes x modes", maxNodes, len(specs)))
	// random larger trees
	r := c.Rand("c15")
	dc := gen.DocCfg{Depth: 5, MaxKids: 3, Keys: []string{"a", "b", "c"}, Strs: []string{"s", ""}, Nums: []string{"1", "0", "2.5"}}
	n := c.PerShard(c.N(6000, 300000))
	for i := 0; i < n; i++ {
		c15UseNum = i%2 == 1
		checkTree(c, gen.Doc(r, dc), specs, true)
	}
	// wildcards one after the other ([*] then .*, .* then [*], twice the same,
	// with a member accessor or a level in between): each hands every node it
	// selects to the next, which in lax mode unwraps an array it is handed -
	// against the reference model, all items and only whether there is one
	{
		rw := c.Rand("c15-wildchain")
		wdc := gen.DocCfg{Depth: 4, MaxKids: 3, Keys: []string{"a", "b"}, Strs: []string{"s"}, Nums: []string{"1", "2", "0"}}
		steps := []string{"[*]", ".*", ".a", ".**{1}", "[*]", ".*", ".**{1 to 2}", ".b"}
		directed := []string{`[[{"a":1}],{"b":2}]`, `{"k":[[{"a":1}]]}`, `[[{"a":1}]]`, `[[[1,2]],[3]]`, `{"a":[[1],[[2]]],"b":{"a":[3]}}`, `[[],[[]],[{"a":[]}]]`}
		nw := c.PerShard(c.N(40000, 600000))
		for i := 0; i < nw; i++ {
			var docText string
			if i%8 == 0 {
				docText = directed[i/8%len(directed)]
			} else {
				docText = gen.Doc(rw, wdc)
			}
			k := 2 + rw.IntN(2)
			ptxt := "$"
			for j := 0; j < k; j++ {
				ptxt += steps[rw.IntN(len(steps))]
			}
			if rw.IntN(3) == 0 {
				ptxt = "strict " + ptxt
			}
			ec, err := CaseFrom(h.Case{Path: ptxt, Doc: docText, UseNum: i%2 == 1, Silent: i%5 == 0})
			if err != nil {
				c.Count("gen.unparsable", 1)
				continue
			}
			ec.Spare = i%4 < 2
			o := h.Call("query", ec.P, ec.DocValue(), ec.Opts())
			c.Eval(1)
			verdict, feat, detail := modelVerdict(ec, o)
			switch {
			case verdict == "held":
				c.Held("wild.chain")
				if len(o.Items) > 0 {
					c.Distinct(ptxt, docText)
				}
				if o.Class == h.OK && !ec.Silent {
					oe := h.Call("exists", ec.P, ec.DocValue(), ec.Opts())
					c.Eval(1)
					if oe.Class != h.Panic && (oe.Class != h.OK || oe.Bool != (len(o.Items) > 0)) {
						c.Violate("wild.chain", h.F("entry", "exists", "mode", modeName(!strings.HasPrefix(ptxt, "strict "))), fmt.Sprintf("Query(%s) on %s = %s but Exists = %s", ptxt, docText, o.Summary(), oe.Summary()), ec.Case())
					}
				}
			case strings.HasPrefix(verdict, "skip:"):
				c.Skip("wild.chain", strings.TrimPrefix(verdict, "skip:"))
			case feat["cause"] != "" && feat["cause"] != "unexplained":
				// a recorded finding of another property (known-findings.txt), met on the way
				c.Skip("wild.chain", "recorded-finding:"+feat["cause"])
			default:
				if feat == nil {
					feat = map[string]string{}
				}
				feat["mode"] = modeName(!strings.HasPrefix(ptxt, "strict "))
				c.Violate("wild.chain", feat, detail, ec.Case())
			}
		}
	}
	// asked only whether there is an item, the descent still goes node by node
	// in document order: what decides is the first node whose continuation
	// yields an item or fails, whichever comes first (objects of one member,
	// so that there is one order)
	{
		rp := c.Rand("c15-preorder")
		pdc := gen.DocCfg{Depth: 4, MaxKids: 3, MaxMembers: 1, Keys: []string{"k"}, Strs: []string{"s", "5"}, Nums: []string{"1", "2.5"}}
		pdirected := []string{`[{"k":true},1]`, `[[["x"]],2]`, `{"k":[{"k":"s"},3]}`, `[1,{"k":true}]`, `[[1],[true]]`, `[{"k":[null]},"5",{"k":false}]`, `[[[true]],[1]]`, `[{"k":{"k":"s"}},2]`}
		pspecs := []string{".**", ".**{1 to last}", ".**{0 to 2}", ".**{2 to last}", ".**{1 to 3}", ".**{1}"}
		pconts := []string{".double()", ".integer()", ` ? (@.type() != "array" && @.type() != "object").double()`, ".abs()", ".ceiling()", ` ? (@.type() == "number" || @.type() == "boolean").double()`, ".k.double()"}
		np := c.PerShard(c.N(30000, 400000))
		for i := 0; i < np; i++ {
			var docText string
			if i%4 == 0 {
				docText = pdirected[i/4%len(pdirected)]
			} else {
				docText = gen.Doc(rp, pdc)
				if i%4 == 1 {
					// booleans among the leaves: no numeric method takes them
					docText = strings.Replace(docText, `"s"`, "true", 2)
				}
			}
			spec, cont := pspecs[rp.IntN(len(pspecs))], pconts[rp.IntN(len(pconts))]
			checkPreorderExists(c, spec, cont, docText, i%2 == 1)
		}
	}
	// chains nested far deeper than any decoder limit (documents built as Go
	// values): every level is a node
	for di, depth := range []int{50, 9999, 10001, 12000, c.N(15000, 60000)} {
		if !c.Mine(di) {
			continue
		}
		var v any = "leaf"
		for i := 0; i < depth; i++ {
			if i%2 == 0 {
				v = map[string]any{"k": v}
			} else {
				v = []any{v}
			}
		}
		for _, tc := range []struct {
			path string
			want int
		}{{"$.**", depth + 1}, {"$.**{last}", 1}, {fmt.Sprintf("$.**{%d}", depth), 1}, {fmt.Sprintf("$.**{%d to last}", depth-3), 4}, {"strict $.**.k", (depth + 1) / 2}, {fmt.Sprintf("$.**{%d}", depth+1), 0}} {
			c.Journal(fmt.Sprintf("deep chain depth=%d path=%s", depth, tc.path))
			o := h.Call("query", cachedPath(tc.path), v, h.Opts{})
			oe := h.Call("exists", cachedPath(tc.path), v, h.Opts{})
			c.Eval(2)
			c.Distinct("deep", tc.path, fmt.Sprint(depth))
			if o.Class != h.OK || len(o.Items) != tc.want || oe.Class != h.OK || oe.Bool != (tc.want > 0) {
				got := o.Class
				if o.Class == h.OK {
					got = fmt.Sprintf("%d items", len(o.Items))
				}
				c.Violate("anylevel", h.F("kind", "deep-chain"), fmt.Sprintf("Query(%s) on a chain nested %d deep: %s (Exists %s); every level is a node: %d items", tc.path, depth, got, oe.Summary(), tc.want), h.Case{Kind: "deep", Path: tc.path, Extra: map[string]string{"depth": fmt.Sprint(depth)}})
			} else {
				c.Held("anylevel")
			}
		}
	}
	// ... and deep documents that are no chains: at every second level a
	// one-element array is followed by a sibling (what follows a container with
	// a single child is visited like anything else, at any depth)
	for di, iters := range []int{20, 150, 400, 2600} {
		if !c.Mine(di + 3) {
			continue
		}
		var v any = "leaf"
		for i := 0; i < iters; i++ {
			if i%2 == 0 {
				v = []any{[]any{v}, "sib"}
			} else {
				v = map[string]any{"k": []any{map[string]any{"k": v}, float64(i)}}
			}
		}
		// nodes per round: even rounds add 3 (outer array, inner array, sibling),
		// odd rounds add 4 (object, array, inner object, number)
		total, leaves := 1, 1
		for i := 0; i < iters; i++ {
			if i%2 == 0 {
				total += 3
			} else {
				total += 4
			}
			leaves++
		}
		for _, tc := range []struct {
			path string
			want int
		}{{"$.**", total}, {"strict $.**", total}, {"$.**{last}", leaves}, {"$.**{2 to last}", total - 2}, {`strict $.** ? (@ == "sib")`, (iters + 1) / 2}, {`strict $.** ? (@.type() == "number")`, iters / 2}} {
			c.Journal(fmt.Sprintf("deep tree rounds=%d path=%s", iters, tc.path))
			o := h.Call("query", cachedPath(tc.path), v, h.Opts{})
			oe := h.Call("exists", cachedPath(tc.path), v, h.Opts{})
			c.Eval(2)
			c.Distinct("deep-tree", tc.path, fmt.Sprint(iters))
			if o.Class != h.OK || len(o.Items) != tc.want || oe.Class != h.OK || oe.Bool != (tc.want > 0) {
				got := o.Class
				if o.Class == h.OK {
					got = fmt.Sprintf("%d items", len(o.Items))
				}
				c.Violate("anylevel", h.F("kind", "deep-tree"), fmt.Sprintf("Query(%s) on a tree of %d rounds (a one-element container followed by a sibling at every second level): %s (Exists %s); the walk gives %d items", tc.path, iters, got, oe.Summary(), tc.want), h.Case{Kind: "deep", Path: tc.path, Extra: map[string]string{"rounds": fmt.Sprint(iters)}})
			} else {
				c.Held("anylevel")
			}
		}
	}
	// one recursive descent inside another, on deep trees whose objects have several members
	deep := gen.DocCfg{Depth: 6, MaxKids: 3, Keys: []string{"a", "b", "c", "d"}, Strs: []string{"s"}, Nums: []string{"1", "2"}}
	nc := c.PerShard(c.N(60000, 1500000))
	for i := 0; i < nc; i++ {
		c15UseNum = i%4 == 3
		d := gen.Doc(r, deep)
		if len(d) < 24 {
			continue
		}
		s1 := c15ChainSpecs[r.IntN(len(c15ChainSpecs))]
		s2 := c15ChainSpecs[r.IntN(8)]
		checkAnyChain(c, d, s1, s2, r.IntN(3) > 0)
		if i%6 == 0 {
			checkAliased(c, d, i%12 == 0)
		}
		if i%5 == 0 {
			// ... and three deep
			checkAnyChain(c, d, s1+c15ChainSpecs[r.IntN(8)], s2, true)
		}
	}
}

// scalarLit spells a scalar item as a path literal.
func scalarLit(v any) (string, bool) {
	switch x := v.(type) {
	case string:
		return gQuote(x), true
	case json.Number:
		return x.String(), true
	case float64:
		if x == float64(int64(x)) {
			return fmt.Sprint(int64(x)), true
		}
		return fmt.Sprint(x), true
	case nil:
		return "null", true
	case bool:
		return fmt.Sprint(x), true
	}
	return "", false
}
