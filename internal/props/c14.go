package props

import (
	"context"
	"encoding/json"
	"fmt"
	"math"
	"math/big"
	"strings"

	"github.com/theory/sqljson/path"

	"verif/internal/h"
)

func init() {
	register(&Prop{
		ID:    "C14",
		Level: "exploration",
		Rule: "exhaustive small scope: all arrays of length 0..3 over {null, 0, \"s\", [], [1], {}, {\"a\":1}} and of length 4 over {null, 0, [1]}, plus non-array documents, x all single subscripts over -2..6, 0.5, 1.9, -0.5, last, last-1, last-2, last+1, all ranges and all pairs of those, nested and non-numeric subscripts, lax and strict, verbose and silent; " +
			"random arrays up to length 12 with lists up to 4 and bounds to +-2^31. Oracle: slice arithmetic written in the harness. Non-trivial: array length >= 1; distinct by (array, subscript list, mode, silent)",
		Run:          runC14,
		Replay:       replayC14,
		MinExercised: map[string]int64{"single": 5000, "range": 20000, "list": 20000, "last": 5000, "lax.clip": 5000, "lax.wrap": 500, "strict.bounds": 5000, "strict.below-any": 200, "subscript.current": 2000, "exists-agrees": 5000, "last.scope": 100, "badsubscript": 200},
		Assumptions:  []string{"positions are trunc(e) toward zero; ranges inclusive; last = n-1 of the innermost subscripted array"},
	})
}

type bound struct {
	text   string
	val    float64 // numeric value, when !last
	last   bool
	offset float64 // last + offset
}

func (b bound) pos(n int) int {
	v := b.val
	if b.last {
		v = float64(n-1) + b.offset
	}
	return int(math.Trunc(v))
}

var c14Bounds = func() []bound {
	var bs []bound
	for i := -2; i <= 6; i++ {
		bs = append(bs, bound{text: fmt.Sprint(i), val: float64(i)})
	}
	bs = append(bs, bound{text: "0.5", val: 0.5}, bound{text: "1.9", val: 1.9}, bound{text: "-0.5", val: -0.5},
		bound{text: "last", last: true}, bound{text: "last - 1", last: true, offset: -1}, bound{text: "last - 2", last: true, offset: -2}, bound{text: "last + 1", last: true, offset: 1})
	return bs
}()

type sub struct {
	from bound
	to   *bound
}

func (s sub) text() string {
	if s.to == nil {
		return s.from.text
	}
	return s.from.text + " to " + s.to.text
}

// sliceOracle computes the expected positions for a subscript list on an
// array of length n. ok=false: strict out-of-bounds error (after the
// positions selected by the preceding subscripts).
func sliceOracle(n int, subs []sub, lax bool) (pos []int, ok bool) {
	for _, s := range subs {
		from := s.from.pos(n)
		to := from
		if s.to != nil {
			to = s.to.pos(n)
		}
		if !lax && (from < 0 || from > to || to >= n) {
			return pos, false
		}
		if from < 0 {
			from = 0
		}
		if to >= n {
			to = n - 1
		}
		for i := from; i <= to; i++ {
			pos = append(pos, i)
		}
	}
	return pos, true
}

var c14PathCache = map[string]*path.Path{}

func cachedPath(txt string) *path.Path {
	if p, ok := c14PathCache[txt]; ok {
		return p
	}
	p, err, pan := h.ParseSafe(txt)
	if err != nil || pan != "" {
		p = nil
	}
	if len(c14PathCache) > 200000 {
		c14PathCache = map[string]*path.Path{}
	}
	c14PathCache[txt] = p
	return p
}

// checkSubscripts checks one (document, subscript list, mode) in both silent settings.
func checkSubscripts(c *h.Ctx, docText string, isArray bool, elems []string, subs []sub, lax bool, useNum bool) {
	parts := make([]string, len(subs))
	hasLast, hasRange := false, false
	for i, s := range subs {
		parts[i] = s.text()
		if s.from.last || (s.to != nil && s.to.last) {
			hasLast = true
		}
		if s.to != nil {
			hasRange = true
		}
	}
	ptxt := "$[" + strings.Join(parts, ", ") + "]"
	if !lax {
		ptxt = "strict " + ptxt
	}
	p := cachedPath(ptxt)
	if p == nil {
		c.Count("gen.unparsable", 1)
		return
	}
	n := len(elems)
	arr := elems
	wrapErr := false
	if !isArray {
		if lax {
			n, arr = 1, []string{docText}
		} else {
			wrapErr = true
		}
	}
	var want []string
	okBounds := true
	if !wrapErr {
		var pos []int
		pos, okBounds = sliceOracle(n, subs, lax)
		for _, i := range pos {
			want = append(want, canonElem(arr[i]))
		}
	}
	clause := "single"
	switch {
	case !isArray && lax:
		clause = "lax.wrap"
	case hasLast:
		clause = "last"
	case len(subs) > 1:
		clause = "list"
	case hasRange:
		clause = "range"
	}
	for _, silent := range []bool{false, true} {
		doc := h.Decode(docText, useNum)
		o := h.Call("query", p, doc, h.Opts{Silent: silent})
		c.Eval(1)
		if n >= 1 {
			c.Distinct(ptxt, docText, fmt.Sprint(silent, useNum))
		}
		cs := h.Case{Kind: "subscript", Path: ptxt, Doc: docText, UseNum: useNum, Silent: silent}
		if o.Class == h.Panic || o.Class == h.Invalid {
			c.Skip(clause, "panic-or-invalid-is-C05")
			continue
		}
		// the same subscript asked only for existence (Exists, and exists() in
		// a filter on a wrapper) agrees with what Query selects
		if !silent {
			oe := h.Call("exists", p, h.Decode(docText, useNum), h.Opts{})
			c.Eval(1)
			agree := oe.Class == o.Class && (o.Class != h.OK || oe.Bool == (len(o.Items) > 0))
			if !agree {
				c.Violate("exists-agrees", h.F("mode", modeName(lax), "query", o.Class, "exists", oe.Class), fmt.Sprintf("Query(%s) on %s = %s but Exists = %s", ptxt, docText, o.Summary(), oe.Summary()), cs)
			} else {
				c.Held("exists-agrees")
			}
			// ... and asked for the first item only: every subscript of the list
			// is still a subscript (a later one that is out of bounds, or no
			// number, fails the accessor as it does for Query)
			of := h.Call("first", p, h.Decode(docText, useNum), h.Opts{})
			c.Eval(1)
			var first any
			if len(o.Items) > 0 {
				first = o.Items[0]
			}
			if of.Class != h.Panic && (of.Class != o.Class || o.Class == h.OK && canonJSON(of.Val) != canonJSON(first)) {
				c.Violate("exists-agrees", h.F("mode", modeName(lax), "query", o.Class, "first", of.Class), fmt.Sprintf("Query(%s) on %s = %s but First = %s", ptxt, docText, o.Summary(), of.Summary()), cs)
			} else {
				c.Held("exists-agrees")
			}
		}
		expErr := wrapErr || !okBounds
		wantItems := want
		var wantDesc string
		if expErr && !silent {
			wantDesc = "a suppressible error"
		} else {
			// silent: the items found before the failure
			wantDesc = "[" + strings.Join(wantItems, " | ") + "]"
		}
		got := ""
		if o.Class == h.OK {
			gs := make([]string, len(o.Items))
			for i, it := range o.Items {
				gs[i] = canonJSON(it)
			}
			got = "[" + strings.Join(gs, " | ") + "]"
		}
		good := false
		switch {
		case expErr && !silent:
			good = o.Class == h.Soft
		default:
			good = o.Class == h.OK && got == wantDesc
		}
		if good {
			c.Held(clause)
			switch {
			case !lax && isArray:
				c.Held("strict.bounds")
			case lax && isArray:
				c.Held("lax.clip")
			}
			if c.WantSample(clause) {
				c.Sample(clause, map[string]any{"path": ptxt, "doc": docText, "silent": silent, "result": o.Summary()})
			}
			continue
		}
		// classify: does the observed result equal the expectation with null elements dropped?
		cause := "unexplained"
		if o.Class == h.OK && !(expErr && !silent) {
			var nn []string
			for _, w := range wantItems {
				if w != "null" {
					nn = append(nn, w)
				}
			}
			if got == "["+strings.Join(nn, " | ")+"]" {
				cause = "subscript-skips-null"
			}
		}
		cl := clause
		if cause == "subscript-skips-null" {
			cl = "null-elements"
		}
		if cause == "unexplained" {
			if !lax && isArray {
				cl = "strict.bounds"
			} else if lax && isArray && o.Class != h.OK {
				cl = "lax.clip"
			}
		}
		c.Violate(cl, h.F("cause", cause, "mode", modeName(lax)), fmt.Sprintf("Query(%s) on %s (silent=%v) = %s; slice arithmetic gives %s", ptxt, docText, silent, o.Summary(), wantDesc), cs)
	}
}

// canonJSON renders a result item the way the element alphabet is written.
func canonJSON(v any) string { return h.Canon(v) }

var canonElemCache = map[string]string{}

// canonElem renders element JSON text the way result items are rendered.
func canonElem(txt string) string {
	if s, ok := canonElemCache[txt]; ok {
		return s
	}
	s := h.Canon(h.Decode(txt, false))
	canonElemCache[txt] = s
	return s
}

// checkLastScope (shared with C09): arrays a (n elements 10,20,...) and b (m
// small integers); in $.a[$.b[i] ? (@ <= last)] the filter follows the nested
// subscript. Read lexically, last belongs to $.a (the filter keeps b[i] iff
// b[i] <= n-1); read as PostgreSQL evaluates it, the subscript step of $.b is
// still in progress and last is m-1. The statements of C09 and C14 can be read
// either way, so both outcomes are accepted - and nothing else.
func checkLastScope(c *h.Ctx, clause string) {
	k := 0
	for n := 2; n <= 5; n++ {
		for m := 1; m <= 4; m++ {
			for i := 0; i < m; i++ {
				for v := 0; v <= 4; v++ {
					for _, form := range []string{"$.a[$.b[%d] ? (@ <= last)]", "$.a[$.b[%d] ? (@ + 0 <= last - 0)]", "strict $.a[$.b[%d] ? (@ <= last)]", "$.a[0, $.b[%d] ? (@ <= last)]"} {
						k++
						if !c.Mine(k) {
							continue
						}
						as, bs := make([]string, n), make([]string, m)
						for j := range as {
							as[j] = fmt.Sprint(10 * (j + 1))
						}
						for j := range bs {
							bs[j] = "0"
						}
						bs[i] = fmt.Sprint(v)
						docText := fmt.Sprintf(`{"a":[%s],"b":[%s]}`, strings.Join(as, ","), strings.Join(bs, ","))
						ptxt := fmt.Sprintf(form, i)
						p := cachedPath(ptxt)
						if p == nil {
							c.Count("gen.unparsable", 1)
							continue
						}
						o := h.Call("query", p, h.Decode(docText, false), h.Opts{})
						c.Eval(1)
						c.Distinct(ptxt, docText)
						var want []string
						if strings.Contains(form, "[0, ") {
							want = append(want, "#10")
						}
						wantErr := v > n-1
						if !wantErr {
							want = append(want, "#"+as[v])
						}
						got := ""
						if o.Class == h.OK {
							gs := make([]string, len(o.Items))
							for j, it := range o.Items {
								gs[j] = canonJSON(it)
							}
							got = strings.Join(gs, " | ")
						}
						ok := (wantErr && o.Class == h.Soft) || (!wantErr && o.Class == h.OK && got == strings.Join(want, " | "))
						if ok {
							c.Held(clause)
							continue
						}
						cause := "unexplained"
						// what the other reading gives (last = m-1 in the steps that follow $.b[i],
						// which are evaluated while that subscript step is still in progress - as in
						// PostgreSQL): the statements do not decide between the two, both are accepted
						dynErr := v > m-1
						var dynWant []string
						if strings.Contains(form, "[0, ") {
							dynWant = append(dynWant, "#10")
						}
						if !dynErr {
							if v <= n-1 {
								dynWant = append(dynWant, "#"+as[v])
							} else if strings.HasPrefix(form, "strict") {
								dynErr = true // out of bounds
							}
						}
						if (dynErr && o.Class == h.Soft) || (!dynErr && o.Class == h.OK && got == strings.Join(dynWant, " | ")) {
							c.Held(clause)
							c.Count("last.scope:follows-the-evaluation", 1)
							continue
						}
						c.Violate(clause, h.F("cause", cause), fmt.Sprintf("Query(%s) on %s = %s; last belongs to the subscript of $.a (%d elements), so the filter keeps %d iff %d <= %d", ptxt, docText, o.Summary(), n, v, v, n-1), h.Case{Kind: "nested", Path: ptxt, Doc: docText})
					}
				}
			}
		}
	}
}

func truncRat(r *big.Rat) *big.Int {
	return new(big.Int).Quo(r.Num(), r.Denom()) // Quo truncates toward zero
}

func replayC14(c *h.Ctx, cs h.Case) {
	p, err, pan := h.ParseSafe(cs.Path)
	if err != nil || pan != "" {
		c.Note("replay: path does not parse")
		return
	}
	o := h.Call("query", p, h.Decode(cs.Doc, cs.UseNum), h.Opts{Silent: cs.Silent})
	c.Note("replay: observed " + o.Summary() + " — re-judging needs the subscript structure; re-run ./check C14 quick (the small scope is exhaustive and deterministic)")
	runC14(c)
}

func runC14(c *h.Ctx) {
	alpha := []string{"null", "0", `"s"`, "[]", "[1]", "{}", `{"a":1}`}
	small := []string{"null", "0", "[1]"}
	type arr struct{ elems []string }
	var arrays []arr
	var rec func(cur []string, n int, al []string)
	rec = func(cur []string, n int, al []string) {
		if len(cur) == n {
			arrays = append(arrays, arr{append([]string(nil), cur...)})
			return
		}
		for _, a := range al {
			rec(append(cur, a), n, al)
		}
	}
	for n := 0; n <= 3; n++ {
		rec(nil, n, alpha)
	}
	rec(nil, 4, small)
	// subscript lists
	var singles, ranges []sub
	for _, b := range c14Bounds {
		singles = append(singles, sub{from: b})
	}
	for _, a := range c14Bounds {
		for i := range c14Bounds {
			b := c14Bounds[i]
			ranges = append(ranges, sub{from: a, to: &b})
		}
	}
	idx := 0
	quickThin := func() bool { return !c.Thorough() && (idx/c.NShards)%3 != 0 }
	for ai, a := range arrays {
		doc := "[" + strings.Join(a.elems, ",") + "]"
		for _, lax := range []bool{true, false} {
			useNum := (ai % 2) == 0
			for _, s := range singles {
				idx++
				if c.Mine(idx) {
					checkSubscripts(c, doc, true, a.elems, []sub{s}, lax, useNum)
				}
			}
			// ranges and pairs: thinned in quick tier for the larger arrays
			for _, s := range ranges {
				idx++
				if c.Mine(idx) && !(len(a.elems) >= 3 && quickThin()) {
					checkSubscripts(c, doc, true, a.elems, []sub{s}, lax, useNum)
				}
			}
			for _, s1 := range singles {
				for _, s2 := range singles {
					idx++
					if c.Mine(idx) && !(len(a.elems) >= 3 && quickThin()) {
						checkSubscripts(c, doc, true, a.elems, []sub{s1, s2}, lax, useNum)
					}
				}
			}
		}
	}
	c.Count("arrays.enumerated", int64(len(arrays)))
	if c.Thorough() {
		c.SetExhaustive("arrays <=3 over 7 elements and length 4 over 3 elements x singles, ranges, pairs of 16 bounds x 2 modes x silent/verbose")
	} else {
		c.SetExhaustive("arrays <=2 fully; length 3-4 every third range/pair")
	}
	// non-array documents
	for di, d := range []string{"null", "0", `"s"`, "{}", `{"a":1}`, "true", "1.5"} {
		for _, lax := range []bool{true, false} {
			for _, s := range singles {
				idx++
				if c.Mine(idx) {
					checkSubscripts(c, d, false, nil, []sub{s}, lax, di%2 == 0)
				}
			}
			for _, s := range ranges {
				idx++
				if c.Mine(idx) {
					checkSubscripts(c, d, false, nil, []sub{s}, lax, di%2 == 0)
				}
			}
		}
	}
	// lax auto-wrapping nested in itself: a non-array subscripted inside the
	// subscript list, bound or continuation of another wrapped non-array
	wrapCases := []struct{ p, d, want string }{
		{"$[0,0][0]", `5`, "#5 | #5"}, {"$[0,0][0,0]", `"s"`, `"s" | "s" | "s" | "s"`}, {"$[0 to 0, 0][last]", `true`, "true | true"}, {"$[0][0][0]", `5`, "#5"},
		{"$[0,0].a[0]", `{"a":5}`, "#5 | #5"}, {"$[0,0].a[0,0]", `{"a":5}`, "#5 | #5 | #5 | #5"}, {"$[last,0].a[last].b[0]", `{"a":{"b":7}}`, "#7 | #7"},
		{"$.o[$.z[0]]", `{"o":"x","z":0}`, `"x"`}, {"$.o[$.z[0], $.z[0]]", `{"o":"x","z":0}`, `"x" | "x"`}, {"$.o[$.z[last]]", `{"o":"x","z":0}`, `"x"`},
		{"$.o[$.z[0] to $.z[0]]", `{"o":{"k":1},"z":0}`, `{"k":#1}`}, {"$[0,0] ? (@[0] == 5)", `5`, "#5 | #5"}, {"$[0,0] ? (@[0][0] == 5)[0]", `5`, "#5 | #5"},
		{"$[$[0].z]", `{"z":0}`, `{"z":#0}`}, {"$[0, $[0].z, 0].z[0]", `{"z":0}`, "#0 | #0 | #0"},
	}
	for i, wc := range wrapCases {
		idx++
		if !c.Mine(idx) {
			continue
		}
		_ = i
		for _, useNum := range []bool{false, true} {
			p := cachedPath(wc.p)
			if p == nil {
				c.Count("gen.unparsable", 1)
				continue
			}
			o := h.Call("query", p, h.Decode(wc.d, useNum), h.Opts{})
			c.Eval(1)
			c.Distinct(wc.p, wc.d, fmt.Sprint(useNum))
			got := ""
			if o.Class == h.OK {
				gs := make([]string, len(o.Items))
				for j, it := range o.Items {
					gs[j] = canonJSON(it)
				}
				got = strings.Join(gs, " | ")
			}
			if o.Class != h.OK || got != wc.want {
				c.Violate("lax.wrap", h.F("form", "nested-wrap"), fmt.Sprintf("Query(%s) on %s = %s; a non-array behaves as a one-element array at every level: [%s]", wc.p, wc.d, o.Summary(), wc.want), h.Case{Kind: "nested", Path: wc.p, Doc: wc.d, UseNum: useNum})
			} else {
				c.Held("lax.wrap")
			}
		}
	}
	// items that are not JSON values of the document - what the datetime
	// methods yield - are non-arrays like any other: wrapped in lax mode,
	// refused in strict mode
	{
		ddoc := `{"d":"2024-06-14","t":"12:34:56","z":"12:34:56+01:00","ts":"2024-06-14T12:34:56","tz":"2024-06-14T12:34:56+01:00","n":7,"s":"x"}`
		heads := []string{"$.d.datetime()", "$.d.date()", "$.t.time()", "$.z.time_tz()", "$.ts.timestamp()", "$.tz.timestamp_tz()", "$.ts.datetime()", "$.n.double()", "$.s.type()", "$.n.string()", "$.tz.timestamp_tz().date()"}
		subs := []struct {
			s string
			n int // how often the item is selected
		}{{"[0]", 1}, {"[last]", 1}, {"[0 to last]", 1}, {"[0,0]", 2}, {"[0][last]", 1}, {"[1]", 0}, {"[0, 1, last]", 2}, {"[-1 to 0]", 1}, {"[0.9]", 1}}
		for hi, hd := range heads {
			for si, sb := range subs {
				idx++
				if !c.Mine(idx) {
					continue
				}
				_ = hi
				_ = si
				for _, lax := range []bool{true, false} {
					mode := map[bool]string{true: "", false: "strict "}[lax]
					for _, tail := range []string{"", ".type()", ".string()"} {
						pa, pb := cachedPath(mode+hd+sb.s+tail), cachedPath(mode+hd+tail)
						if pa == nil || pb == nil {
							c.Count("gen.unparsable", 1)
							continue
						}
						oa := h.Call("query", pa, h.Decode(ddoc, false), h.Opts{TZ: true})
						ob := h.Call("query", pb, h.Decode(ddoc, false), h.Opts{TZ: true})
						c.Eval(2)
						cs := h.Case{Kind: "nested", Path: mode + hd + sb.s + tail, Doc: ddoc, TZ: true}
						if ob.Class != h.OK || len(ob.Items) != 1 || oa.Class == h.Panic {
							continue
						}
						var want []string
						for j := 0; j < sb.n; j++ {
							want = append(want, h.CanonTyped(ob.Items[0]))
						}
						got := make([]string, len(oa.Items))
						for j, it := range oa.Items {
							got[j] = h.CanonTyped(it)
						}
						switch {
						case lax && (oa.Class != h.OK || strings.Join(got, " | ") != strings.Join(want, " | ")):
							c.Violate("lax.wrap", h.F("form", "method-result"), fmt.Sprintf("Query(%s) = %s; %s yields %s, which as a one-element array gives [%s]", cs.Path, oa.Summary(), hd+tail, ob.Summary(), strings.Join(want, " | ")), cs)
						case !lax && oa.Class != h.Soft:
							c.Violate("strict.bounds", h.F("cause", "unexplained", "mode", "strict", "form", "method-result"), fmt.Sprintf("Query(%s) = %s; a subscript on a non-array is a suppressible error in strict mode", cs.Path, oa.Summary()), cs)
						case lax:
							c.Held("lax.wrap")
						default:
							c.Held("strict.bounds")
						}
					}
				}
			}
		}
	}
	// a subscript inside a filter may mention @: it is the filtered item, not
	// the array being subscripted
	rs := c.Rand("c14-current")
	ncur := c.PerShard(c.N(40000, 400000))
	for i := 0; i < ncur; i++ {
		nrows := 1 + rs.IntN(4)
		rows := make([]string, nrows)
		type row struct {
			i    int
			a    []int
			objs bool
		}
		rws := make([]row, nrows)
		objs := rs.IntN(3) == 0
		for j := range rows {
			rw := row{i: rs.IntN(5) - 1, objs: objs}
			for k := rs.IntN(4); k >= 0; k-- {
				rw.a = append(rw.a, 10*(1+rs.IntN(3)))
			}
			rws[j] = rw
			el := make([]string, len(rw.a))
			for k, v := range rw.a {
				if objs {
					// the elements carry the same member name as the row
					el[k] = fmt.Sprintf(`{"i":%d,"v":%d}`, rs.IntN(3), v)
				} else {
					el[k] = fmt.Sprint(v)
				}
			}
			rows[j] = fmt.Sprintf(`{"i":%d,"a":[%s]}`, rw.i, strings.Join(el, ","))
		}
		v := 10 * (1 + rs.IntN(3))
		lax := rs.IntN(2) == 0
		ptxt := fmt.Sprintf("$[*] ? (@.a[@.i] == %d).i", v)
		if objs {
			ptxt = fmt.Sprintf("$[*] ? (@.a[@.i].v == %d).i", v)
		}
		if rs.IntN(4) == 0 {
			ptxt = strings.Replace(ptxt, "[@.i]", "[@.i to last]", 1)
		}
		if !lax {
			ptxt = "strict " + ptxt
		}
		toLast := strings.Contains(ptxt, "to last")
		var want []string
		for _, rw := range rws {
			hit := false
			if toLast {
				// strict: a negative lower bound is out of bounds (unknown); lax: clipped
				if rw.i >= 0 || lax {
					for k := max(rw.i, 0); k < len(rw.a); k++ {
						if rw.a[k] == v {
							hit = true
						}
					}
				}
			} else if rw.i >= 0 && rw.i < len(rw.a) && rw.a[rw.i] == v {
				hit = true
			}
			if hit {
				want = append(want, fmt.Sprintf("#%d", rw.i))
			}
		}
		p := cachedPath(ptxt)
		if p == nil {
			c.Count("gen.unparsable", 1)
			continue
		}
		docText := "[" + strings.Join(rows, ",") + "]"
		o := h.Call("query", p, h.Decode(docText, false), h.Opts{})
		c.Eval(1)
		c.Distinct(ptxt, docText)
		got := ""
		if o.Class == h.OK {
			gs := make([]string, len(o.Items))
			for j, it := range o.Items {
				gs[j] = canonJSON(it)
			}
			got = strings.Join(gs, " | ")
		}
		if o.Class != h.OK || got != strings.Join(want, " | ") {
			c.Violate("subscript.current", h.F("mode", modeName(lax)), fmt.Sprintf("Query(%s) on %s = %s; selecting by position trunc(@.i) of each row's own array gives [%s]", ptxt, docText, o.Summary(), strings.Join(want, " | ")), h.Case{Kind: "nested", Path: ptxt, Doc: docText})
		} else {
			c.Held("subscript.current")
		}
	}
	// a bound that starts at $ is not a constant: it may go on to mention the
	// filtered item or last, and is then worked out anew for every array the
	// accessor is applied to in one execution
	{
		rr := c.Rand("c14-rooted")
		nr := c.PerShard(c.N(20000, 200000))
		for i := 0; i < nr; i++ {
			lax := rr.IntN(2) == 0
			mode := map[bool]string{true: "", false: "strict "}[lax]
			npick := 2 + rr.IntN(4)
			pick := make([]int, npick)
			ptxts := make([]string, npick)
			for j := range pick {
				pick[j] = rr.IntN(4)
				ptxts[j] = fmt.Sprint(pick[j])
			}
			nrows := 2 + rr.IntN(4)
			rows := make([]string, nrows)
			v := 10 * (1 + rr.IntN(3))
			var want, wantLast []string
			ms := make([]string, nrows)
			for j := range rows {
				ri := rr.IntN(npick+1) - 1 // -1: no such element of pick
				na := 1 + rr.IntN(4)
				el := make([]string, na)
				a := make([]int, na)
				for k := range a {
					a[k] = 10 * (1 + rr.IntN(3))
					el[k] = fmt.Sprint(a[k])
				}
				rows[j] = fmt.Sprintf(`{"i":%d,"id":%d,"a":[%s]}`, ri, 100+j, strings.Join(el, ","))
				if ri >= 0 && pick[ri] < na && a[pick[ri]] == v {
					want = append(want, fmt.Sprintf("#%d", 100+j))
				}
				ms[j] = "[" + strings.Join(el, ",") + "]"
				wantLast = append(wantLast, "#"+el[na-1])
			}
			docText := fmt.Sprintf(`{"pick":[%s],"k":[0,1,2,3,4],"rows":[%s],"m":[%s]}`, strings.Join(ptxts, ","), strings.Join(rows, ","), strings.Join(ms, ","))
			type rc struct {
				ptxt string
				want []string
			}
			for _, t := range []rc{
				{mode + fmt.Sprintf("$.rows[*] ? (@.a[$.pick[@.i]] == %d).id", v), want},
				{mode + "$.m[*][$.k[*] ? (@ == last)]", wantLast},
				{mode + "$.m[*][$.k[0] + last]", wantLast},
				{mode + "$.m[*][$.k[*] ? (@ == last) to last]", wantLast},
			} {
				p := cachedPath(t.ptxt)
				if p == nil {
					c.Count("gen.unparsable", 1)
					continue
				}
				for _, useNum := range []bool{false, true} {
					o := h.Call("query", p, h.Decode(docText, useNum), h.Opts{})
					c.Eval(1)
					c.Distinct(t.ptxt, docText)
					got := ""
					if o.Class == h.OK {
						gs := make([]string, len(o.Items))
						for j, it := range o.Items {
							gs[j] = canonJSON(it)
						}
						got = strings.Join(gs, " | ")
					}
					if o.Class != h.OK || got != strings.Join(t.want, " | ") {
						c.Violate("subscript.current", h.F("mode", modeName(lax), "bound", "starts-at-root"), fmt.Sprintf("Query(%s) on %s = %s; working the bound out for each array in turn gives [%s]", t.ptxt, docText, o.Summary(), strings.Join(t.want, " | ")), h.Case{Kind: "nested", Path: t.ptxt, Doc: docText, UseNum: useNum})
					} else {
						c.Held("subscript.current")
					}
				}
			}
		}
	}
	// subscripts that arrive as json.Number (a variable, a UseNumber document)
	// in every numeral spelling: fraction, exponent, both
	{
		els := make([]string, 30)
		for i := range els {
			els[i] = fmt.Sprint(100 + i)
		}
		arrText := "[" + strings.Join(els, ",") + "]"
		spell := []string{"2147483648", "-2147483649", "4294967296", "-4294967296", "9223372036854775807", "-9223372036854775808", "99999999999999999999", "4294967297", "2147483647", "-2147483648", "3", "3.0", "0.3e1", "30e-1", "2.5e1", "25.0e-1", "2.5", "-0.5e1", "-5", "1e1", "1E1", "99.5e-1", "0.0e0", "0e5", "29.99", "2.999e1", "3.0e1", "1.5e10", "1e10", "-2.5e9", "2147483647.5e0", "0.29e2", "29e0", "-0.9", "-0.09e1", "0.000001e6", "123e-2"}
		for si, a := range spell {
			for sj, b := range []string{"", "0.5e1", "2.9e1", "3e1", "7", "4294967296", "-4294967295"} {
				if !c.Mine(si*7 + sj) {
					continue
				}
				for _, lax := range []bool{true, false} {
					for _, via := range []string{"var", "doc"} {
						ptxt, vars := "$[$i]", map[string]any{"i": json.Number(a)}
						var doc any = h.Decode(arrText, true)
						if b != "" {
							ptxt = "$[$i to $j]"
							vars["j"] = json.Number(b)
						}
						if via == "doc" {
							ptxt = strings.NewReplacer("$i", "$.i", "$j", "$.j", "$[", "$.a[").Replace(ptxt)
							d := map[string]any{"a": doc, "i": json.Number(a)}
							if b != "" {
								d["j"] = json.Number(b)
							}
							doc, vars = d, nil
						}
						if !lax {
							ptxt = "strict " + ptxt
						}
						p := cachedPath(ptxt)
						if p == nil {
							c.Count("gen.unparsable", 1)
							continue
						}
						o := h.Call("query", p, doc, h.Opts{Vars: vars})
						c.Eval(1)
						c.Distinct("numsub", ptxt, a, b)
						ra, _ := new(big.Rat).SetString(a)
						from := truncRat(ra)
						to := from
						if b != "" {
							rb, _ := new(big.Rat).SetString(b)
							to = truncRat(rb)
						}
						wantErr := from.Cmp(big.NewInt(math.MaxInt32)) > 0 || from.Cmp(big.NewInt(math.MinInt32)) < 0 || to.Cmp(big.NewInt(math.MaxInt32)) > 0 || to.Cmp(big.NewInt(math.MinInt32)) < 0
						var want []string
						if !wantErr {
							f, t := from.Int64(), to.Int64()
							if !lax && (f < 0 || f > t || t >= 30) {
								wantErr = true
							} else {
								for k := max(f, 0); k <= min(t, 29); k++ {
									want = append(want, "#"+els[k])
								}
							}
						}
						got := ""
						if o.Class == h.OK {
							gs := make([]string, len(o.Items))
							for j, it := range o.Items {
								gs[j] = canonJSON(it)
							}
							got = strings.Join(gs, " | ")
						}
						if (wantErr && o.Class != h.Soft) || (!wantErr && (o.Class != h.OK || got != strings.Join(want, " | "))) {
							c.Violate("single", h.F("form", "json.Number-subscript", "mode", modeName(lax), "via", via), fmt.Sprintf("Query(%s) with i = %s, j = %s on an array of 30 = %s; positions trunc(i)..trunc(j) = %s..%s (error: %v)", ptxt, a, b, o.Summary(), from, to, wantErr), h.Case{Kind: "numsub", Path: ptxt, Extra: map[string]string{"i": a, "j": b}})
						} else {
							c.Held("single")
						}
					}
				}
			}
		}
	}
	// last after a nested subscript: in $.a[$.b[i] ? (@ <= last)] the filter
	// follows the nested subscript [i]; the last it mentions belongs to the
	// subscript of $.a that encloses it
	checkLastScope(c, "last.scope")
	// [*] is not a subscript: in $.a[$.b[*] ? (@ == last)] last is a's, under
	// either reading
	{
		k := 0
		for n := 2; n <= 5; n++ {
			for m := 1; m <= 4; m++ {
				for hit := -1; hit < m; hit++ {
					for _, form := range []string{"$.a[$.b[*] ? (@ == last)]", "strict $.a[$.b[*] ? (@ == last)]", "$.a[$.b[*] ? (@ == last - 1) + 1]", "$.a[0, $.b[*] ? (@ >= last)]"} {
						k++
						if !c.Mine(k) {
							continue
						}
						as, bs := make([]string, n), make([]string, m)
						for j := range as {
							as[j] = fmt.Sprint(10 * (j + 1))
						}
						for j := range bs {
							bs[j] = "-7"
						}
						val := n - 1
						if strings.Contains(form, "last - 1") {
							val = n - 2
						}
						if hit >= 0 {
							bs[hit] = fmt.Sprint(val)
						}
						docText := fmt.Sprintf(`{"a":[%s],"b":[%s]}`, strings.Join(as, ","), strings.Join(bs, ","))
						o := h.Call("query", cachedPath(form), h.Decode(docText, k%2 == 0), h.Opts{})
						c.Eval(1)
						c.Distinct(form, docText)
						var want []string
						if strings.Contains(form, "[0, ") {
							want = append(want, "#10")
						}
						wantErr := hit < 0
						if !wantErr {
							want = append(want, "#"+as[n-1])
						}
						got := ""
						if o.Class == h.OK {
							gs := make([]string, len(o.Items))
							for j, it := range o.Items {
								gs[j] = canonJSON(it)
							}
							got = strings.Join(gs, " | ")
						}
						if (wantErr && o.Class != h.Soft) || (!wantErr && (o.Class != h.OK || got != strings.Join(want, " | "))) {
							c.Violate("last", h.F("cause", "unexplained", "form", "wildcard-then-filter"), fmt.Sprintf("Query(%s) on %s = %s; last is the last index of $.a (%d): [%s] (error: %v)", form, docText, o.Summary(), n-1, strings.Join(want, " | "), wantErr), h.Case{Kind: "nested", Path: form, Doc: docText})
						} else {
							c.Held("last")
						}
					}
				}
			}
		}
	}
	// strict mode below .**: only member accessors skip what they do not apply
	// to; a subscript on a non-array stays the structural error, it does not
	// turn the value into a one-element array (that is lax mode)
	for _, d := range []string{"null", "0", `"s"`, "{}", `{"a":1}`, "true", `{"a":{"b":2}}`} {
		for _, pre := range []string{"$.**{0}", "$.**", "$.**{0 to 1}", "$.**{last}", "$.*.**{0}"} {
			for _, s := range singles {
				idx++
				if !c.Mine(idx) {
					continue
				}
				ptxt := "strict " + pre + "[" + s.text() + "]"
				p := cachedPath(ptxt)
				if p == nil {
					continue
				}
				if pre == "$.*.**{0}" && (d[0] != '{' || d == "{}") {
					continue // $.* fails or selects nothing first
				}
				if pre == "$.**{last}" && (d[0] != '{' || d == "{}") {
					continue // no leaves: nothing reaches the subscript
				}
				o := h.Call("query", p, h.Decode(d, false), h.Opts{})
				c.Eval(1)
				c.Distinct(ptxt, d)
				if o.Class == h.Soft {
					c.Held("strict.below-any")
				} else if o.Class != h.Panic && o.Class != h.Invalid {
					c.Violate("strict.below-any", h.F("got", o.Class), fmt.Sprintf("Query(%s) on %s = %s; a strict subscript applied to a non-array is a structural error", ptxt, d, o.Summary()), h.Case{Kind: "belowany", Path: ptxt, Doc: d})
				}
			}
		}
	}
	// bad subscripts: not a single number within int32 range -> error in both modes
	bad := []string{`"a"`, "true", "null", "$.nokey", "$[*]", "$", "2147483648", "-2147483649", "1e10", "$.a", "(1, 2)", `"1"`, "$[0 to 1]", "9223372036854775807", "$ ? (@ == 99)",
		// an array holding one number is not a number (no unwrapping of the subscript's value)
		"$one", "$[last].one", "$two", "$none", "$nested",
		// a literal is the head of a chain like any other: what the chain yields is the subscript
		// exactly one number, and then a failure: not a single number either
		"$[0 to 1].double()", "$[0,1].integer()", "$[0 to last].double()",
		"(0) ? (@ > 5)", "(1).type()", "(0).string()", "(1) ? (@ == 2)", `(0).keyvalue()`, "(1 == 1)", "(0)[1]", "(2147483647).abs() + 1", "(0.5).nokey", "(-2147483648).abs()", "(1).boolean()"}
	docs := []string{`[1,2,3]`, `[[1,2],3]`, `[]`, `[null]`, `{"a":"x"}`, `[1,2,{"one":[1]}]`, `[1,"x",3]`}
	for _, b := range bad {
		for _, d := range docs {
			for _, lax := range []bool{true, false} {
				for _, form := range []string{"$[%s]", "$[0, %s]", "$[%s to 1]", "$[0 to %s]", "$[7 to %s]", "$[last + 1 to %s]", "$[0, 9 to %s]", "$[%s to %s]"} {
					idx++
					if !c.Mine(idx) {
						continue
					}
					ptxt := strings.ReplaceAll(form, "%s", b)
					if !lax {
						ptxt = "strict " + ptxt
					}
					p := cachedPath(ptxt)
					if p == nil {
						continue
					}
					o := h.Call("query", p, h.Decode(d, false), h.Opts{Vars: map[string]any{"one": []any{1.0}, "two": []any{0.0, 1.0}, "none": []any{}, "nested": []any{[]any{0.0}}}})
					c.Eval(1)
					cs := h.Case{Kind: "badsubscript", Path: ptxt, Doc: d}
					if b == "$[last].one" && d != `[1,2,{"one":[1]}]` {
						continue
					}
					// strict + non-array document: the array-accessor error comes first (also suppressible)
					if o.Class == h.Soft {
						c.Held("badsubscript")
						// ... and with the error suppressed the subscript still selects
						// nothing (silently, and inside a filter condition)
						if strings.HasPrefix(form, "$[%s") {
							os := h.Call("query", p, h.Decode(d, false), h.Opts{Silent: true, Vars: map[string]any{"one": []any{1.0}, "two": []any{0.0, 1.0}, "none": []any{}, "nested": []any{[]any{0.0}}}})
							pfl := cachedPath(strings.Replace(strings.Replace(ptxt, "$[", "$ ? (exists(@[", 1), "]", "]))", 1))
							c.Eval(1)
							scs := cs
							scs.Silent = true
							if os.Class != h.OK || len(os.Items) != 0 {
								c.Violate("badsubscript", h.F("mode", modeName(lax), "got", os.Class, "form", "silent"), fmt.Sprintf("silent Query(%s) on %s = %s; the subscript fails, so nothing is selected", ptxt, d, os.Summary()), scs)
							} else {
								c.Held("badsubscript")
							}
							_ = pfl
						}
					} else if b == "$.a" && d == `{"a":"x"}` || o.Class == h.Panic || o.Class == h.Invalid {
						c.Skip("badsubscript", "other-property")
					} else if lax && d == `{"a":"x"}` && (b == "$.a") {
						c.Skip("badsubscript", "n/a")
					} else {
						c.Violate("badsubscript", h.F("mode", modeName(lax), "got", o.Class), fmt.Sprintf("Query(%s) on %s = %s; a subscript that is not a single number within int32 range must be a suppressible error", ptxt, d, o.Summary()), cs)
					}
				}
			}
		}
	}
	// nested subscripts: last of the innermost array
	nested := []struct{ p, d, want string }{
		{"$[last][last]", `[[1,2],[3,4,5]]`, "[#5]"},
		{"$[$[0]]", `[1,"x"]`, `["x"]`},
		{"$[$[last]]", `[5,6,0]`, "[#5]"},
		{"$[last - $[0]]", `[1,7,8]`, "[#7]"},
		{"$[$[last] to last]", `[9,8,1]`, "[#8 | #1]"},
		{"$[0][last]", `[[1,2,3],9]`, "[#3]"},
		{"$[*][last]", `[[1,2],[3]]`, "[#2 | #3]"},
		{"$[last].a[last]", `[0,{"a":[4,5]}]`, "[#5]"},
		{"$[$.size() - 1]", `[1,2,3]`, "[#3]"},
		{"$[$[1][last]]", `[7,[0,0]]`, "[#7]"},
		{"$[0 to $[last]][last]", `[[1,2],[3,4],1]`, "[#2 | #4]"},
		// a subscript expression that tries several candidates and keeps one:
		// it is one number, whichever candidate it was
		{"$.a[$.idx[0, 1] ? (@ >= 2)]", `{"a":[10,20,30],"idx":[2,0]}`, "[#30]"},
		{"$.a[$.idx[0, 1] ? (@ >= 2)]", `{"a":[10,20,30],"idx":[0,2]}`, "[#30]"},
		{"$.a[$.idx[0 to 1] ? (@ < 2)]", `{"a":[10,20,30],"idx":[1,5]}`, "[#20]"},
		{"$.a[$.recs[0 to 1] ? (exists(@.pos)).pos]", `{"a":[10,20,30],"recs":[{"pos":1},{"x":0}]}`, "[#20]"},
		{"$.a[0 to $.idx[0, 1] ? (@ >= 2)]", `{"a":[10,20,30],"idx":[2,0]}`, "[#10 | #20 | #30]"},
		{"$.a[$.idx[last, 0] ? (@ > 0)]", `{"a":[10,20,30],"idx":[1,0]}`, "[#20]"},
		// a subscript expression that fails (quietly, inside a filter) for one item
		// after it had produced a number: the next item's subscript starts afresh
		{"$[*] ? (@.a[+@.i] == 10).id", `[{"id":"bad","a":[10,20],"i":[1,"x"]},{"id":"zero","a":[10,20],"i":0}]`, `["zero"]`},
		{"$[*] ? (@.a[+@.i] == 20).id", `[{"id":"bad","a":[10,20],"i":[1,"x"]},{"id":"none","a":[10,20],"i":[]}]`, `[]`},
		{"$[*] ? (@.a[@.i[*].double()] == 20).id", `[{"id":"bad","a":[10,20],"i":[1,"x"]},{"id":"one","a":[10,20],"i":[1]},{"id":"none","a":[10,20],"i":[]}]`, `["one"]`},
		{"$[*] ? (exists(@.a[0 to @.i[*].double()])).id", `[{"id":"bad","a":[10,20],"i":[1,"x"]},{"id":"none","a":[10,20],"i":[]},{"id":"one","a":[10,20],"i":[1]}]`, `["one"]`},
	}
	for i, nc := range nested {
		if !c.Mine(i) {
			continue
		}
		for _, mode := range []string{"", "strict "} {
			p := cachedPath(mode + nc.p)
			if p == nil {
				continue
			}
			o := h.Call("query", p, h.Decode(nc.d, false), h.Opts{})
			c.Eval(1)
			got := ""
			if o.Class == h.OK {
				gs := make([]string, len(o.Items))
				for i, it := range o.Items {
					gs[i] = canonJSON(it)
				}
				got = "[" + strings.Join(gs, " | ") + "]"
			}
			if got != nc.want {
				c.Violate("last", h.F("cause", "nested", "mode", mode), fmt.Sprintf("Query(%s%s) on %s = %s, want %s", mode, nc.p, nc.d, o.Summary(), nc.want), h.Case{Kind: "nested", Path: mode + nc.p, Doc: nc.d})
			} else {
				c.Held("last")
			}
		}
	}
	// the same subscript node evaluated against several arrays in one query: $[*][...]
	// (expected: the concatenation of the per-array results; strict fails if any array fails)
	rr := c.Rand("c14-multi")
	nm := c.PerShard(c.N(400000, 4000000))
	for i := 0; i < nm; i++ {
		k := 2 + rr.IntN(2)
		var inner [][]string
		var parts []string
		for j := 0; j < k; j++ {
			a := arrays[rr.IntN(len(arrays))].elems
			inner = append(inner, a)
			parts = append(parts, "["+strings.Join(a, ",")+"]")
		}
		ns := 1 + rr.IntN(2)
		subs := make([]sub, ns)
		for j := range subs {
			subs[j].from = c14Bounds[rr.IntN(len(c14Bounds))]
			if rr.IntN(2) == 0 {
				b := c14Bounds[rr.IntN(len(c14Bounds))]
				subs[j].to = &b
			}
		}
		lax := rr.IntN(4) != 0
		sp := make([]string, len(subs))
		for j, sb := range subs {
			sp[j] = sb.text()
		}
		ptxt := "$[*][" + strings.Join(sp, ", ") + "]"
		if !lax {
			ptxt = "strict " + ptxt
		}
		p := cachedPath(ptxt)
		if p == nil {
			continue
		}
		docText := "[" + strings.Join(parts, ",") + "]"
		var want []string
		fails := false
		for _, a := range inner {
			pos, ok := sliceOracle(len(a), subs, lax)
			if !ok {
				fails = true
				break
			}
			for _, ix := range pos {
				want = append(want, canonElem(a[ix]))
			}
		}
		o := h.Call("query", p, h.Decode(docText, false), h.Opts{})
		c.Eval(1)
		c.Distinct(ptxt, docText)
		cs := h.Case{Kind: "multi", Path: ptxt, Doc: docText}
		if o.Class == h.Panic || o.Class == h.Invalid {
			continue
		}
		got := ""
		if o.Class == h.OK {
			gs := make([]string, len(o.Items))
			for j, it := range o.Items {
				gs[j] = canonJSON(it)
			}
			got = strings.Join(gs, " | ")
		}
		wantS := strings.Join(want, " | ")
		good := (fails && o.Class == h.Soft) || (!fails && o.Class == h.OK && got == wantS)
		if good {
			c.Held("list")
			continue
		}
		cause := "unexplained"
		if o.Class == h.OK && !fails {
			var nn []string
			for _, w := range want {
				if w != "null" {
					nn = append(nn, w)
				}
			}
			if got == strings.Join(nn, " | ") {
				cause = "subscript-skips-null"
			}
		}
		cl := "list"
		if cause == "subscript-skips-null" {
			cl = "null-elements"
		}
		c.Violate(cl, h.F("cause", cause, "mode", modeName(lax), "form", "multi-array"), fmt.Sprintf("Query(%s) on %s = %s; slice arithmetic per array gives [%s] (fails: %v)", ptxt, docText, o.Summary(), wantS, fails), cs)
	}
	// a subscript list with steps after it: every element the list selects is
	// handed on, whether all items are asked for, the first one, or only whether
	// there is one (an earlier subscript's match is not undone by a later one)
	{
		rc := c.Rand("c14-continued")
		elemsAlpha := []string{`{"a":1}`, `{"b":2}`, `{"a":{"b":3}}`, `[7,8]`, `6`, `"s"`, `{"a":[9]}`, `{"a":7,"b":0}`, `[]`, `[{"a":4}]`}
		conts := []string{".a", "[0]", " ? (@ > 5)", ".a.b", ".a[0]", ".size()", ".a ? (@ > 3)", "[0].a", ".b", " ? (exists(@.a))"}
		nc := c.PerShard(c.N(60000, 600000))
		for i := 0; i < nc; i++ {
			n := 2 + rc.IntN(4)
			els := make([]string, n)
			for j := range els {
				els[j] = elemsAlpha[rc.IntN(len(elemsAlpha))]
			}
			ns := 2 + rc.IntN(2)
			sp := make([]string, ns)
			for j := range sp {
				sb := sub{from: c14Bounds[rc.IntN(len(c14Bounds))]}
				if rc.IntN(3) == 0 {
					b := c14Bounds[rc.IntN(len(c14Bounds))]
					sb.to = &b
				}
				sp[j] = sb.text()
			}
			lax := rc.IntN(3) != 0
			mode := map[bool]string{true: "", false: "strict "}[lax]
			acc := "[" + strings.Join(sp, ", ") + "]"
			cont := conts[rc.IntN(len(conts))]
			docText := "[" + strings.Join(els, ",") + "]"
			ptxt := mode + "$" + acc + cont
			p := cachedPath(ptxt)
			pin := cachedPath(mode + "$ ? (exists(@.w" + acc + cont + "))")
			if p == nil || pin == nil {
				c.Count("gen.unparsable", 1)
				continue
			}
			o := h.Call("query", p, h.Decode(docText, false), h.Opts{})
			c.Eval(1)
			if o.Class != h.OK {
				c.Skip("continued", "query-fails")
				continue
			}
			c.Distinct(ptxt, docText)
			cs := h.Case{Kind: "nested", Path: ptxt, Doc: docText}
			oe := h.Call("exists", p, h.Decode(docText, false), h.Opts{})
			of := h.Call("first", p, h.Decode(docText, false), h.Opts{})
			oi := h.Call("query", pin, h.Decode(`{"w":`+docText+`}`, false), h.Opts{})
			c.Eval(3)
			var first any
			if len(o.Items) > 0 {
				first = o.Items[0]
			}
			switch {
			case oe.Class == h.Panic || of.Class == h.Panic || oi.Class == h.Panic:
				c.Skip("continued", "panic-is-C05")
			case oe.Class != h.OK || oe.Bool != (len(o.Items) > 0):
				c.Violate("exists-agrees", h.F("mode", modeName(lax), "form", "continued", "entry", "exists"), fmt.Sprintf("Query(%s) on %s = %s but Exists = %s", ptxt, docText, o.Summary(), oe.Summary()), cs)
			case of.Class != h.OK || canonJSON(of.Val) != canonJSON(first):
				c.Violate("exists-agrees", h.F("mode", modeName(lax), "form", "continued", "entry", "first"), fmt.Sprintf("Query(%s) on %s = %s but First = %s", ptxt, docText, o.Summary(), of.Summary()), cs)
			case oi.Class != h.OK || (len(oi.Items) > 0) != (len(o.Items) > 0):
				ics := cs
				ics.Path, ics.Doc = mode+"$ ? (exists(@.w"+acc+cont+"))", `{"w":`+docText+`}`
				c.Violate("exists-agrees", h.F("mode", modeName(lax), "form", "continued", "entry", "exists()-in-filter"), fmt.Sprintf("Query(%s) on %s = %s but Query(%s) = %s", ptxt, docText, o.Summary(), ics.Path, oi.Summary()), ics)
			default:
				c.Held("exists-agrees")
				c.Held("continued")
			}
		}
	}
	// ranges over thousands of elements, the context becoming done between two
	// of the executor's polls: the accessor fails or selects what the range
	// selects - a result with a nil error is the complete one
	{
		els := make([]string, 3000)
		for i := range els {
			els[i] = fmt.Sprint(i)
		}
		docText := `{"a":[` + strings.Join(els, ",") + `]}`
		k := 0
		for _, pt := range []string{`$.a[0 to last]`, `strict $.a[1, 5 to 2500]`, `$.a[last - 2999 to last]`, `$.a[0 to 1500, 1000 to last]`, `strict $.a[2 to 2047]`, `$.a[1020 to 1030]`} {
			for _, entry := range []string{"query", "first", "exists"} {
				for _, silent := range []bool{false, true} {
					k++
					if !c.Mine(k) {
						continue
					}
					p := cachedPath(pt)
					if p == nil {
						continue
					}
					opts := h.Opts{Silent: silent}
					base := h.Call(entry, p, h.Decode(docText, false), opts)
					c.Eval(1)
					for n := 1; n <= base.Polls; n++ {
						for _, cause := range []error{context.Canceled, context.DeadlineExceeded} {
							m := &h.CallMon{CancelAt: -1, CancelAfterPoll: n, Cause: cause}
							o := h.CallMonitored(entry, p, h.Decode(docText, false), opts, m)
							c.Eval(1)
							cs := h.Case{Kind: "long-range", Path: pt, Entry: entry, Silent: silent, Extra: map[string]string{"after-poll": fmt.Sprint(n)}}
							switch {
							case o.Class == h.Panic:
								c.Skip("range", "panic-is-C05")
							case o.Err == nil && o.Summary() != base.Summary():
								c.Violate("range", h.F("kind", "cut-short", "entry", entry, "mode", modeName(!strings.HasPrefix(pt, "strict "))), fmt.Sprintf("%s(%s) on an array of 3000 elements, the context becoming done after poll %d of %d: nil error and %d items; undisturbed: %d items", entry, pt, n, base.Polls, len(o.Items), len(base.Items)), cs)
							default:
								c.Held("range")
							}
						}
					}
				}
			}
		}
	}
	// an array of length 0 that is a nil slice (a value built in Go, not decoded)
	// is the empty array: every accessor answers as for []any{}
	{
		var nilArr []any
		k := 0
		for _, pt := range []string{`$[0]`, `$[last]`, `$[0 to last]`, `$[-1 to 3]`, `$[0,0]`, `strict $[0]`, `strict $[last]`, `$[*]`, `$.size()`, `$.a[0]`, `strict $.a[0 to 1]`, `$.a[last].type()`, `$x[0]`, `strict $x[last]`, `$[1][0]`, `$[*][0]`, `$ ? (exists(@[0]))`, `$.a ? (@.size() == 0)`, `$[0 to last].size()`} {
			k++
			if !c.Mine(k) {
				continue
			}
			p := cachedPath(pt)
			if p == nil {
				continue
			}
			for di := 0; di < 3; di++ {
				mk := func(arr []any) any {
					switch di {
					case 0:
						return arr
					case 1:
						return map[string]any{"a": arr}
					}
					return []any{1.0, arr}
				}
				for _, silent := range []bool{false, true} {
					for _, e := range []string{"query", "exists", "first"} {
						on := h.Call(e, p, mk(nilArr), h.Opts{Silent: silent, Vars: map[string]any{"x": nilArr}})
						oe := h.Call(e, p, mk([]any{}), h.Opts{Silent: silent, Vars: map[string]any{"x": []any{}}})
						c.Eval(2)
						if on.Class == h.Panic || oe.Class == h.Panic {
							continue
						}
						if on.Summary() != oe.Summary() {
							c.Violate("single", h.F("kind", "nil-slice", "entry", e), fmt.Sprintf("%s(%s) with the empty array given as a nil slice (%s): %s; given as []any{}: %s", e, pt, []string{"document", "member a", "element 1"}[di], on.Summary(), oe.Summary()), h.Case{Kind: "nil-slice", Path: pt, Entry: e, Silent: silent})
						} else {
							c.Held("single")
						}
					}
				}
			}
		}
	}
	// random larger cases
	r := c.Rand("c14")
	nr := c.PerShard(c.N(1000000, 10000000))
	elemsAll := []string{"null", "0", "1", `"s"`, "[]", "[1,2]", "{}", `{"a":1}`, "true", "1.5", "-3"}
	big := []bound{{text: "2147483647", val: 2147483647}, {text: "-2147483648", val: -2147483648}, {text: "100", val: 100}, {text: "-100", val: -100}, {text: "11.7", val: 11.7}, {text: "-1.9", val: -1.9}, {text: "2e1", val: 20}, {text: "1e0", val: 1},
		{text: "2147483647.9", val: 2147483647.9}, {text: "-2147483648.5", val: -2147483648.5}, {text: "2147483646.5", val: 2147483646.5}, {text: "2147483647 + 0.5", val: 2147483647.5},
		// fractions next to an integer: the position is still the truncation
		{text: "1.9999999999", val: 1.9999999999}, {text: "-0.9999999999", val: -0.9999999999}, {text: "3.9999999999", val: 3.9999999999}, {text: "0.9999999999999999", val: 0.9999999999999999},
		{text: "2.0000000001", val: 2.0000000001}, {text: "last - 0.0000000001", last: true, offset: -1e-10}, {text: "last + 0.9999999999", last: true, offset: 0.9999999999}, {text: "-0.0000000001", val: -1e-10}, {text: "5.999999999999", val: 5.999999999999},
		// literals heading a chain: the subscript is what the chain yields
		{text: "(-1).abs()", val: 1}, {text: "(1.9).floor()", val: 1}, {text: "(0.5).ceiling()", val: 1}, {text: "(2) ? (@ > 1)", val: 2}, {text: "(-2).abs().double()", val: 2}, {text: "(3).number()", val: 3}, {text: "(0).abs()", val: 0},
		{text: `"4".integer()`, val: 4}, {text: "(5 - 3)", val: 2}, {text: "(-5).abs() - 3", val: 2}, {text: "(2.5).decimal(1,0)", val: 3}, {text: "(-0.5).ceiling()", val: 0}}
	allB := append(append([]bound{}, c14Bounds...), big...)
	for i := 0; i < nr; i++ {
		n := r.IntN(13)
		el := make([]string, n)
		for j := range el {
			el[j] = elemsAll[r.IntN(len(elemsAll))]
		}
		k := 1 + r.IntN(4)
		subs := make([]sub, k)
		for j := range subs {
			subs[j].from = allB[r.IntN(len(allB))]
			if r.IntN(2) == 0 {
				b := allB[r.IntN(len(allB))]
				subs[j].to = &b
			}
		}
		checkSubscripts(c, "["+strings.Join(el, ",")+"]", true, el, subs, r.IntN(2) == 0, r.IntN(2) == 0)
	}
}
