// Package props holds one workload + oracle per property.
package props

import "verif/internal/h"

// Prop describes one property check.
type Prop struct {
	ID    string
	Level string // exploration | fault_enumeration
	Rule  string // how cases are generated and what makes one non-trivial/distinct
	// Run executes this shard's part of the workload.
	Run func(c *h.Ctx)
	// Replay re-checks a single recorded case; violations are recorded on c.
	Replay func(c *h.Ctx, cs h.Case)
	// MinExercised lists clauses that must have been exercised at least that
	// many times (summed over shards) or the run is inconclusive.
	MinExercised map[string]int64
	// Shards overrides the number of worker processes (0 = default 16).
	Shards func(tier string) int
	// Assumptions recorded in the evidence file.
	Assumptions []string
}

var Registry = map[string]*Prop{}

func register(p *Prop) { Registry[p.ID] = p }
