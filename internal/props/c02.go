package props

import (
	"fmt"
	"math"
	"math/rand/v2"
	"strings"
	"sync"
	"unicode/utf16"
	"unicode/utf8"

	"github.com/theory/sqljson/path"

	"verif/internal/gen"
	"verif/internal/h"
)

func init() {
	register(&Prop{
		ID:    "C02",
		Level: "exploration",
		Rule: "every path the parser accepts from: the exhaustive operator-pair x side x trailing-accessor-chain matrix; every code point in a boundary set (all of U+0001..U+2FFF, surrogate edges, U+FFFD..U+10000, U+10FFFF; thorough: every Unicode scalar value) as key, string literal and variable name; numeric literals over the boundary grid in every spelling; every .** bound combination; every regex flag subset; random generated paths in random spellings. " +
			"Relation: p vs Parse(p.String()) - parse succeeds, fixed point, same mode/predicate flag/tree, same typed results on generated documents - and the same through MarshalText/UnmarshalText, MarshalBinary/UnmarshalBinary, Value/Scan(string), Scan([]byte), with the byte buffer that was handed in overwritten afterwards (a reader reusing its buffer) and, for canonical texts that contain an escape, re-read by four goroutines at once. Non-trivial: the canonical text differs from the input text; distinct by canonical text",
		Run:          runC02,
		Replay:       replayC02,
		MinExercised: map[string]int64{"reparse": 20000, "fixpoint": 20000, "tree": 20000, "behaviour": 5000, "marshal.text": 20000, "marshal.binary": 20000, "sql.value-scan": 20000},
		Assumptions:  []string{"quantifies over paths accepted by Parse (trees built directly with the ast constructors are out of scope); results compared including the Go type of numbers"},
	})
}

// roundTrip checks one accepted path.
// violateRT records a round-trip violation, attributed to recorded printer defects where they explain it.
func violateRT(c *h.Ctx, p *path.Path, clause string, feat map[string]string, detail string, cs h.Case) {
	if feat["kind"] == "panic" {
		c.Violate(clause, feat, detail, cs)
		return
	}
	causes := attribute(p)
	if causes == nil {
		feat["cause"] = "unexplained"
		c.Violate(clause, feat, detail, cs)
		return
	}
	for _, one := range causes {
		c.Violate(clause, h.F("cause", one), detail, cs)
	}
}

var c02Seq int

func roundTrip(c *h.Ctx, p *path.Path, src string, docs []string, r *rand.Rand) {
	c.Eval(1)
	cs := inputCase(src, "")
	cs.Kind = "roundtrip"
	var s1 string
	pan := h.Guard(func() { s1 = p.String() })
	if pan != "" {
		c.Skip("reparse", "String-panics-is-C04")
		return
	}
	if s1 != src {
		c.Distinct(s1)
	}
	cs.Extra = map[string]string{"canonical": s1}
	t1 := gen.FromAST(p.AST).Sexp()
	p2, err, pp := h.ParseSafe(s1)
	if pp != "" {
		c.Violate("reparse", h.F("kind", "panic"), fmt.Sprintf("Parse(String()) panicked on %q: %s", s1, pp), cs)
		return
	}
	if err != nil {
		violateRT(c, p, "reparse", h.F("kind", classifyPrint(t1, s1)), fmt.Sprintf("String() = %q is rejected: %v", s1, err), cs)
		return
	}
	c.Held("reparse")
	s2 := p2.String()
	if s2 != s1 {
		violateRT(c, p, "fixpoint", h.F("kind", classifyPrint(t1, s1)), fmt.Sprintf("String() = %q but Parse(String()).String() = %q", s1, s2), cs)
	} else {
		c.Held("fixpoint")
	}
	t2 := gen.FromAST(p2.AST).Sexp()
	if t1 != t2 {
		violateRT(c, p, "tree", h.F("kind", diffKind(t1, t2)), fmt.Sprintf("String() = %q re-parses to %s; original tree %s", s1, t2, t1), cs)
	} else {
		c.Held("tree")
	}
	// the canonical text keeps meaning this path whatever was done to a Path
	// that an earlier Parse of the same text returned (here: reused as the
	// destination of another path's text)
	c02Seq++
	if c02Seq%7 == 0 && t1 == t2 {
		if d, err := path.Parse(s1); err == nil {
			other := []string{`strict $.c02."reused"[last] ? (@ > 16)`, `$.tags[*]`, `$.price > 10`}[c02Seq/7%3]
			if d.UnmarshalText([]byte(other)) == nil {
				p3, err3, pan3 := h.ParseSafe(s1)
				switch {
				case pan3 != "" || err3 != nil:
					c.Violate("reparse", h.F("kind", "after-reuse"), fmt.Sprintf("String() = %q parsed before; after the Path that Parse returned for it was reused for %q it is rejected: %v %s", s1, other, err3, pan3), cs)
				case gen.FromAST(p3.AST).Sexp() != t1:
					c.Violate("tree", h.F("kind", "after-reuse"), fmt.Sprintf("String() = %q re-parses to %s after the Path an earlier Parse of it returned was reused for %q; original tree %s", s1, gen.FromAST(p3.AST).Sexp(), other, t1), cs)
				default:
					c.Held("tree")
				}
			}
		}
	}
	if p.IsLax() != p2.IsLax() || p.IsPredicate() != p2.IsPredicate() {
		violateRT(c, p, "flags", h.F("kind", "mode-or-pred"), fmt.Sprintf("mode/predicate flag changed by the round trip of %q", s1), cs)
	} else {
		c.Held("flags")
	}
	// marshalling routes
	routes := []struct {
		clause string
		f      func() (*path.Path, error)
	}{
		{"marshal.text", func() (*path.Path, error) {
			b, err := p.MarshalText()
			if err != nil {
				return nil, err
			}
			rtHold(c, 0, b, cs)
			q := rtDest(s1, 0)
			in := append([]byte(nil), b...)
			err = q.UnmarshalText(in)
			rtScribble(in) // the reader reuses its buffer (bufio.Scanner, a database driver)
			return q, err
		}},
		{"marshal.binary", func() (*path.Path, error) {
			b, err := p.MarshalBinary()
			if err != nil {
				return nil, err
			}
			rtHold(c, 1, b, cs)
			q := rtDest(s1, 1)
			in := append([]byte(nil), b...)
			err = q.UnmarshalBinary(in)
			rtScribble(in)
			return q, err
		}},
		{"sql.value-scan", func() (*path.Path, error) {
			v, err := p.Value()
			if err != nil {
				return nil, err
			}
			q := rtDest(s1, 2)
			if err := q.Scan(v); err != nil {
				return nil, err
			}
			s, _ := v.(string)
			q2 := rtDest(s1, 3)
			in := []byte(s)
			if err := q2.Scan(in); err != nil {
				return nil, err
			}
			rtScribble(in)
			if q2.AST == nil || q.AST == nil || q2.String() != q.String() {
				return nil, fmt.Errorf("Scan(string) and Scan([]byte) disagree")
			}
			return q, nil
		}},
	}
	for _, rt := range routes {
		var q *path.Path
		var rerr error
		pan := h.Guard(func() { q, rerr = rt.f() })
		switch {
		case pan != "":
			c.Violate(rt.clause, h.F("kind", "panic"), fmt.Sprintf("%s route panicked for %q: %s", rt.clause, s1, firstLine(pan)), cs)
		case rerr != nil:
			violateRT(c, p, rt.clause, h.F("kind", classifyPrint(t1, s1)), fmt.Sprintf("%s route fails for %q: %v", rt.clause, s1, rerr), cs)
		case q == nil || q.AST == nil:
			c.Violate(rt.clause, h.F("kind", "empty"), fmt.Sprintf("%s route left the path empty for %q", rt.clause, s1), cs)
		case gen.FromAST(q.AST).Sexp() != t1 || q.String() != s1:
			violateRT(c, p, rt.clause, h.F("kind", classifyPrint(t1, s1)), fmt.Sprintf("%s route changes the path: %q -> %q", rt.clause, s1, q.String()), cs)
		default:
			c.Held(rt.clause)
		}
	}
	rtAfter(c, cs)
	rtConcurrent(c, s1, s2, t2, cs)
	// behaviour on documents (typed comparison)
	if len(docs) > 0 && t1 == t2 {
		return // same tree: same behaviour; spend the executions where the tree differs or on a sample
	}
	if strings.Contains(s1, "keyvalue") && strings.Contains(s1, ".*") {
		// the members of a keyvalue triple are expanded in an unspecified
		// order, so two executions of even the same path may differ
		c.Skip("behaviour", "keyvalue-triple-member-order")
		return
	}
	for _, d := range docs {
		useNum := r.IntN(2) == 0
		o1 := h.Call("query", p, h.Decode(d, useNum), h.Opts{Vars: h.DecodeVars(stdVars1, useNum), TZ: true})
		o2 := h.Call("query", p2, h.Decode(d, useNum), h.Opts{Vars: h.DecodeVars(stdVars1, useNum), TZ: true})
		c.Eval(2)
		if o1.Class == h.Panic || o2.Class == h.Panic {
			continue
		}
		same := o1.Class == o2.Class && (o1.Class != h.OK || h.CanonListTyped(o1.Items) == h.CanonListTyped(o2.Items))
		if strings.Contains(s1, "keyvalue") || strings.Contains(s1, ".*") {
			same = o1.Class == o2.Class // ids and member order
		}
		if !same {
			bcs := cs
			bcs.Doc = d
			bcs.UseNum = useNum
			violateRT(c, p, "behaviour", h.F("kind", classifyPrint(t1, s1)), fmt.Sprintf("%q on %s: original %s; re-parsed %s", s1, d, typedSummary(o1), typedSummary(o2)), bcs)
			return
		}
		c.Held("behaviour")
	}
	// a path that has been executed still prints what it printed before
	if after := p.String(); after != s1 {
		c.Violate("fixpoint", h.F("kind", "print-changed-by-use"), fmt.Sprintf("String() = %q before the path was executed, %q after", s1, after), cs)
	}
}

// rtConcurrent: reading a stored path back is something many goroutines do at
// once (a connection pool scanning rows, handlers loading configuration), and
// each of them must get the path that was written. Canonical texts that
// contain an escape are collected; every rtBatchSize of them are re-read by
// four goroutines at the same time, through Parse and UnmarshalText, and each
// result is compared with the tree and the text the sequential read gave.
const rtBatchSize = 32

type rtItem struct {
	text, print, tree string // the text, and what its sequential read prints and is
	cs                h.Case
}

var rtBatch []rtItem

func rtConcurrent(c *h.Ctx, s1, s2, t2 string, cs h.Case) {
	if !strings.Contains(s1, `\u`) {
		return
	}
	rtBatch = append(rtBatch, rtItem{s1, s2, t2, cs})
	if len(rtBatch) < rtBatchSize {
		return
	}
	batch := rtBatch
	rtBatch = nil
	var mu sync.Mutex
	var bad []string
	var badCase []h.Case
	var wg sync.WaitGroup
	for gi := 0; gi < 4; gi++ {
		wg.Add(1)
		go func(gi int) {
			defer wg.Done()
			for rep := 0; rep < 3; rep++ {
				for k := range batch {
					it := batch[(k*7+gi*5+rep)%len(batch)]
					var q *path.Path
					var err error
					pan := h.Guard(func() {
						if (k+gi)%2 == 0 {
							q, err = path.Parse(it.text)
						} else {
							q = new(path.Path)
							err = q.UnmarshalText([]byte(it.text))
						}
					})
					msg := ""
					switch {
					case pan != "":
						msg = "panicked: " + firstLine(pan)
					case err != nil:
						msg = "failed: " + err.Error()
					case q.String() != it.print:
						msg = fmt.Sprintf("gave a path that prints %q", q.String())
					case gen.FromAST(q.AST).Sexp() != it.tree:
						msg = "gave the tree " + gen.FromAST(q.AST).Sexp() + ", not " + it.tree
					}
					if msg != "" {
						mu.Lock()
						bad = append(bad, fmt.Sprintf("reading %q back while three other goroutines read other paths back %s", it.text, msg))
						badCase = append(badCase, it.cs)
						mu.Unlock()
						return
					}
				}
			}
		}(gi)
	}
	wg.Wait()
	c.Eval(4 * 3 * len(batch))
	if len(bad) > 0 {
		c.Violate("reparse.concurrent", h.F("kind", "differs-from-sequential"), bad[0], badCase[0])
		return
	}
	c.Held("reparse.concurrent")
}

// rtScribble overwrites a buffer that was handed to UnmarshalText /
// UnmarshalBinary / Scan: those must not retain it (encoding.TextUnmarshaler,
// encoding.BinaryUnmarshaler and sql.Scanner all say the callee copies what it
// keeps), so the decoded path must not change. Digits stay digits and letters
// letters, so that a retained view still looks like a token.
func rtScribble(b []byte) {
	for i, ch := range b {
		switch {
		case ch >= '0' && ch <= '9':
			b[i] = '0' + (ch-'0'+6)%10
		case ch >= 'a' && ch <= 'z':
			b[i] = 'a' + (ch-'a'+7)%26
		case ch >= 'A' && ch <= 'Z':
			b[i] = 'A' + (ch-'A'+7)%26
		default:
			b[i] = '#'
		}
	}
}

// rtDest is the destination a marshal / Scan route decodes into: a zero Path
// or, every other time, a Path that already holds another parsed path (a
// reused struct field, the previous row of a scan loop) - nothing of which
// may survive.
func rtDest(s string, salt int) *path.Path {
	if (len(s)+salt)%2 == 0 {
		return new(path.Path)
	}
	if rtOrig == nil {
		rtOrig = path.MustParse(rtOrigSrc)
		rtOrigText = rtOrig.String()
	}
	q := *rtOrig // a value copy, as a caller keeping a snapshot (or appending to a slice) makes
	return &q
}

const rtOrigSrc = `strict $.old ? (@.path > 1 || "text" starts with "t")`

var (
	rtOrig     *path.Path
	rtOrigText string
	// bytes handed out by an earlier MarshalText / MarshalBinary and what they said then
	rtHeldBytes [2][]byte
	rtHeldText  [2]string
)

// rtAfter: decoding into a copy of a Path must leave the Path it was copied
// from alone, and bytes a Marshal call returned belong to the caller - a later
// Marshal must not change them.
func rtAfter(c *h.Ctx, cs h.Case) {
	if rtOrig != nil && rtOrig.String() != rtOrigText {
		c.Violate("marshal.text", h.F("kind", "copy-shares-tree"), fmt.Sprintf("after Scan/Unmarshal into a copy of a Path, the Path it was copied from prints %q (was %q)", rtOrig.String(), rtOrigText), cs)
		rtOrig = nil
	}
}

func rtHold(c *h.Ctx, which int, b []byte, cs h.Case) {
	clause := []string{"marshal.text", "marshal.binary"}[which]
	if rtHeldBytes[which] != nil && string(rtHeldBytes[which]) != rtHeldText[which] {
		c.Violate(clause, h.F("kind", "returned-bytes-changed"), fmt.Sprintf("bytes returned by an earlier Marshal call read %q now, %q when they were returned", rtHeldBytes[which], rtHeldText[which]), cs)
	}
	rtHeldBytes[which], rtHeldText[which] = b, string(b)
}

func typedSummary(o *h.Out) string {
	if o.Class != h.OK {
		return o.Summary()
	}
	return h.CanonListTyped(o.Items)
}

func firstLine(s string) string {
	if i := strings.IndexByte(s, '\n'); i >= 0 {
		return s[:i]
	}
	return s
}

// classifyPrint names the printer feature most likely involved (for signatures).
func classifyPrint(tree, text string) string {
	switch {
	case strings.Contains(text, `\a`) || strings.Contains(text, `\U`) || strings.Contains(text, `\x`) && !strings.Contains(text, `\\x`):
		return "go-only-escape"
	case strings.Contains(tree, "(num "):
		return "numeric-literal"
	}
	return "structure"
}

func behaviourDocs(r *rand.Rand, n int) []string {
	dc := gen.DefaultDocCfg()
	dc.MaxMembers = 1
	out := make([]string, n)
	for i := range out {
		out[i] = gen.Doc(r, dc)
	}
	return out
}

func replayC02(c *h.Ctx, cs h.Case) {
	src := caseInput(cs)
	p, err, pan := h.ParseSafe(src)
	if err != nil || pan != "" {
		c.Note("replay: source no longer parses")
		return
	}
	r := rand.New(rand.NewPCG(1, 2))
	docs := behaviourDocs(r, 12)
	if cs.Doc != "" {
		docs = append([]string{cs.Doc}, docs...)
	}
	roundTripAlways(c, p, src, docs, r)
}

// roundTripAlways is roundTrip with the behaviour comparison forced.
func roundTripAlways(c *h.Ctx, p *path.Path, src string, docs []string, r *rand.Rand) {
	roundTrip(c, p, src, nil, r)
	s1 := p.String()
	p2, err, pp := h.ParseSafe(s1)
	if err != nil || pp != "" {
		return
	}
	cs := inputCase(src, "")
	cs.Kind = "roundtrip"
	if strings.Contains(s1, "keyvalue") && strings.Contains(s1, ".*") {
		// the members of a keyvalue triple are expanded in an unspecified
		// order, so two executions of even the same path may differ
		c.Skip("behaviour", "keyvalue-triple-member-order")
		return
	}
	for _, d := range docs {
		useNum := r.IntN(2) == 0
		o1 := h.Call("query", p, h.Decode(d, useNum), h.Opts{Vars: h.DecodeVars(stdVars1, useNum), TZ: true})
		o2 := h.Call("query", p2, h.Decode(d, useNum), h.Opts{Vars: h.DecodeVars(stdVars1, useNum), TZ: true})
		c.Eval(2)
		if o1.Class == h.Panic || o2.Class == h.Panic {
			continue
		}
		same := o1.Class == o2.Class && (o1.Class != h.OK || h.CanonListTyped(o1.Items) == h.CanonListTyped(o2.Items))
		if strings.Contains(s1, "keyvalue") || strings.Contains(s1, ".*") {
			same = o1.Class == o2.Class
		}
		if !same {
			bcs := cs
			bcs.Doc = d
			bcs.UseNum = useNum
			violateRT(c, p, "behaviour", h.F("kind", classifyPrint(gen.FromAST(p.AST).Sexp(), s1)), fmt.Sprintf("%q on %s: original %s; re-parsed %s", s1, d, typedSummary(o1), typedSummary(o2)), bcs)
			return
		}
		c.Held("behaviour")
	}
}

func runC02(c *h.Ctx) {
	r := c.Rand("c02")
	docs := behaviourDocs(r, c.N(4, 12))
	try := func(txt string) {
		p, err, pan := h.ParseSafe(txt)
		if err != nil || pan != "" {
			c.Count("not-accepted", 1)
			return
		}
		roundTripAlways(c, p, txt, docs[:2], r)
	}
	// (a) operator x operand x side x trailing chain matrix (reuse the C03 precedence trees through every style)
	ops := []string{"+", "-", "*", "/", "%", "==", "!=", "<", "<=", ">", ">=", "&&", "||", "starts with"}
	operands := []string{"$.a", "1", "1.5", "-1", "$v", `"s"`, "(1 + 2)", "(2 * 3)", "(-$.a)", "(+$.b)", "(1 + 2).abs()", "(2 * 3).type()", "(-$.a).floor()", "($.a == 1)", "($.a == 1).type()", "(exists($.a))", "(!($.a == 1))", "(($.a == 1) is unknown)",
		"($.a == 1 && $.b == 2)", "($.a == 1 || $.b == 2)", `($.s like_regex "a")`, `($.s like_regex "a").type()`, `($.s starts with "a")`, "$.a ? (@ > 1)", "$.a[0 to last]", "$.a.**{1 to 2}", "(1).abs()", "(1.5).floor()", "(-1).abs()", "(- (1)).abs()", "(-5)[0].abs()", "(-1.5)[*]", "(-2)[last].type()", "(3)[0]", "(-0.5) ? (@ < 0)",
		"$.a.size()", "$.d.datetime()", "$.n.decimal(5,2)", "null", "true", "last"}
	idx := 0
	for _, op := range ops {
		for _, a := range operands {
			for _, b := range operands {
				idx++
				if !c.Mine(idx) {
					continue
				}
				try(a + " " + op + " " + b)
				try("-" + a)
				try("$ ? (" + a + " " + op + " " + b + ")")
				try("(" + a + " " + op + " " + b + ").type()")
				try("$[" + a + " " + op + " " + b + "]")
				try("exists(" + a + ")")
				try("!(" + a + " " + op + " " + b + ")")
				try("(" + a + " " + op + " " + b + ") is unknown")
				try(a + ` like_regex "x" flag "i"`)
			}
		}
	}
	c.SetExhaustive("operator x operand-shape x side matrix (14 operators x 36 operand shapes squared, in 9 contexts)")
	// (b) string contents: code points as key, string literal, variable name
	var cps []rune
	add := func(lo, hi rune) {
		for x := lo; x <= hi; x++ {
			if x >= 0xd800 && x <= 0xdfff {
				continue
			}
			cps = append(cps, x)
		}
	}
	if c.Thorough() {
		add(1, 0x10ffff)
	} else {
		add(1, 0x2fff)
		add(0xd7f0, 0xe010)
		add(0xfff0, 0x10010)
		add(0x1f600, 0x1f610)
		add(0xe0000, 0xe0080)
		add(0x10fff0, 0x10ffff)
		for i := 0; i < 3000; i++ {
			x := rune(r.IntN(0x110000))
			if x > 0 && !(x >= 0xd800 && x <= 0xdfff) {
				cps = append(cps, x)
			}
		}
	}
	for i, cp := range cps {
		if !c.Mine(i) {
			continue
		}
		s := string(cp)
		if !utf8.ValidString(s) {
			continue
		}
		q := quoteForPath("a" + s + "b")
		try("$." + q)
		try(q + " == $.k")
		try("$" + q)
		// the same code point written with an escape: the printer chooses
		// its own spelling, which the parser must accept again
		var esc string
		switch {
		case cp > 0xffff && i%2 == 0:
			h1, h2 := utf16.EncodeRune(cp)
			esc = fmt.Sprintf(`\u%04x\u%04x`, h1, h2)
		case cp > 0xffff || i%3 == 0:
			esc = fmt.Sprintf(`\u{%x}`, cp)
		default:
			esc = fmt.Sprintf(`\u%04X`, cp)
		}
		try(`$."a` + esc + `b"`)
		if i%8 == 0 {
			try(`"` + esc + `" starts with $."` + esc + `"`)
		}
		if i%16 == 0 {
			try(`$.x like_regex ` + q)
		}
	}
	c.Sample("codepoint", map[string]string{"path": `$."a\u0007b"`})
	// (b1) like_regex patterns with characters that mean something to a
	// formatter, a regex quoter or the path lexer
	for i, pat := range []string{"100%", "a%%b", "%d", "%s%v", "%", "%!", "%[1]d", "^[0-9]+%$", "\\Q", "\\E(", "a\\Eb", "{", "}", "$", "`", "'", "%q", "\\%", "%%%"} {
		if !c.Mine(i) {
			continue
		}
		for _, fl := range []string{"", ` flag "q"`, ` flag "i"`, ` flag "iq"`} {
			try(`$.s like_regex "` + pat + `"` + fl)
			try(`$[*] ? (@ like_regex "` + pat + `"` + fl + ` && @ starts with "` + strings.ReplaceAll(pat, "\\", "") + `")`)
		}
	}
	// (b2) long flat chains: the source needs no parentheses, the canonical
	// text nests one pair per operator - and must still be read back
	for li, n := range []int{60, 130, 200, 300, 600} {
		if !c.Mine(li) {
			continue
		}
		var or, and, sum, mul, mix, steps, filt []string
		for i := 0; i < n; i++ {
			or = append(or, fmt.Sprintf("@.id == %d", i))
			and = append(and, fmt.Sprintf("@.k%d > %d", i%7, i))
			sum = append(sum, fmt.Sprint(i%9+1))
			mul = append(mul, "$.n")
			mix = append(mix, []string{"1", "$.a", "2.5", "(3)"}[i%4])
			steps = append(steps, []string{".a", "[0]", ".*", "[*]", ".b.c", " ? (@ > 1)"}[i%6])
			filt = append(filt, fmt.Sprintf("? (@ != %d)", i))
		}
		try("$[*] ? (" + strings.Join(or, " || ") + ")")
		try("$[*] ? (" + strings.Join(and, " && ") + ")")
		try(strings.Join(or, " || ")[0:0] + "$.n + " + strings.Join(sum, " + "))
		try("strict " + strings.Join(mul, " * ") + " > 0")
		try(strings.Join(mix, " - "))
		try(strings.Join(mix, " / ") + " == 1")
		try("$" + strings.Join(steps, ""))
		try("$.a " + strings.Join(filt, " "))
		try("$[" + strings.Join(sum, ", ") + "]")
		try(strings.Repeat("-", n/10) + "1")
		try(strings.Repeat("!(", n/4) + "$.a == 1" + strings.Repeat(")", n/4))
		try(strings.Repeat("(", n/2) + "$.a" + strings.Repeat(")", n/2) + ".b")
	}
	// (b3) the template of .datetime() is a string like any other
	for i, cp := range cps {
		if i%4 == 0 && c.Mine(i/4) && utf8.ValidString(string(cp)) {
			try("$.datetime(" + quoteForPath("HH24"+string(cp)+"MI") + ")")
		}
	}
	// (c) numeric literals
	for i, nt := range append(append([]string{}, c13Grid...), "4.0", "-.0", ".0", "0.", "1e0", "1E5", "1e+5", "12345678901234567890.0", "0.000001", "0.0000001", "1e21", "1e20", "123456789012345678", "0x10", "0b101", "0o17", "1_000", "1_0.5_0", "-0x10", "00.5") {
		if !c.Mine(i) {
			continue
		}
		for _, form := range []string{"%s", "-%s", "(%s).type()", "$[%s]", "$.a == %s", "%s + 1", "1 - %s", "- %s", "-(%s)", "(%s).abs() + %s"} {
			try(strings.ReplaceAll(form, "%s", nt))
		}
	}
	// (c1) every numeric literal also where only an integer may stand (precision,
	// scale, level): whatever is accepted there is printed so that it is accepted again
	for i, nt := range []string{"0", "6", "9223372036854775807", "9223372036854775808", "99999999999999999999", "1000000000000000000000", "1_000_000_000_000_000_000_000_000", "123456789012345678901234567890", "0x7fffffffffffffff", "0xffffffffffffffffffff", "1e3", "1.0", "2147483648", "0b1" + strings.Repeat("0", 70)} {
		if !c.Mine(i) {
			continue
		}
		for _, form := range []string{"$.a.time(%s)", "$.a.time_tz(%s)", "$.a.timestamp(%s)", "$.a.timestamp_tz(%s)", "$.a.decimal(%s)", "$.a.decimal(10,%s)", "$.a.decimal(10,-%s)", "$.a.decimal(%s,2)", "$.**{%s}", "$.**{1 to %s}", "$.a.decimal(+%s)"} {
			try(strings.ReplaceAll(form, "%s", nt))
		}
	}
	// (c2) a path that is one string literal whose content reads like a path, a
	// JSON text, a number (what a reader "helpfully" decoding quoted values destroys)
	for i, lit := range []string{"$.a", "$", "1", "true", "null", "strict $.a[*] ? (@ > 1)", "$.a == 1", "\"x\"", "{\"a\":1}", "[1]", "lax $", "$\"v\"", "1e3", "", " $.a "} {
		if !c.Mine(i) {
			continue
		}
		q := quoteForPath(lit)
		try(q)
		try(q + ".type()")
		try("$ ? (@ == " + q + ")")
	}
	// (d) .** bounds, (e) regex flags
	for _, a := range []string{"0", "1", "2", "3", "last"} {
		try("$.**{" + a + "}")
		for _, b := range []string{"0", "1", "2", "3", "last"} {
			try("$.**{" + a + " to " + b + "}")
			try("strict $.**{" + a + " to " + b + "}.a")
		}
	}
	flags := []string{"i", "s", "m", "q", "x"}
	for mask := 1; mask < 1<<len(flags); mask++ {
		f := ""
		for i, fl := range flags {
			if mask&(1<<i) != 0 {
				f += fl
			}
		}
		try(`$.s like_regex "a.b" flag "` + f + `"`)
		try(`$.s like_regex "a.b" flag "` + reverse(f) + `"`)
		try(`$.s like_regex "a.b" flag "` + f + f + `"`)
	}
	// (g) maintainer-written paths harvested from the library's tests and README
	for i, hp := range harvestedPaths() {
		if c.Mine(i) {
			roundTripAlways(c, hp.P, hp.Text, docs, r)
		}
	}
	c.Count("harvested.paths", int64(len(harvestedPaths())))
	// (f) random generated paths in random spellings
	g := &gen.G{R: r, C: c03Cfg()}
	n := c.PerShard(c.N(600000, 6000000))
	for i := 0; i < n; i++ {
		ap := g.Path()
		decorate(r, ap)
		var st *gen.Style
		if r.IntN(2) == 0 {
			st = &gen.Style{R: r, Lexical: true, MinimalParens: r.IntN(2) == 0}
		}
		txt := gen.Spell(ap, st)
		p, err, pan := h.ParseSafe(txt)
		if err != nil || pan != "" {
			c.Count("not-accepted", 1)
			continue
		}
		if i%8 == 0 {
			roundTripAlways(c, p, txt, docs, r)
		} else {
			roundTrip(c, p, txt, docs, r)
		}
		if i == 0 {
			c.Sample("random", map[string]string{"text": txt, "canonical": p.String()})
		}
	}
}

func reverse(s string) string {
	b := []byte(s)
	for i, j := 0, len(b)-1; i < j; i, j = i+1, j-1 {
		b[i], b[j] = b[j], b[i]
	}
	return string(b)
}

// quoteForPath spells a string literal using only escapes the documented syntax has.
func quoteForPath(s string) string {
	var sb strings.Builder
	sb.WriteByte('"')
	for _, r := range s {
		switch {
		case r == '"':
			sb.WriteString(`\"`)
		case r == '\\':
			sb.WriteString(`\\`)
		case r == '\n':
			sb.WriteString(`\n`)
		case r < 0x20 || r == 0x7f:
			fmt.Fprintf(&sb, `\u%04x`, r)
		default:
			sb.WriteRune(r)
		}
	}
	sb.WriteByte('"')
	return sb.String()
}

// --- attribution of round-trip violations to recorded printer defects -------

func isCompoundHead(n *gen.N) bool {
	return n.K == gen.KBin || n.K == gen.KUn || n.K == gen.KRegex
}

func integralNum(n *gen.N) bool {
	return n.K == gen.KNum && n.F == math.Trunc(n.F) && !math.IsInf(n.F, 0)
}

// printerCauses lists the recorded printer defects whose trigger is present in the tree.
func printerCauses(root *gen.N) []string {
	k1, k2 := false, false
	// (a decimal literal where only an integer may stand - a precision, a scale -
	// is not the literal of the recorded finding: no accepted path has one)
	intOnly := map[*gen.N]bool{}
	root.Walk(func(n *gen.N) {
		if n.K == gen.KDatetime || n.K == gen.KDecimal {
			for _, arg := range []*gen.N{n.A, n.B} {
				if arg != nil {
					arg.Walk(func(x *gen.N) { intOnly[x] = true })
				}
			}
		}
	})
	root.Walk(func(n *gen.N) {
		if integralNum(n) && !intOnly[n] {
			k1 = true
		}
		if isCompoundHead(n) && n.Next != nil {
			k2 = true
		}
	})
	var out []string
	if k1 {
		out = append(out, "integral-numeric-literal-printed-as-integer")
	}
	if k2 {
		out = append(out, "compound-operand-with-accessor-chain")
	}
	return out
}

// neutralize removes the triggers of the recorded printer defects from a tree:
// integral decimal literals get a fractional part and compound heads lose
// their accessor chains.
func neutralize(n *gen.N) *gen.N {
	c := n.Clone()
	c.Walk(func(x *gen.N) {
		if integralNum(x) {
			if math.Abs(x.F) < 1<<52 {
				x.F += 0.5
			} else {
				x.F = 1.5
			}
		}
		if isCompoundHead(x) && x.Next != nil {
			if x.IsPredKind() {
				// a predicate is an expression only through its accessor chain: replace both by a leaf
				*x = gen.N{K: gen.KNull}
			} else {
				x.Next = nil
			}
		}
	})
	return c
}

// neutralizeBelow is neutralize for everything below n (its operands, the
// conditions and subscripts of its accessor chain); n keeps its own chain.
func neutralizeBelow(n *gen.N) *gen.N {
	c := n.Clone()
	c.Walk(func(x *gen.N) {
		if x == c {
			return
		}
		if integralNum(x) {
			if math.Abs(x.F) < 1<<52 {
				x.F += 0.5
			} else {
				x.F = 1.5
			}
		}
		if isCompoundHead(x) && x.Next != nil {
			if x.IsPredKind() {
				*x = gen.N{K: gen.KNull}
			} else {
				x.Next = nil
			}
		}
	})
	return c
}

// cleanRoundTrip reports whether a path survives Parse(String()) unchanged.
func cleanRoundTrip(p *path.Path) bool {
	ok := true
	msg := h.Guard(func() {
		s1 := p.String()
		p2, err := path.Parse(s1)
		if err != nil || p2.String() != s1 || gen.FromAST(p2.AST).Sexp() != gen.FromAST(p.AST).Sexp() {
			ok = false
		}
	})
	return ok && msg == ""
}

// attribute returns the recorded causes that explain a round-trip violation of
// p, or nil: the causes' triggers are present in the tree AND the same tree
// with those triggers neutralised survives the round trip.
func attribute(p *path.Path) []string {
	ap := gen.FromAST(p.AST)
	causes := printerCauses(ap.Root)
	if len(causes) == 0 {
		return nil
	}
	neutral := &gen.Path{Lax: ap.Lax, Pred: ap.Pred, Root: neutralize(ap.Root)}
	if neutral.Root.IsPredKind() && neutral.Root.Next == nil {
		neutral.Pred = true
	} else {
		neutral.Pred = false
	}
	txt := gen.Spell(neutral, nil)
	pn, err, pan := h.ParseSafe(txt)
	if err != nil || pan != "" {
		return nil
	}
	if !cleanRoundTrip(pn) {
		return nil
	}
	// The recorded defect of compound heads is one of position: the head is
	// printed without parentheses where it is an operand. Standing alone as
	// the whole path (its own operands neutralised) a binary operator with a
	// chain survives the round trip; one that does not is something else.
	alone := true
	ap.Root.Walk(func(x *gen.N) {
		if !alone || x.K != gen.KBin || x.Next == nil {
			return // (unary and is-unknown heads lose their parentheses wherever they stand)
		}
		sub := neutralizeBelow(x)
		st := gen.Spell(&gen.Path{Lax: true, Root: sub}, nil)
		ps, err, pan := h.ParseSafe(st)
		if err != nil || pan != "" {
			return
		}
		if gen.FromAST(ps.AST).Sexp() == (&gen.Path{Lax: true, Root: gen.Normalize(sub.Clone())}).Sexp() && !cleanRoundTrip(ps) {
			alone = false
		}
	})
	if !alone {
		return nil
	}
	return causes
}
