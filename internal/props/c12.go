package props

import (
	"encoding/json"
	"fmt"
	"regexp"
	"strconv"
	"strings"
	"time"

	"verif/internal/h"
	"verif/internal/model"
)

func init() {
	register(&Prop{
		ID:    "C12",
		Level: "exploration",
		Rule: "exhaustive: all pairs from a corpus of ~90 values (numeric grid in three representations - int64 literal, float64, json.Number -, strings incl. multi-byte, booleans, null, arrays, objects, datetimes) x 6 operators x both orders x lax/strict as predicate checks; order axioms (trichotomy, duality, unions, transitivity over all numeric and string triples) checked on the observed outcomes; sequences of scalars for the existential/strict rule; starts with on all string pairs; like_regex strings x patterns x flag sets against Go's regexp with flags translated in the harness. " +
			"Non-trivial: the two operands are different corpus entries; distinct by (expression, operands, mode)",
		Run:          runC12,
		Replay:       replayC12,
		MinExercised: map[string]int64{"model": 20000, "trichotomy": 2000, "duality": 2000, "unions": 2000, "transitive": 1, "null": 100, "crosstype": 1000, "sequence.lax": 100, "sequence.strict": 100, "startswith": 500, "sequence.long": 2000, "startswith.sequence": 500, "likeregex": 2000, "cmp.model": 2000, "cmp.antisym": 1000, "cmp.coherent": 1000},
		Assumptions: []string{
			"numbers get a by-value verdict only where the value is unambiguous in the given representation (int64-range integers, finite doubles, json.Numbers whose text is exactly one of those); other json.Numbers are exercised for totality only",
			"equal instants of time-with-zone values are ordered by offset; the direction is not pinned, only consistency (antisymmetry)",
			"datetime pairs reuse the comparison monitor of C17 (clauses cmp.*) on a coarser sub-grid, under WithTZ only",
		},
	})
}

type cval struct {
	name string // unique id
	kind string // null bool num str arr obj
	lit  string // literal spelling, if it can be a literal
	v    any    // Go value when passed as variable (nil -> use literal)
	use  string // "lit" or "var"
}

func c12Corpus() []cval {
	var out []cval
	add := func(cv cval) { out = append(out, cv) }
	add(cval{name: "null", kind: "null", lit: "null", use: "lit"})
	add(cval{name: "null.var", kind: "null", v: nil, use: "var"})
	add(cval{name: "true", kind: "bool", lit: "true", use: "lit"})
	add(cval{name: "false", kind: "bool", lit: "false", use: "lit"})
	add(cval{name: "true.var", kind: "bool", v: true, use: "var"})
	add(cval{name: "false.var", kind: "bool", v: false, use: "var"})
	nums := []string{"0", "1", "-1", "2", "10", "-2", "-3", "-5", "-10", "-12", "-21", "2147483647", "-2147483648", "9007199254740992", "9007199254740993", "9223372036854775807", "-9223372036854775807", "9223372036854775806",
		"0.5", "-0.5", "1.5", "1.0", "-0.0", "1e2", "9007199254740992.0", "9.223372036854775807e18", "1e308", "-1e308", "5e-324", "0.1", "0.30000000000000004", "1e19", "1e-7", "0.3", "1.0000000000000002", "1.0000000000000007", "1.0000000000000013", "9007199254740994.0"}
	for _, t := range nums {
		if !strings.ContainsAny(t, ".eE") {
			add(cval{name: t + ":int64", kind: "num", lit: t, use: "lit"})
		} else {
			add(cval{name: t + ":litf", kind: "num", lit: t, use: "lit"})
		}
		f, _ := strconv.ParseFloat(t, 64)
		add(cval{name: t + ":f64", kind: "num", v: f, use: "var"})
		add(cval{name: t + ":num", kind: "num", v: json.Number(t), use: "var"})
	}
	for _, t := range []string{"1e400", "-1e400", "1e-400", "123456789012345678901234567890", "0.1000000000000000000000000001", "9223372036854775808", "-9223372036854775809"} {
		add(cval{name: t + ":num!", kind: "num", v: json.Number(t), use: "var"})
	}
	for _, s := range []string{"", "a", "ab", "abc", "b", "A", "a b", "é", "é", "z", "\U0001F600", "�", "aa", "a\x7f", "10", "9", "true", "null",
		// Go strings need not be valid UTF-8 (a document built by the caller): byte order all the same
		"caf\xe8", "caf\xe9", "caf\ufffd", "\xff", "\x80", "a\xc3"} {
		add(cval{name: "str:" + strconv.QuoteToASCII(s), kind: "str", v: s, use: "var"})
	}
	add(cval{name: "str:lit-ab", kind: "str", lit: `"ab"`, use: "lit"})
	add(cval{name: "arr:[]", kind: "arr", v: []any{}, use: "var"})
	add(cval{name: "arr:[[1]]", kind: "arr", v: []any{[]any{1.0}}, use: "var"})
	add(cval{name: "obj:{}", kind: "obj", v: map[string]any{}, use: "var"})
	add(cval{name: "obj:{a:1}", kind: "obj", v: map[string]any{"a": 1.0}, use: "var"})
	return out
}

func (cv cval) expr(varname string) string {
	if cv.use == "lit" {
		return "(" + cv.lit + ")"
	}
	return "$" + varname
}

func (cv cval) value() any {
	if cv.use == "var" {
		return cv.v
	}
	switch cv.kind {
	case "null":
		return nil
	case "bool":
		return cv.lit == "true"
	case "str":
		s, _ := strconv.Unquote(cv.lit)
		return s
	}
	if !strings.ContainsAny(cv.lit, ".eE") {
		i, _ := strconv.ParseInt(cv.lit, 10, 64)
		return i
	}
	f, _ := strconv.ParseFloat(cv.lit, 64)
	return f
}

var cmpOpsAll = []string{"==", "!=", "<", "<=", ">", ">="}

// observeCmp runs `x op y` as a predicate check.
func observeCmp(c *h.Ctx, x, y cval, op string, lax bool) (model.Tri, bool, *h.Out, h.Case) {
	mode := ""
	if !lax {
		mode = "strict "
	}
	ptxt := mode + x.expr("x") + " " + op + " " + y.expr("y")
	cs := h.Case{Kind: "compare", Path: ptxt, Extra: map[string]string{"x": x.name, "y": y.name, "op": op}}
	p := cachedPath(ptxt)
	if p == nil {
		c.Count("gen.unparsable", 1)
		return 0, false, nil, cs
	}
	vars := map[string]any{}
	if x.use == "var" {
		vars["x"] = x.v
	}
	if y.use == "var" {
		vars["y"] = y.v
	}
	o := h.Call("query", p, "doc", h.Opts{Vars: vars})
	c.Eval(1)
	if o.Class == h.Panic || o.Class == h.Invalid {
		return 0, false, o, cs
	}
	t, isErr, ok := triOf(o)
	if !ok || isErr {
		return 0, false, o, cs
	}
	return t, true, o, cs
}

func checkPair(c *h.Ctx, x, y cval, lax bool, rel map[[2]string]int) {
	xv, yv := x.value(), y.value()
	if lax && (x.kind == "arr" || y.kind == "arr") {
		// in lax mode an array operand is unwrapped into a sequence (see the
		// sequence clauses); arrays as items are compared in strict mode
		return
	}
	obs := map[string]model.Tri{}
	allOK := true
	for _, op := range cmpOpsAll {
		t, ok, o, cs := observeCmp(c, x, y, op, lax)
		if !ok {
			allOK = false
			if o != nil && o.Class != h.Panic && o.Class != h.Invalid {
				c.Violate("model", h.F("kind", "not-a-truth-value", "xkind", x.kind, "ykind", y.kind), fmt.Sprintf("%s returned %s", cs.Path, o.Summary()), cs)
			} else {
				c.Skip("model", "panic-or-invalid-is-C05")
			}
			continue
		}
		obs[op] = t
		if x.name != y.name {
			c.Distinct(cs.Path, x.name, y.name)
		}
		want, err := model.Compare(op, xv, yv)
		clause := "model"
		switch {
		case x.kind == "null" || y.kind == "null":
			clause = "null"
		case x.kind != y.kind || x.kind == "arr" || x.kind == "obj":
			clause = "crosstype"
		}
		if err != nil {
			c.Skip(clause, "number-not-exactly-representable")
			continue
		}
		if t != want {
			f := h.F("op", op, "xkind", x.kind, "ykind", y.kind, "mode", modeName(lax))
			if x.kind == "num" && y.kind == "num" {
				f["xrepr"] = reprOf(xv)
				f["yrepr"] = reprOf(yv)
			}
			c.Violate(clause, f, fmt.Sprintf("%s with x=%s y=%s is %v; expected %v", cs.Path, x.name, y.name, t, want), cs)
		} else {
			c.Held(clause)
			if c.WantSample(clause) {
				c.Sample(clause, map[string]any{"expr": cs.Path, "x": x.name, "y": y.name, "result": t.String()})
			}
		}
	}
	if !allOK {
		return
	}
	// axioms on the observed outcomes (no model involved)
	cs := h.Case{Kind: "axiom", Path: x.expr("x") + " ? " + y.expr("y"), Extra: map[string]string{"x": x.name, "y": y.name}}
	lt, eq, gt := obs["<"], obs["=="], obs[">"]
	feat := h.F("xkind", x.kind, "ykind", y.kind, "mode", modeName(lax))
	comparable := lt != model.Unknown && eq != model.Unknown && gt != model.Unknown
	if comparable {
		n := 0
		for _, t := range []model.Tri{lt, eq, gt} {
			if t == model.True {
				n++
			}
		}
		// null vs non-null: all three false by the null rule
		if n != 1 && !(n == 0 && (x.kind == "null") != (y.kind == "null")) {
			c.Violate("trichotomy", feat, fmt.Sprintf("x=%s y=%s: <:%v ==:%v >:%v (exactly one must hold)", x.name, y.name, lt, eq, gt), cs)
		} else {
			c.Held("trichotomy")
		}
		un := func(a, b model.Tri) model.Tri { return model.Or(a, b) }
		if obs["<="] != un(lt, eq) || obs[">="] != un(gt, eq) || (obs["!="] != model.Not(eq)) {
			c.Violate("unions", feat, fmt.Sprintf("x=%s y=%s: <=:%v >=:%v !=:%v but <:%v ==:%v >:%v", x.name, y.name, obs["<="], obs[">="], obs["!="], lt, eq, gt), cs)
		} else {
			c.Held("unions")
		}
		switch {
		case lt == model.True:
			rel[[2]string{x.name, y.name}] = -1
		case gt == model.True:
			rel[[2]string{x.name, y.name}] = 1
		case eq == model.True:
			rel[[2]string{x.name, y.name}] = 0
		}
	} else if !(lt == model.Unknown && eq == model.Unknown && gt == model.Unknown && obs["<="] == model.Unknown && obs[">="] == model.Unknown && obs["!="] == model.Unknown) {
		c.Violate("trichotomy", feat, fmt.Sprintf("x=%s y=%s: some operators are unknown and others are not: %v", x.name, y.name, obs), cs)
	}
}

func reprOf(v any) string {
	switch v.(type) {
	case int64:
		return "int64"
	case float64:
		return "float64"
	case json.Number:
		return "json.Number"
	}
	return "?"
}

func replayC12(c *h.Ctx, cs h.Case) {
	runC12(c)
}

func translateFlags(flags string) (prefix string, quote bool) {
	p := ""
	for _, f := range []byte("ism") {
		if strings.IndexByte(flags, f) >= 0 {
			p += string(f)
		}
	}
	quote = strings.Contains(flags, "q")
	if quote {
		// literal: s and m are meaningless
		p = strings.NewReplacer("s", "", "m", "").Replace(p)
	}
	if p != "" {
		p = "(?" + p + ")"
	}
	return p, quote
}

func runC12(c *h.Ctx) {
	corpus := c12Corpus()
	c.Count("corpus.size", int64(len(corpus)))
	// Every shard takes its share of the x values; the relation matrix is
	// needed whole for transitivity, so shard 0 additionally re-derives it
	// for numbers and strings in lax mode only (cheap).
	for _, lax := range []bool{true, false} {
		rel := map[[2]string]int{}
		for xi, x := range corpus {
			mineRow := c.Mine(xi)
			for _, y := range corpus {
				if mineRow {
					checkPair(c, x, y, lax, rel)
				}
			}
		}
		// duality within this shard's rows needs (y,x): observe directly
		for xi, x := range corpus {
			if !c.Mine(xi) {
				continue
			}
			for _, y := range corpus {
				a, ok1, _, cs := observeCmp(c, x, y, "<", lax)
				b, ok2, _, _ := observeCmp(c, y, x, ">", lax)
				if !ok1 || !ok2 {
					continue
				}
				if a != b {
					c.Violate("duality", h.F("xkind", x.kind, "ykind", y.kind, "mode", modeName(lax)), fmt.Sprintf("x < y is %v but y > x is %v (x=%s, y=%s)", a, b, x.name, y.name), cs)
				} else {
					c.Held("duality")
				}
			}
		}
		if c.Shard == 0 {
			// transitivity over all triples of mutually comparable values
			full := map[[2]string]int{}
			var names []string
			for _, x := range corpus {
				if x.kind != "num" && x.kind != "str" && x.kind != "bool" {
					continue
				}
				if strings.HasSuffix(x.name, ":num!") {
					continue
				}
				names = append(names, x.name)
				for _, y := range corpus {
					if y.kind != x.kind || strings.HasSuffix(y.name, ":num!") {
						continue
					}
					lt, ok1, _, _ := observeCmp(c, x, y, "<", lax)
					eq, ok2, _, _ := observeCmp(c, x, y, "==", lax)
					if !ok1 || !ok2 {
						continue
					}
					switch {
					case lt == model.True:
						full[[2]string{x.name, y.name}] = -1
					case eq == model.True:
						full[[2]string{x.name, y.name}] = 0
					default:
						full[[2]string{x.name, y.name}] = 1
					}
				}
			}
			bad := 0
			checked := int64(0)
			for _, a := range names {
				for _, b := range names {
					ab, ok := full[[2]string{a, b}]
					if !ok || ab > 0 {
						continue
					}
					for _, cc := range names {
						bc, ok := full[[2]string{b, cc}]
						if !ok || bc > 0 {
							continue
						}
						ac, ok := full[[2]string{a, cc}]
						if !ok {
							continue
						}
						checked++
						// a <= b and b <= c  =>  a <= c ; strict if one is strict
						wantStrict := ab < 0 || bc < 0
						if ac > 0 || (wantStrict && ac == 0) || (!wantStrict && ac != 0) {
							bad++
							if bad <= 3 {
								c.Violate("transitive", h.F("mode", modeName(lax)), fmt.Sprintf("order is not transitive: %s vs %s: %d, %s vs %s: %d, but %s vs %s: %d", a, b, ab, b, cc, bc, a, cc, ac),
									h.Case{Kind: "transitive", Extra: map[string]string{"a": a, "b": b, "c": cc}})
							}
						}
					}
				}
			}
			if bad == 0 {
				c.Held("transitive")
			}
			c.Count("transitive.triples-checked", checked)
		}
	}
	c.SetExhaustive("all ordered pairs of the value corpus x 6 operators x 2 modes; all comparable triples for transitivity")

	// sequences: lax existential, strict all-pairs
	seqs := [][2]string{{`[1,2,3]`, `[3]`}, {`[1,"a"]`, `[1]`}, {`["a",1]`, `[1]`}, {`[1,2]`, `["a",2]`}, {`[1,2]`, `[2,"a"]`}, {`[]`, `[1]`}, {`[1]`, `[]`}, {`[null,1]`, `[null]`}, {`[[1]]`, `[1]`},
		{`[1,2]`, `[3,4]`}, {`["a","b"]`, `["b"]`}, {`[true]`, `[true,1]`}, {`[{}]`, `[{}]`}, {`[1,{}]`, `[1]`}, {`[{},1]`, `[1]`}, {`[2,1]`, `[1,"x"]`},
		// arrays next to arrays: each is unwrapped (one level) in lax mode
		{`[[1],[2]]`, `[2]`}, {`[[1],[2]]`, `[3]`}, {`[[],[2]]`, `[2]`}, {`[[1],[2],[3]]`, `[3]`}, {`[[1,2],[3],[4]]`, `[4]`}, {`[1,[2],[3]]`, `[3]`}, {`[[1],[],[],[2]]`, `[2]`}, {`[2]`, `[[1],[2]]`},
		{`[["a"],["b"]]`, `["b"]`}, {`[[[1]],[2]]`, `[2]`}, {`[[1],[[2]]]`, `[2]`}}
	for i, s := range seqs {
		if !c.Mine(i) {
			continue
		}
		for _, useNum := range []bool{false, true} {
			l := h.Decode(s[0], useNum).([]any)
			r := h.Decode(s[1], useNum).([]any)
			for _, lax := range []bool{true, false} {
				for _, op := range cmpOpsAll {
					mode := ""
					if !lax {
						mode = "strict "
					}
					ptxt := mode + "$x[*] " + op + " $y[*]"
					p := cachedPath(ptxt)
					o := h.Call("query", p, "doc", h.Opts{Vars: map[string]any{"x": l, "y": r}})
					c.Eval(1)
					got, isErr, ok := triOf(o)
					cs := h.Case{Kind: "sequence", Path: ptxt, Vars: fmt.Sprintf(`{"x":%s,"y":%s}`, s[0], s[1]), UseNum: useNum}
					if !ok || isErr {
						c.Violate("sequence."+modeName(lax), h.F("kind", "not-a-truth-value"), ptxt+" returned "+o.Summary(), cs)
						continue
					}
					anyT, anyU := false, false
					ll, rr := l, r
					if lax {
						ll, rr = unwrap1(l, true), unwrap1(r, true)
					}
					for _, a := range ll {
						for _, b := range rr {
							t, _ := model.Compare(op, a, b)
							if t == model.True {
								anyT = true
							}
							if t == model.Unknown {
								anyU = true
							}
						}
					}
					var want model.Tri
					if lax {
						want = model.False
						if anyT {
							want = model.True
						} else if anyU {
							want = model.Unknown
						}
					} else {
						want = model.False
						if anyU {
							want = model.Unknown
						} else if anyT {
							want = model.True
						}
					}
					// lax: a true pair found before an unknown one wins; an unknown pair
					// before a true pair does not stop the search either (existential)
					if got != want {
						c.Violate("sequence."+modeName(lax), h.F("op", op), fmt.Sprintf("%s with x=%s y=%s is %v; expected %v", ptxt, s[0], s[1], got, want), cs)
					} else {
						c.Held("sequence." + modeName(lax))
					}
					c.Distinct(ptxt, s[0], s[1], fmt.Sprint(useNum))
					// an operand that is itself filtered by a comparison: the inner
					// comparison selects the operand's items, the outer one then
					// quantifies over exactly those
					if flat(l) && flat(r) {
						keep := func(seq []any, fop string, lit float64) []any {
							var out []any
							for _, a := range seq {
								if t, _ := model.Compare(fop, a, lit); t == model.True {
									out = append(out, a)
								}
							}
							return out
						}
						for fi, ff := range []struct {
							l, r string
							fl   func([]any) []any
							fr   func([]any) []any
						}{
							{"$x[*]", "$y[*] ? (@ < 3)", nil, func(q []any) []any { return keep(q, "<", 3) }},
							{"$x[*] ? (@ != 2)", "$y[*]", func(q []any) []any { return keep(q, "!=", 2) }, nil},
							{"$x[*] ? (@ >= 2)", "$y[*] ? (@ > 1)", func(q []any) []any { return keep(q, ">=", 2) }, func(q []any) []any { return keep(q, ">", 1) }},
							{"$x[*] ? (@ == $y[*] ? (@ > 0))", "$y[*]", func(q []any) []any {
								var out []any
								for _, a := range q {
									for _, b := range keep(r, ">", 0) {
										if t, _ := model.Compare("==", a, b); t == model.True {
											out = append(out, a)
											break
										}
									}
								}
								return out
							}, nil},
						} {
							if fi == 3 && !lax {
								continue // the inner == over a sequence has its own strict rule
							}
							fl, fr := l, r
							if ff.fl != nil {
								fl = ff.fl(l)
							}
							if ff.fr != nil {
								fr = ff.fr(r)
							}
							anyT, anyU := false, false
							for _, a := range fl {
								for _, b := range fr {
									t, _ := model.Compare(op, a, b)
									anyT = anyT || t == model.True
									anyU = anyU || t == model.Unknown
								}
							}
							fwant := model.False
							switch {
							case lax && anyT, !lax && !anyU && anyT:
								fwant = model.True
							case anyU:
								fwant = model.Unknown
							}
							ftxt := mode + ff.l + " " + op + " " + ff.r
							fo := h.Call("query", cachedPath(ftxt), "doc", h.Opts{Vars: map[string]any{"x": l, "y": r}})
							c.Eval(1)
							fgot, fErr, fok := triOf(fo)
							fcs := cs
							fcs.Path = ftxt
							if !fok || fErr || fgot != fwant {
								c.Violate("sequence."+modeName(lax), h.F("op", op, "form", "filtered-operand"), fmt.Sprintf("%s with x=%s y=%s returned %s; the operands are %s and %s, so expected %v", ftxt, s[0], s[1], fo.Summary(), h.Canon(fl), h.Canon(fr), fwant), fcs)
							} else {
								c.Held("sequence." + modeName(lax))
							}
						}
					}
					if !lax {
						// the strict rule also holds for a condition evaluated
						// below .** (which relaxes structural errors only)
						btxt := "strict $.** ? ($x[*] " + op + " $y[*])"
						ob := h.Call("query", cachedPath(btxt), map[string]any{"k": 1.0}, h.Opts{Vars: map[string]any{"x": l, "y": r}})
						c.Eval(1)
						wantN := 0
						if want == model.True {
							wantN = 2
						}
						if ob.Class != h.OK || len(ob.Items) != wantN {
							cs.Path = btxt
							cs.Doc = `{"k":1}`
							c.Violate("sequence.strict", h.F("op", op, "form", "below-any"), fmt.Sprintf("%s with x=%s y=%s on {\"k\":1} returned %s; the condition is %v, so %d items", btxt, s[0], s[1], ob.Summary(), want, wantN), cs)
						} else {
							c.Held("sequence.strict")
						}
					}
				}
			}
		}
	}

	// long sequences (hundreds of item pairs), one numeric value present in a
	// different representation on either side
	for li, n := range []int{16, 255, 256, 300, 1000} {
		if !c.Mine(li) {
			continue
		}
		mk := func(repr string, lo, cnt int) []any {
			out := make([]any, cnt)
			for i := range out {
				switch repr {
				case "f64":
					out[i] = float64(lo + i)
				case "num":
					out[i] = json.Number(fmt.Sprint(lo + i))
				case "numf":
					out[i] = json.Number(fmt.Sprintf("%d.0", lo+i))
				default:
					out[i] = int64(lo + i)
				}
			}
			return out
		}
		for _, lr := range []string{"i64", "f64", "num", "numf"} {
			for _, rr := range []string{"i64", "f64", "num", "numf"} {
				x := mk(lr, 0, n)
				for _, y := range [][]any{mk(rr, n-1, 1), mk(rr, n+5, 1), mk(rr, n-1, 16), mk(rr, 2*n, 16)} {
					for _, op := range cmpOpsAll {
						for _, form := range []string{"$x[*] " + op + " $y[*]", "strict $y[*] " + op + " $x[*]", "$x[*] " + op + " 7.0", "7 " + op + " $x[*]"} {
							p := cachedPath(form)
							if p == nil {
								continue
							}
							o := h.Call("query", p, "doc", h.Opts{Vars: map[string]any{"x": x, "y": y}})
							c.Eval(1)
							ll, rl := x, y
							if strings.Contains(form, "$y[*] "+op) {
								ll, rl = y, x
							}
							if strings.HasSuffix(form, " 7.0") {
								rl = []any{7.0}
							}
							if strings.HasPrefix(form, "7 ") {
								ll, rl = []any{int64(7)}, x
							}
							want := model.False
							for _, a := range ll {
								for _, b := range rl {
									if t, _ := model.Compare(op, a, b); t == model.True {
										want = model.True
									}
								}
							}
							got, isErr, ok := triOf(o)
							if !ok || isErr || got != want {
								c.Violate("sequence.long", h.F("op", op, "left", lr, "right", rr, "pairs>=256", fmt.Sprint(len(ll)*len(rl) >= 256)), fmt.Sprintf("%s with %d x %d numbers (%s vs %s, right side from %v) = %s; some pair satisfies it: %v", form, len(ll), len(rl), lr, rr, rl[0], o.Summary(), want), h.Case{Kind: "sequence-long", Path: form})
							} else {
								c.Held("sequence.long")
							}
							c.Distinct("long", form, lr, rr, fmt.Sprint(n, len(y), y[0]))
						}
					}
				}
			}
		}
	}
	// starts with
	strs := []string{"", "a", "ab", "abc", "b", "A", "é", "é", "\U0001F600x", "\U0001F600", "aé", "a\nb", "ab ", " ab", "10", "1"}
	idx := 0
	for _, a := range strs {
		for _, b := range strs {
			idx++
			if !c.Mine(idx) {
				continue
			}
			for _, mode := range []string{"", "strict "} {
				for _, form := range []string{"$x starts with $y", "$x starts with " + gQuote(b)} {
					p := cachedPath(mode + form)
					if p == nil {
						continue
					}
					o := h.Call("query", p, "doc", h.Opts{Vars: map[string]any{"x": a, "y": b}})
					c.Eval(1)
					got, _, ok := triOf(o)
					want := model.FromBool(strings.HasPrefix(a, b))
					cs := h.Case{Kind: "startswith", Path: mode + form, Vars: fmt.Sprintf(`{"x":%s,"y":%s}`, strconv.Quote(a), strconv.Quote(b))}
					if !ok || got != want {
						c.Violate("startswith", h.F("mode", mode), fmt.Sprintf("%s with x=%q y=%q = %s; expected %v", mode+form, a, b, o.Summary(), want), cs)
					} else {
						c.Held("startswith")
					}
					c.Distinct("sw", mode+form, a, b)
				}
			}
		}
	}
	// starts with over sequences: the left operand is unwrapped in lax mode
	// (existential), the right operand never is
	idx = 0
	for _, a := range strs {
		for _, b := range strs {
			idx++
			if !c.Mine(idx) {
				continue
			}
			for _, mode := range []string{"", "strict "} {
				type swc struct {
					x, y any
					want model.Tri
				}
				pre := model.FromBool(strings.HasPrefix(a, b))
				leftWant := model.Unknown // strict: an array is not a string
				if mode == "" {
					leftWant = model.Or(pre, model.Unknown) // [a, 1]: some pair true, else unknown
				}
				for k, sc := range []swc{
					{a, []any{b}, model.Unknown},
					{a, []any{b, b}, model.Unknown},
					{a, []any{}, model.Unknown},
					{[]any{a, 1.0}, b, leftWant},
					{[]any{1.0, a}, b, leftWant},
				} {
					p := cachedPath(mode + "$x starts with $y")
					o := h.Call("query", p, "doc", h.Opts{Vars: map[string]any{"x": sc.x, "y": sc.y}})
					c.Eval(1)
					got, _, ok := triOf(o)
					cs := h.Case{Kind: "startswith", Path: mode + "$x starts with $y", Vars: fmt.Sprintf(`{"x":%s,"y":%s}`, h.Canon(sc.x), h.Canon(sc.y))}
					if !ok || got != sc.want {
						c.Violate("startswith.sequence", h.F("mode", mode, "shape", fmt.Sprint(k)), fmt.Sprintf("%s$x starts with $y with x=%s y=%s = %s; expected %v", mode, h.Canon(sc.x), h.Canon(sc.y), o.Summary(), sc.want), cs)
					} else {
						c.Held("startswith.sequence")
					}
					c.Distinct("sws", mode, a, b, fmt.Sprint(k))
				}
			}
		}
	}
	for i, v := range []any{1.0, nil, true, []any{}, map[string]any{}} {
		if !c.Mine(i) {
			continue
		}
		p := cachedPath(`strict $x starts with "a"`)
		o := h.Call("query", p, "doc", h.Opts{Vars: map[string]any{"x": v}})
		got, _, ok := triOf(o)
		if !ok || got != model.Unknown {
			c.Violate("startswith", h.F("kind", "non-string"), fmt.Sprintf("starts with on %v = %s; expected unknown", v, o.Summary()), h.Case{Kind: "startswith"})
		} else {
			c.Held("startswith")
		}
	}

	// like_regex vs Go regexp under the translated flags
	subjects := []string{"", "a", "A", "abc", "ABC", "a\nb", "a\nB", "ab\n", "\nb", "a.c", "axc", "a+b", "aab", "12", "x12y", "é", "É", "(a)", "a|b", "b", "a\\b", " a ", "a.c\nA.C",
		// case folding is not lower-casing: final sigma, long s, micro sign, dotted capital I, Kelvin sign, sharp s
		"ς", "σ", "Σ", "ſ.", "s.", "µ", "μ", "İ", "i", "I", "ı", "K", "k", "ß", "SS", "ǅ", "ǆ",
		"7up", "7UP", "up", "17up", "0.p", "0xp", ".p", "xp", "20.p", "1a", "6a", "16a", "a", "2a.c", "2abc", "4a.c", "8a", "3", "16", "6",
		"a\\E.", "ab", "aEb", "a\\Eb", "\\E", "\\Qa.c\\E", "\\Qa.c", "a.c\\E|b", "a$b", "[", "(", "a{2}", "aa", "\\", "a\\", "%s", "a|", "$", "^"}
	patterns := []string{"^a", "a$", "a.c", "^$", "A", "b$", "^b", ".", "a|b", "(ab)+", "[0-9]+", "\\d", "^.*$", "a.b", "^a.b$", "é", "a+b", "\\(a\\)", "a\\.c", "", "^a$", "c$", "\\s", "(?i)a", "^B", "a\\\\b", "[[:alpha:]]+", "x*", "(a|b)c?", "^.+$", "σ", "ς", "s.", "μ", "i", "k", "ss", "ǆ", "İ",
		// what a pattern quoter must not trip over (literal under q, regular expressions otherwise)
		// patterns that begin with digits (what a cache key built by concatenation confuses)
		"7up", "up", "17up", "0.p", ".p", "20.p", "1a", "6a", "16a", "2a.c", "4a.c", "8a", "3", "16",
		"a\\E.", "\\E", "\\Qa.c\\E", "\\Qa.c", "a\\Eb", "\\E.*", "a.c\\E|b", "\\Q\\E", "$", "^", "a$b", "[", "(", "a{2}", "\\", "a\\", "%s", "a|"}
	flagSets := []string{"", "i", "s", "m", "q", "is", "im", "sm", "iq", "ism", "ismq", "sq", "mq"}
	idx = 0
	for _, pat := range patterns {
		for _, fl := range flagSets {
			idx++
			if !c.Mine(idx) {
				continue
			}
			ptxt := "$x like_regex " + gQuote(pat)
			if fl != "" {
				ptxt += ` flag "` + fl + `"`
			}
			p := cachedPath(ptxt)
			prefix, quote := translateFlags(fl)
			src := pat
			if quote {
				src = regexp.QuoteMeta(pat)
			}
			re, err := regexp.Compile(prefix + src)
			if p == nil {
				if err == nil {
					// rejecting a pattern Go can compile is allowed (stricter validation), just count it
					c.Count("likeregex.rejected-compilable", 1)
				}
				continue
			}
			if err != nil {
				c.Violate("likeregex", h.F("kind", "accepted-uncompilable", "flags", fl), fmt.Sprintf("%s was accepted but Go cannot compile %q", ptxt, prefix+src), h.Case{Kind: "likeregex", Path: ptxt})
				continue
			}
			for _, sub := range subjects {
				o := h.Call("query", p, "doc", h.Opts{Vars: map[string]any{"x": sub}})
				c.Eval(1)
				got, _, ok := triOf(o)
				want := model.FromBool(re.MatchString(sub))
				cs := h.Case{Kind: "likeregex", Path: ptxt, Vars: fmt.Sprintf(`{"x":%s}`, strconv.Quote(sub))}
				if quote && !strings.Contains(fl, "i") {
					// q = literal substring
					if want != model.FromBool(strings.Contains(sub, pat)) {
						c.Note("harness: QuoteMeta and Contains disagree on " + pat)
					}
				}
				if !ok || got != want {
					c.Violate("likeregex", h.F("flags", fl, "kind", "match"), fmt.Sprintf("%s on %q = %s; Go regexp %q says %v", ptxt, sub, o.Summary(), prefix+src, want), cs)
				} else {
					c.Held("likeregex")
				}
				c.Distinct("re", ptxt, sub)
			}
		}
	}
	_ = json.Number("")
	// the same table of small patterns x flag sets in every worker process, in
	// an order that differs from worker to worker: what one like_regex matches
	// does not depend on which other ones the process has evaluated before
	{
		hp := []string{"7up", "up", "17up", "0.p", ".p", "20.p", "1a", "6a", "16a", "a", "2a.c", "a.c", "4a.c", "8a", "3", "16", "6", ".", "A"}
		hs := []string{"7up", "7UP", "up", "UP", "17up", "0.p", "0xp", ".p", "xp", "20.p", "1a", "6a", "16a", "a", "A", "2a.c", "2abc", "abc", "a.c", "3", "16"}
		type cell struct{ pat, fl string }
		var cells []cell
		for _, pat := range hp {
			for _, fl := range flagSets {
				cells = append(cells, cell{pat, fl})
			}
		}
		for round := 0; round < 2; round++ {
			for i := range cells {
				// (a permutation per shard and round)
				ce := cells[(i*(2*c.Shard+7)+round*13)%len(cells)]
				if len(cells)%(2*c.Shard+7) == 0 {
					ce = cells[(i+c.Shard+round)%len(cells)]
				}
				ptxt := "$x like_regex " + gQuote(ce.pat)
				if ce.fl != "" {
					ptxt += ` flag "` + ce.fl + `"`
				}
				p, perr, ppan := h.ParseSafe(ptxt)
				prefix, quote := translateFlags(ce.fl)
				src := ce.pat
				if quote {
					src = regexp.QuoteMeta(ce.pat)
				}
				re, err := regexp.Compile(prefix + src)
				if perr != nil || ppan != "" || err != nil {
					continue
				}
				for _, sub := range hs {
					o := h.Call("query", p, "doc", h.Opts{Vars: map[string]any{"x": sub}})
					c.Eval(1)
					got, _, ok := triOf(o)
					want := model.FromBool(re.MatchString(sub))
					if !ok || got != want {
						c.Violate("likeregex", h.F("flags", ce.fl, "kind", "history"), fmt.Sprintf("%s on %q = %s; Go regexp %q says %v (after other like_regex conditions were evaluated in this process)", ptxt, sub, o.Summary(), prefix+src, want), h.Case{Kind: "likeregex", Path: ptxt, Vars: fmt.Sprintf(`{"x":%q}`, sub)})
					} else {
						c.Held("likeregex")
					}
				}
			}
		}
	}

	// datetimes by instant: all pairs of a sub-grid of the C17 datetime
	// strings (five types, offsets, day boundaries, DST dates) x 6 operators
	// under WithTZ in a UTC, a fixed-offset and a named context zone, against
	// the time-arithmetic model, with antisymmetry and explicit-cast coherence
	var dts []dtStr
	for i, s := range c17Grid(c.Thorough()) {
		if s.kind != "bad" && i%c.N(2, 1) == 0 {
			dts = append(dts, s)
		}
	}
	c.Count("datetime.strings", int64(len(dts)))
	for zi, zone := range []string{"UTC", "+05:30", "America/New_York", "-08:00"} {
		rel := map[[2]string]int{}
		for ai, a := range dts {
			if !c.Mine(ai + zi) {
				continue
			}
			for _, b := range dts {
				checkCompare(c, a, b, true, zone, rel)
			}
		}
	}
	// ... and around the daylight-saving changes of named context zones: zone-less
	// timestamps every half hour from the noon before to the noon after a
	// change, each against the same reading with the zone's two offsets written
	// out and against its neighbours half an hour and an hour away
	{
		type edge struct{ zone, day, std, dst string }
		edges := []edge{
			{"America/New_York", "2023-03-12", "-05:00", "-04:00"}, {"America/New_York", "2023-11-05", "-05:00", "-04:00"},
			{"Europe/Berlin", "2023-03-26", "+01:00", "+02:00"}, {"Europe/Berlin", "2023-10-29", "+01:00", "+02:00"},
			{"Australia/Lord_Howe", "2023-04-02", "+10:30", "+11:00"}, {"Australia/Lord_Howe", "2023-10-01", "+10:30", "+11:00"},
			{"Pacific/Auckland", "2023-04-02", "+12:00", "+13:00"}, {"Pacific/Auckland", "2023-09-24", "+12:00", "+13:00"},
		}
		k := 0
		for _, e := range edges {
			if _, err := time.LoadLocation(e.zone); err != nil {
				c.Count("dst.zone-unavailable", 1)
				continue
			}
			day, _ := time.Parse("2006-01-02", e.day)
			rel := map[[2]string]int{}
			for half := -24; half <= 72; half++ {
				k++
				if !c.Mine(k) {
					continue
				}
				w := day.Add(time.Duration(half) * 30 * time.Minute)
				a := dtStr{w.Format("2006-01-02T15:04:05"), "timestamp"}
				for _, d := range []int{0, -1, 1, -2, 2} {
					wb := w.Add(time.Duration(d) * 30 * time.Minute).Format("2006-01-02T15:04:05")
					for _, off := range []string{e.std, e.dst} {
						b := dtStr{wb + off, "timestamptz"}
						checkCompare(c, a, b, true, e.zone, rel)
						checkCompare(c, b, a, true, e.zone, rel)
					}
				}
				c.Count("dst.edge-readings", 1)
			}
		}
	}
	// the operands of a comparison inside a filter: a bare @ that is itself an
	// array (arrays nested in arrays) is unwrapped like any other operand, and an
	// operand that starts at $ or a variable but is subscripted by a member of
	// the current item is worked out for every item - against the reference model
	{
		docs := []string{`[[1,5],[7],["x","abc"],[5],5,[[5]]]`, `{"rows":[{"v":20,"i":1},{"v":20,"i":0},{"v":7,"i":2},{"v":"x","i":2}],"tbl":[10,20,"x"]}`, `[[20,10],[10,20],[30]]`}
		ptxts := []string{`$ ? (@ == 5)`, `$ ? (@ > 6)`, `$ ? (@ starts with "ab")`, `$ ? (@ like_regex "^ab")`, `$[*] ? (@ == 5)`, `$[*] ? (5 == @)`, `$[*] ? (@ < 6)`, `$[*] ? (@[*] == 5)`, `$[*] ? ((@ == 5) is unknown)`, `$[*] ? (@ != 5)`,
			`$.rows[*] ? (@.v == $.tbl[@.i])`, `$.rows[*] ? (@.v > $.tbl[@.i])`, `$.rows[*] ? (@.v < $.tbl[@.i])`, `$.rows[*] ? (@.v == $t[@.i])`, `$.rows[*] ? ($.tbl[@.i] == @.v)`, `$.rows[*] ? ((@.v == $.tbl[@.i]) is unknown)`, `$.rows[*] ? (@.v >= $.tbl[@.i] && @.v <= $.tbl[@.i])`,
			`$[*] ? (@[0] < $[1][@.size() - 1])`, `$[*] ? (@ == $[0])`}
		k := 0
		for _, d := range docs {
			for _, pt := range ptxts {
				for v := 0; v < 4; v++ {
					k++
					if !c.Mine(k) {
						continue
					}
					txt := pt
					if v&2 != 0 {
						txt = "strict " + pt
					}
					ec, err := CaseFrom(h.Case{Path: txt, Doc: d, UseNum: v&1 != 0, Vars: `{"t":[10,20,"x"]}`})
					if err != nil {
						c.Count("gen.unparsable", 1)
						continue
					}
					o := h.Call("query", ec.P, ec.DocValue(), ec.Opts())
					c.Eval(1)
					switch verdict, feat, detail := modelVerdict(ec, o); {
					case verdict == "held":
						c.Held("filter.operands")
					case strings.HasPrefix(verdict, "skip:"):
						c.Skip("filter.operands", strings.TrimPrefix(verdict, "skip:"))
					case feat["cause"] != "" && feat["cause"] != "unexplained":
						c.Skip("filter.operands", "recorded-finding:"+feat["cause"])
					default:
						c.Violate("filter.operands", feat, detail, ec.Case())
					}
				}
			}
		}
	}
}

// flat: no element is an array (nothing a lax step would unwrap).
func flat(seq []any) bool {
	for _, a := range seq {
		if _, ok := a.([]any); ok {
			return false
		}
	}
	return true
}

// gQuote quotes a string for a path literal (harness' own quoting).
func gQuote(s string) string {
	var sb strings.Builder
	sb.WriteByte('"')
	for _, r := range s {
		switch {
		case r == '"':
			sb.WriteString(`\"`)
		case r == '\\':
			sb.WriteString(`\\`)
		case r == '\n':
			sb.WriteString(`\n`)
		case r < 0x20 || r == 0x7f:
			fmt.Fprintf(&sb, `\u%04x`, r)
		default:
			sb.WriteRune(r)
		}
	}
	sb.WriteByte('"')
	return sb.String()
}
