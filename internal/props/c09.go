package props

import (
	"encoding/json"
	"fmt"
	"math/rand/v2"
	"strings"

	"github.com/theory/sqljson/path"

	"verif/internal/gen"
	"verif/internal/h"
)

func init() {
	register(&Prop{
		ID:    "C09",
		Level: "exploration",
		Rule: "generated accessor/method/filter chains of 2-6 steps (nested filters and nested subscripts that use @ and last after the nested construct) are split at EVERY step boundary into prefix P and suffix S; " +
			"Query(P S, doc) is compared with the concatenation over x in Query(P, doc) of Query($ S, x); variable and literal heads are compared with $ on the same value; " +
			"the H1/H2 hooks assert on every execution that @, last, $, the keyvalue base object and the structural-error flag are restored at every step exit and call end. " +
			"Non-trivial: Query(P) yields at least one item; distinct by (path, split point, document, decoding)",
		Run:          runC09,
		Replay:       replayC09,
		MinExercised: map[string]int64{"split.items": 5000, "split.err": 500, "split.silent": 3000, "P-fails": 200, "var-head": 1000, "outer-current": 5000, "outer-last": 100, "literal-head": 300, "context": 10000, "quiescent": 10000},
		Assumptions: []string{
			"S contains no $ (root-independent); strict-mode splits whose prefix contains .** are excluded (the structural-error flag legitimately spans the continuation); keyvalue ids are masked (base object differs)",
			"paths that expand object members get single-member objects so that the executions are comparable",
		},
	})
}

// maskIDs replaces the id of keyvalue triples (and nothing else) by a constant.
func maskIDs(v any) any {
	switch v := v.(type) {
	case map[string]any:
		if len(v) == 3 {
			if _, ok := v["id"].(int64); ok {
				if _, ok := v["key"].(string); ok {
					if val, ok := v["value"]; ok {
						return map[string]any{"id": "#", "key": v["key"], "value": val}
					}
				}
			}
		}
	}
	return v
}

func maskedList(items []any) string {
	parts := make([]string, len(items))
	for i, it := range items {
		parts[i] = h.Canon(maskIDs(it))
	}
	return "[" + strings.Join(parts, " | ") + "]"
}

func containsKind(n *gen.N, k gen.Kind) bool {
	found := false
	n.Walk(func(x *gen.N) {
		if x.K == k {
			found = true
		}
	})
	return found
}

func hasMethod(n *gen.N, name string) bool {
	found := false
	n.Walk(func(x *gen.N) {
		if x.K == gen.KMethod && x.S == name {
			found = true
		}
	})
	return found
}

// idsFlow reports whether keyvalue ids can reach anything but the result
// (a step after .keyvalue(), a wildcard, a predicate): then masking is not enough.
func idsFlow(n *gen.N) bool {
	flow := false
	for x := n; x != nil; x = x.Next {
		if x.K == gen.KMethod && x.S == "keyvalue" && x.Next != nil {
			// (.key / .value right after it leave the id behind)
			if nx := x.Next; !(nx.K == gen.KKey && (nx.S == "key" || nx.S == "value")) {
				flow = true
			}
		}
		for _, sub := range []*gen.N{x.A, x.B} {
			if sub != nil && hasMethod(sub, "keyvalue") {
				flow = true
			}
		}
		for _, s := range x.Subs {
			for _, b := range s {
				if b != nil && hasMethod(b, "keyvalue") {
					flow = true
				}
			}
		}
	}
	return flow
}

// jsonOf encodes an item as JSON text for use as a document (false if not encodable).
func jsonOf(v any) (string, bool) {
	switch v.(type) {
	case nil, bool, string, float64, json.Number, []any, map[string]any:
	case int64:
	default:
		return "", false // datetime values etc.
	}
	b, err := json.Marshal(v)
	if err != nil {
		return "", false
	}
	return string(b), true
}

type c09Case struct {
	lax    bool
	chain  *gen.N // head + steps (top-level chain)
	split  int    // number of steps in P
	doc    string
	useNum bool
	tz     bool
	vars   string
	silent bool
	spare  bool // the document's arrays are cut out of one backing array (h.SpareCap)
}

func (k *c09Case) texts() (full, p, s string) {
	full = gen.Spell(&gen.Path{Lax: k.lax, Root: k.chain}, nil)
	pc := k.chain.Clone()
	x := pc
	for i := 0; i < k.split; i++ {
		x = x.Next
	}
	suffix := x.Next
	x.Next = nil
	p = gen.Spell(&gen.Path{Lax: k.lax, Root: pc}, nil)
	sroot := &gen.N{K: gen.KRoot, Next: suffix}
	s = gen.Spell(&gen.Path{Lax: k.lax, Root: sroot}, nil)
	return
}

func checkSplit(c *h.Ctx, k *c09Case) {
	full, ptxt, stxt := k.texts()
	cs := h.Case{Kind: "split", Path: full, Doc: k.doc, UseNum: k.useNum, Vars: k.vars, TZ: k.tz, Extra: map[string]string{"P": ptxt, "S": stxt, "split": fmt.Sprint(k.split)}}
	pf, e1, p1 := h.ParseSafe(full)
	pp, e2, p2 := h.ParseSafe(ptxt)
	ps, e3, p3 := h.ParseSafe(stxt)
	if e1 != nil || e2 != nil || e3 != nil || p1+p2+p3 != "" {
		c.Count("gen.unparsable", 1)
		return
	}
	doc := h.Decode(k.doc, k.useNum)
	if k.spare || (len(k.doc)+k.split)%3 == 0 {
		// arrays cut out of one backing array, with spare capacity: a step
		// that appends to a slice of the document changes what later steps see
		doc = h.SpareCap(doc)
	}
	opts := h.Opts{Vars: h.DecodeVars(k.vars, k.useNum), TZ: k.tz}
	hook := func(o *h.Out) {
		if len(o.Faults) > 0 {
			cl := "context"
			if strings.HasPrefix(o.Faults[0], "not-quiescent") {
				cl = "quiescent"
			}
			c.Violate(cl, h.F("fault", faultKind(o.Faults[0])), "hook invariant failed: "+strings.Join(o.Faults, "; "), cs)
		} else {
			c.Held("context")
			c.Held("quiescent")
		}
	}
	if k.silent {
		checkSplitSilent(c, k, pf, pp, ps, doc, opts, cs, hook)
		return
	}
	of := h.Call("query", pf, doc, opts)
	op := h.Call("query", pp, doc, opts)
	c.Eval(2)
	hook(of)
	hook(op)
	if of.Class == h.Panic || op.Class == h.Panic {
		c.Skip("split.items", "panic-is-C05")
		return
	}
	if op.Class != h.OK {
		// P fails: P S must fail too
		if of.Class == h.OK {
			c.Violate("P-fails", h.F("mode", modeName(k.lax), "P", op.Class), fmt.Sprintf("Query(P) fails with %s but Query(P S) returned %s", op.ErrText(), of.Summary()), cs)
		} else {
			c.Held("P-fails")
		}
		return
	}
	if len(op.Items) > 0 {
		c.Distinct(full, fmt.Sprint(k.split), k.doc, fmt.Sprint(k.useNum, k.tz))
	}
	// concatenate Query($ S, x) over the items of P; the items are passed as
	// the very values P returned (sub-values of the document), not copies.
	var want []any
	var wantErr *h.Out
	for _, x := range op.Items {
		ox := h.Call("query", ps, x, opts)
		c.Eval(1)
		hook(ox)
		if ox.Class == h.Panic {
			c.Skip("split.items", "panic-is-C05")
			return
		}
		if ox.Class != h.OK {
			wantErr = ox
			break
		}
		want = append(want, ox.Items...)
	}
	feat := h.F("mode", modeName(k.lax))
	if wantErr != nil {
		if of.Class != wantErr.Class || of.ErrText() != wantErr.ErrText() {
			feat["want"] = wantErr.Class
			feat["got"] = of.Class
			c.Violate("split.err", feat, fmt.Sprintf("Query($ S, x) fails with %s for an item x of P, but Query(P S) returned %s", wantErr.Summary(), of.Summary()), cs)
		} else {
			c.Held("split.err")
		}
		return
	}
	if of.Class != h.OK {
		feat["got"] = of.Class
		c.Violate("split.err", feat, fmt.Sprintf("every Query($ S, x) succeeds (concatenation %s) but Query(P S) returned %s", maskedList(want), of.Summary()), cs)
		return
	}
	if maskedList(of.Items) != maskedList(want) {
		c.Violate("split.items", feat, fmt.Sprintf("Query(P S) = %s but the concatenation over P's items %s of Query($ S, x) = %s", maskedList(of.Items), maskedList(op.Items), maskedList(want)), cs)
	} else {
		c.Held("split.items")
		// asked only whether P S selects anything: some item of P has an S-item
		// (every Query($ S, x) succeeded, so nothing can fail on the way)
		if !k.silent {
			oe := h.Call("exists", pf, doc, opts)
			c.Eval(1)
			if oe.Class != h.Panic && (oe.Class != h.OK || oe.Bool != (len(want) > 0)) {
				c.Violate("split.items", h.F("mode", modeName(k.lax), "entry", "exists"), fmt.Sprintf("Exists(P S) = %s but Query($ S, x) over P's items %s gives %s", oe.Summary(), maskedList(op.Items), maskedList(want)), cs)
			}
		}
		if c.WantSample("split") {
			c.Sample("split", map[string]any{"P": ptxt, "S": stxt, "doc": k.doc, "result": maskedList(of.Items)})
		}
	}
}

// checkSplitSilent is the composition law under WithSilent: "failing where
// the first of those fails" then reads "ending where the first of those
// fails, with what that one had found". P itself must succeed.
func checkSplitSilent(c *h.Ctx, k *c09Case, pf, pp, ps *path.Path, doc any, opts h.Opts, cs h.Case, hook func(*h.Out)) {
	so := opts
	so.Silent = true
	cs.Silent = true
	op := h.Call("query", pp, doc, opts)
	of := h.Call("query", pf, doc, so)
	c.Eval(2)
	hook(of)
	hook(op)
	if op.Class != h.OK || of.Class == h.Panic {
		c.Skip("split.silent", "P-fails-or-panic")
		return
	}
	var want []any
	hard := ""
	for _, x := range op.Items {
		vx := h.Call("query", ps, x, opts)
		c.Eval(1)
		hook(vx)
		if vx.Class == h.OK {
			want = append(want, vx.Items...)
			continue
		}
		if vx.Class == h.Soft {
			sx := h.Call("query", ps, x, so)
			c.Eval(1)
			hook(sx)
			if sx.Class != h.OK {
				c.Skip("split.silent", "silent-suffix-fails-is-C08")
				return
			}
			want = append(want, sx.Items...)
			break
		}
		if vx.Class == h.Hard {
			hard = vx.ErrText()
			break
		}
		c.Skip("split.silent", "panic-or-invalid-is-C05")
		return
	}
	if len(op.Items) > 0 {
		c.Distinct("silent", cs.Path, fmt.Sprint(k.split), k.doc, fmt.Sprint(k.useNum, k.tz))
	}
	feat := h.F("mode", modeName(k.lax))
	switch {
	case hard != "":
		if of.Class != h.Hard || of.ErrText() != hard {
			c.Violate("split.silent", feat, fmt.Sprintf("Query($ S, x) fails with the non-suppressible %s for an item x of P, but silent Query(P S) returned %s", hard, of.Summary()), cs)
		} else {
			c.Held("split.silent")
		}
	case of.Class != h.OK:
		c.Violate("split.silent", feat, fmt.Sprintf("silent Query(P S) returned %s; per item of P the suffix gives %s", of.Summary(), maskedList(want)), cs)
	case maskedList(of.Items) != maskedList(want):
		c.Violate("split.silent", feat, fmt.Sprintf("silent Query(P S) = %s but the per-item evaluation up to and including the first failing item gives %s (items of P: %s)", maskedList(of.Items), maskedList(want), maskedList(op.Items)), cs)
	default:
		c.Held("split.silent")
	}
}

func checkHead(c *h.Ctx, lax bool, head *gen.N, steps *gen.N, valueJSON string, useNum bool) {
	// head S on any document  ==  $ S on the value
	hc := head.Clone()
	hc.Next = steps.Clone()
	htxt := gen.Spell(&gen.Path{Lax: lax, Root: hc}, nil)
	rtxt := gen.Spell(&gen.Path{Lax: lax, Root: &gen.N{K: gen.KRoot, Next: steps.Clone()}}, nil)
	clause := "literal-head"
	vars := `{"x":` + valueJSON + `}`
	if head.K == gen.KVar {
		clause = "var-head"
	}
	cs := h.Case{Kind: "head", Path: htxt, Doc: valueJSON, UseNum: useNum, Vars: vars, Extra: map[string]string{"root-path": rtxt, "clause": clause}}
	ph, e1, p1 := h.ParseSafe(htxt)
	pr, e2, p2 := h.ParseSafe(rtxt)
	if e1 != nil || e2 != nil || p1+p2 != "" {
		c.Count("gen.unparsable", 1)
		return
	}
	opts := h.Opts{Vars: h.DecodeVars(vars, useNum)}
	val := h.Decode(valueJSON, useNum)
	oh := h.Call("query", ph, "unrelated document", opts)
	or := h.Call("query", pr, val, opts)
	c.Eval(2)
	c.Distinct(htxt, valueJSON, fmt.Sprint(useNum))
	if oh.Class == h.Panic || or.Class == h.Panic {
		c.Skip(clause, "panic-is-C05")
		return
	}
	same := oh.Class == or.Class && (oh.Class != h.OK || maskedList(oh.Items) == maskedList(or.Items)) && (oh.Class == h.OK || oh.ErrText() == or.ErrText())
	if !same {
		c.Violate(clause, h.F("mode", modeName(lax)), fmt.Sprintf("Query(%s) = %s but Query(%s, value) = %s", htxt, oh.Summary(), rtxt, or.Summary()), cs)
		return
	}
	c.Held(clause)
	// the same when nothing is collected (does an item exist) and when only
	// the first item is wanted
	for _, entry := range []string{"exists", "first"} {
		eh := h.Call(entry, ph, "unrelated document", opts)
		er := h.Call(entry, pr, val, opts)
		c.Eval(2)
		if eh.Class == h.Panic || er.Class == h.Panic {
			continue
		}
		same := eh.Class == er.Class && eh.Bool == er.Bool && (eh.Class != h.OK || maskedList([]any{eh.Val}) == maskedList([]any{er.Val}))
		if !same {
			c.Violate(clause, h.F("mode", modeName(lax), "entry", entry), fmt.Sprintf("%s(%s) = %s but %s(%s, value) = %s", entry, htxt, eh.Summary(), entry, rtxt, er.Summary()), cs)
			return
		}
		c.Held(clause)
	}
}

// atToRoot returns a copy of the chain in which every @ that belongs to the
// chain's own filter level (not to a filter nested inside it) is replaced by $.
func atToRoot(n *gen.N) *gen.N {
	if n == nil {
		return nil
	}
	m := *n
	if m.K == gen.KCurrent {
		m.K = gen.KRoot
	}
	if n.K != gen.KFilter {
		m.A = atToRoot(n.A)
	}
	m.B = atToRoot(n.B)
	if n.Subs != nil {
		m.Subs = make([][2]*gen.N, len(n.Subs))
		for i, sb := range n.Subs {
			m.Subs[i] = [2]*gen.N{atToRoot(sb[0]), atToRoot(sb[1])}
		}
	}
	m.Next = atToRoot(n.Next)
	return &m
}

// checkOuterCurrent: in the filter $ ? (exists(@ STEPS)) applied to a document
// D that the filter does not unwrap, @ at the filter's own level denotes D,
// i.e. what $ denotes - also in the steps that follow a nested filter or a
// nested subscript. So the filter keeps D exactly if Exists($ STEPS', D) is
// true, where STEPS' has those @ replaced by $.
func checkOuterCurrent(c *h.Ctx, lax bool, chain *gen.N, docTxt string, useNum bool, vars string) {
	f1 := &gen.N{K: gen.KRoot, Next: &gen.N{K: gen.KFilter, A: &gen.N{K: gen.KUn, S: "exists", A: chain.Clone()}}}
	t1 := gen.Spell(&gen.Path{Lax: lax, Root: f1}, nil)
	t2 := gen.Spell(&gen.Path{Lax: lax, Root: atToRoot(chain)}, nil)
	cs := h.Case{Kind: "outer-current", Path: t1, Doc: docTxt, UseNum: useNum, Vars: vars, Extra: map[string]string{"with-root": t2}}
	p1, e1, pn1 := h.ParseSafe(t1)
	p2, e2, pn2 := h.ParseSafe(t2)
	if e1 != nil || e2 != nil || pn1+pn2 != "" {
		c.Count("gen.unparsable", 1)
		return
	}
	doc := h.Decode(docTxt, useNum)
	if _, isArr := doc.([]any); isArr && lax {
		c.Skip("outer-current", "lax-filter-unwraps-document")
		return
	}
	opts := h.Opts{Vars: h.DecodeVars(vars, useNum)}
	o1 := h.Call("query", p1, doc, opts)
	o2 := h.Call("exists", p2, doc, opts)
	c.Eval(2)
	if o1.Class == h.Panic || o2.Class == h.Panic {
		c.Skip("outer-current", "panic-is-C05")
		return
	}
	if o2.Class == h.OK && o2.Bool {
		c.Distinct(t1, docTxt, fmt.Sprint(useNum))
	}
	feat := h.F("mode", modeName(lax))
	var want string
	switch {
	case o2.Class == h.OK && o2.Bool:
		want = "[" + h.Canon(doc) + "]"
	case o2.Class == h.OK || o2.Class == h.Soft:
		want = "[]"
	default:
		want = o2.Class + ":" + o2.ErrText()
	}
	got := o1.Class + ":" + o1.ErrText()
	if o1.Class == h.OK {
		got = h.CanonList(o1.Items)
	}
	if got != want {
		c.Violate("outer-current", feat, fmt.Sprintf("Query(%s) = %s but Exists(%s) = %s on the same document", t1, o1.Summary(), t2, o2.Summary()), cs)
		return
	}
	c.Held("outer-current")
	if c.WantSample("outer-current." + o2.Class) {
		c.Sample("outer-current."+o2.Class, map[string]any{"filter": t1, "with-root": t2, "doc": docTxt, "result": o1.Summary()})
	}
}

// outerCurrentChain builds @ STEPS where a nested filter (or nested subscript)
// is followed by steps that mention @ again.
func outerCurrentChain(g *gen.G) *gen.N {
	r := g.R
	chain := &gen.N{K: gen.KCurrent}
	if r.IntN(3) == 0 {
		// free form
		for j := 1 + r.IntN(4); j > 0; j-- {
			chain.Append(g.Step(2, true, false))
		}
		return chain
	}
	key := func() *gen.N { return &gen.N{K: gen.KKey, S: g.C.Keys[r.IntN(len(g.C.Keys))]} }
	atExpr := func() *gen.N {
		e := &gen.N{K: gen.KCurrent}
		switch r.IntN(5) {
		case 0:
			e.Append(&gen.N{K: gen.KMethod, S: "size"})
		case 1:
			e.Append(key())
			e.Append(key())
		default:
			e.Append(key())
		}
		if r.IntN(4) == 0 {
			return &gen.N{K: gen.KBin, S: []string{"+", "-"}[r.IntN(2)], A: e, B: &gen.N{K: gen.KInt, I: int64(r.IntN(2))}}
		}
		return e
	}
	for j := r.IntN(3); j > 0; j-- {
		if r.IntN(4) == 0 {
			chain.Append(&gen.N{K: gen.KAnyArray})
		} else {
			chain.Append(key())
		}
	}
	if r.IntN(4) > 0 {
		chain.Append(&gen.N{K: gen.KFilter, A: g.Pred(1, true, false)})
	} else {
		chain.Append(&gen.N{K: gen.KIndex, Subs: [][2]*gen.N{{atExpr(), nil}}})
	}
	for j := r.IntN(2); j > 0; j-- {
		chain.Append(key())
	}
	sub := [2]*gen.N{atExpr(), nil}
	if r.IntN(4) == 0 {
		sub[1] = &gen.N{K: gen.KLast}
	}
	chain.Append(&gen.N{K: gen.KIndex, Subs: [][2]*gen.N{sub}})
	if r.IntN(3) == 0 {
		chain.Append(g.Step(1, true, false))
	}
	return chain
}

// outerCurrentDoc: an object whose members and whose nested objects carry
// small integers under the same keys, so that @.k differs between levels.
func outerCurrentDoc(r *rand.Rand, keys []string) string {
	var obj func(depth int) string
	val := func(depth int) string {
		switch x := r.IntN(10); {
		case x < 4:
			return fmt.Sprint(r.IntN(3))
		case x < 7 && depth > 0:
			n := 1 + r.IntN(3)
			parts := make([]string, n)
			for i := range parts {
				if r.IntN(2) == 0 && depth > 1 {
					parts[i] = obj(depth - 1)
				} else {
					parts[i] = fmt.Sprint(10 * (i + 1))
				}
			}
			return "[" + strings.Join(parts, ",") + "]"
		case x < 9 && depth > 0:
			return obj(depth - 1)
		}
		return []string{`"a"`, "true", "null"}[r.IntN(3)]
	}
	obj = func(depth int) string {
		var parts []string
		for _, k := range keys {
			if r.IntN(4) > 0 {
				parts = append(parts, fmt.Sprintf("%q:%s", k, val(depth)))
			}
		}
		return "{" + strings.Join(parts, ",") + "}"
	}
	return obj(3)
}

func replayC09(c *h.Ctx, cs h.Case) {
	switch cs.Kind {
	case "split":
		p, err, pan := h.ParseSafe(cs.Path)
		if err != nil || pan != "" {
			c.Note("replay: path does not parse")
			return
		}
		ap := gen.FromAST(p.AST)
		var split int
		fmt.Sscan(cs.Extra["split"], &split)
		checkSplit(c, &c09Case{lax: ap.Lax, chain: ap.Root, split: split, doc: cs.Doc, useNum: cs.UseNum, tz: cs.TZ, vars: cs.Vars, silent: cs.Silent})
	case "outer-current":
		p, err, pan := h.ParseSafe(cs.Path)
		if err != nil || pan != "" {
			c.Note("replay: path does not parse")
			return
		}
		ap := gen.FromAST(p.AST)
		if ap.Root.Next == nil || ap.Root.Next.K != gen.KFilter || ap.Root.Next.A == nil || ap.Root.Next.A.A == nil {
			c.Note("replay: not a $ ? (exists(...)) path")
			return
		}
		checkOuterCurrent(c, ap.Lax, ap.Root.Next.A.A, cs.Doc, cs.UseNum, cs.Vars)
	case "head":
		p, err, pan := h.ParseSafe(cs.Path)
		if err != nil || pan != "" {
			c.Note("replay: path does not parse")
			return
		}
		ap := gen.FromAST(p.AST)
		head := ap.Root.Clone()
		steps := head.Next
		head.Next = nil
		if steps == nil {
			return
		}
		checkHead(c, ap.Lax, head, steps, cs.Doc, cs.UseNum)
	}
}

func runC09(c *h.Ctx) {
	// "after a nested subscript last again denotes the outer array": also in
	// the steps that follow the nested subscript (shared with C14)
	checkLastScope(c, "outer-last")
	// arrays that lie next to each other in one backing array (pages cut out of
	// one slice), several of them reaching the same final step: what a step
	// appends must not land in the array that follows
	{
		// ... and a unary operator over several items whose continuation evaluates
		// conditions with several items on either side (the operator's items are
		// handed on one by one while those conditions use lists of their own)
		udocs := []string{`{"a":[1,2,3,4]}`, `{"a":[5,-6,7]}`, `{"a":[[1,2],[3]]}`}
		uptxts := []string{`(-$.a[*]) ? ($arr[*] > @)`, `(-$.a[*]) ? (@ < $sarr[*] || $arr[*] >= @)`, `(+$.a[*]) ? ($arr[0 to 1] != @).abs()`, `(-$.a[*]) ? ($arr[*] > @) ? ($arr[1,0] > @)`,
			`(-$.a[*]) ? (@ * 1 < $arr[*])`, `(-$.a) ? (exists($arr[*] ? (@ > 0)))`, `(-$.a[*]) ? ($arr[*] > @).type()`, `(-(-$.a[*])) ? ($arr[*] <= @)`}
		uk := 0
		for _, d := range udocs {
			for _, pt := range uptxts {
				for _, lax := range []bool{true, false} {
					uk++
					if !c.Mine(uk) {
						continue
					}
					p, err, pan := h.ParseSafe(map[bool]string{true: "", false: "strict "}[lax] + pt)
					if err != nil || pan != "" {
						continue
					}
					chain := gen.FromAST(p.AST).Root
					nsteps := 0
					for x := chain.Next; x != nil; x = x.Next {
						nsteps++
					}
					for split := 0; split < nsteps; split++ {
						for _, useNum := range []bool{false, true} {
							checkSplit(c, &c09Case{lax: lax, chain: chain, split: split, doc: d, useNum: useNum, vars: stdVars1, spare: split%2 == 0})
						}
					}
				}
			}
		}
		docs := []string{`{"rows":[[1,2],[3,4],[5,6]],"all":[0,0,0]}`, `[[1],[2,3],[4,5,6]]`, `{"a":[[{"x":1}],[{"x":2},{"x":3}]],"b":[9,8]}`, `[[[1,2],[3]],[[4],[5,6]]]`, `{"rows":[[],[7],[8,9]]}`}
		ptxts := []string{`$.rows[*][*]`, `$.rows[0,1,2][*]`, `$.rows[0 to last][*]`, `$.**{1}[*]`, `$.**{1 to 2}[*]`, `$[*][*]`, `$[*][*][*]`, `$.a[*][*].x`, `$.a[*][*]`, `$[0 to last][*]`, `$.rows[*][0 to last]`, `$[*][*] ? (@ > 1)`,
			`$[*][0 to last]`, `$.rows[*][*].type()`, `$.rows[*] ? (@.size() > 0)[*]`, `$[last,0][*]`, `$.rows[last,0,1][*]`}
		k := 0
		for _, d := range docs {
			for _, pt := range ptxts {
				for _, lax := range []bool{true, false} {
					k++
					if !c.Mine(k) {
						continue
					}
					p, err, pan := h.ParseSafe(map[bool]string{true: "", false: "strict "}[lax] + pt)
					if err != nil || pan != "" {
						continue
					}
					chain := gen.FromAST(p.AST).Root
					if exposesOrder(&gen.Path{Root: chain}) && hasMultiMemberObject(h.Decode(d, false)) {
						continue // the order of the members is open
					}
					nsteps := 0
					for x := chain.Next; x != nil; x = x.Next {
						nsteps++
					}
					for split := 0; split < nsteps; split++ {
						pfx := chain.Clone()
						y := pfx
						for j := 0; j < split; j++ {
							y = y.Next
						}
						y.Next = nil
						if !lax && containsTopLevelAny(pfx) {
							continue
						}
						for _, useNum := range []bool{false, true} {
							checkSplit(c, &c09Case{lax: lax, chain: chain, split: split, doc: d, useNum: useNum, vars: stdVars1, spare: true, silent: split%2 == 1})
						}
					}
				}
			}
		}
	}
	// the pairs of .keyvalue() handed through steps that leave them as they
	// are (a filter on key or value, a subscript or wildcard that wraps, a
	// zero-level descent): each pair that arrives is the pair that was made for
	// its member, however many follow it (ids masked)
	{
		docs := []string{`{"a":2,"b":3,"c":0}`, `{"k":{"a":2,"b":3,"c":0},"m":{"x":[1,2],"y":{"z":1}}}`, `[{"a":2,"b":3},{"c":5,"d":1,"e":4}]`, `{"a":"x","b":null,"c":[3],"d":{"e":1}}`}
		ptxts := []string{`$.keyvalue() ? (@.value > 1)`, `$.keyvalue() ? (@.key != "a")`, `$.keyvalue()[*]`, `$.keyvalue()[0]`, `$.keyvalue()[last]`, `$.keyvalue().**{0}`, `$.keyvalue() ? (exists(@.key))`, `$.keyvalue() ? (@.value > 1)[*]`,
			`$.k.keyvalue() ? (@.value >= 0)`, `$.*.keyvalue() ? (@.key != "zz")`, `$[*].keyvalue() ? (@.value > 1)`, `$[*].keyvalue()[0 to last]`, `$.keyvalue() ? (@.value > 1).value`, `$.keyvalue() ? (@.key like_regex "^[a-c]$") ? (@.value != 0)`,
			`$.keyvalue() ? (@.value.type() != "null")`, `$[0 to last].keyvalue()[*] ? (@.value > 0)`, `$.keyvalue().**{0 to 0} ? (@.key >= "a")`, `$.keyvalue()[0 to 0][*]`}
		k := 0
		for _, d := range docs {
			for _, pt := range ptxts {
				for _, lax := range []bool{true, false} {
					k++
					if !c.Mine(k) {
						continue
					}
					p, err, pan := h.ParseSafe(map[bool]string{true: "", false: "strict "}[lax] + pt)
					if err != nil || pan != "" {
						continue
					}
					chain := gen.FromAST(p.AST).Root
					if exposesOrder(&gen.Path{Root: chain}) {
						continue // (.* over several members: the order is open)
					}
					nsteps := 0
					for x := chain.Next; x != nil; x = x.Next {
						nsteps++
					}
					for split := 0; split < nsteps; split++ {
						for _, useNum := range []bool{false, true} {
							checkSplit(c, &c09Case{lax: lax, chain: chain, split: split, doc: d, useNum: useNum, vars: stdVars1, spare: split%2 == 0, silent: split%3 == 2})
						}
					}
				}
			}
		}
	}
	// thousands of items for most of which the condition of a filter fails
	// quietly (an operand that is no number, a missing member in strict mode):
	// the ten-thousandth item is filtered like the first
	{
		var els []string
		for i := 0; i < 6000; i++ {
			els = append(els, []string{`"x"`, `{"b":1}`, `"y"`}[i%3])
		}
		els = append(els, `"5"`, `7`, `{"a":9}`)
		long := "[" + strings.Join(els, ",") + "]"
		k := 0
		for _, pt := range []string{`$[*] ? (@.double() > 1)`, `strict $[*] ? (@.a > 1)`, `$[*] ? (exists(@.double()))`, `$[*] ? (@.double() > 1 || @.a == 9)`, `$[*] ? (-@ < 0)`, `strict $[*] ? ((@.a == 9) is unknown).b`, `$[0 to last] ? (@.integer() == 7)`} {
			k++
			if !c.Mine(k) {
				continue
			}
			p, err, pan := h.ParseSafe(pt)
			if err != nil || pan != "" {
				continue
			}
			checkSplit(c, &c09Case{lax: p.IsLax(), chain: gen.FromAST(p.AST).Root, split: 1, doc: long, useNum: k%2 == 0, vars: stdVars1})
		}
	}
	r := c.Rand("c09")
	g := &gen.G{R: r, C: gen.DefaultCfg()}
	g.C.Datetime = true
	g.C.HardErrs = true
	dc := gen.DefaultDocCfg()
	n := c.PerShard(c.N(600000, 6000000))
	for i := 0; i < n; i++ {
		lax := r.IntN(2) == 0
		// a top-level chain from $ with 2..6 steps
		chain := &gen.N{K: gen.KRoot}
		nsteps := 2 + r.IntN(5)
		for j := 0; j < nsteps; j++ {
			chain.Append(g.Step(2, false, false))
		}
		d := dc
		vars := stdVars
		if exposesOrder(&gen.Path{Root: chain}) {
			d.MaxMembers = 1
			vars = stdVars1
		}
		doc := gen.Doc(r, d)
		if i%16 == 9 {
			// the same literal subscript applied, in one execution, to arrays
			// of different lengths (in bounds for one, out of bounds for another)
			lens := []int{1 + r.IntN(3), 1 + r.IntN(3), 1 + r.IntN(3)}
			rows := make([]string, len(lens))
			for ri, ln := range lens {
				el := make([]string, ln)
				for ei := range el {
					el[ei] = fmt.Sprintf(`{"x":%d}`, 10*ri+ei)
				}
				rows[ri] = "[" + strings.Join(el, ",") + "]"
			}
			doc = `{"a":[` + strings.Join(rows, ",") + `]}`
			sub := [][2]*gen.N{{&gen.N{K: gen.KInt, I: int64(r.IntN(3))}, nil}}
			if r.IntN(3) == 0 {
				sub[0][1] = &gen.N{K: gen.KInt, I: int64(1 + r.IntN(2))}
			}
			if r.IntN(4) == 0 {
				sub = append(sub, [2]*gen.N{{K: gen.KInt, I: 0}, nil})
			}
			chain = &gen.N{K: gen.KRoot, Next: &gen.N{K: gen.KKey, S: "a", Next: &gen.N{K: gen.KAnyArray, Next: &gen.N{K: gen.KIndex, Subs: sub}}}}
			if r.IntN(2) == 0 {
				chain.Append(&gen.N{K: gen.KKey, S: "x"})
			}
			nsteps = 0
			for x := chain.Next; x != nil; x = x.Next {
				nsteps++
			}
			lax = r.IntN(3) == 0
			vars = stdVars1
		}
		if i%12 == 7 && nsteps >= 3 {
			// the first steps inside a parenthesised unary expression, the
			// rest applied to every item it yields: (-$.a[*]) ? (@ < -4) ...
			cut := chain
			for j := 1 + r.IntN(2); j > 0; j-- {
				cut = cut.Next
			}
			rest := cut.Next
			cut.Next = nil
			chain = &gen.N{K: gen.KUn, S: []string{"-", "+"}[r.IntN(2)], A: chain, Next: rest}
			nsteps = 0
			for x := chain.Next; x != nil; x = x.Next {
				nsteps++
			}
		}
		if i%8 == 5 {
			// a recursive descent evaluated for existence inside the filter
			// of another one, over overlapping containers
			lit := int64(1 + r.IntN(2))
			inner := &gen.N{K: gen.KCurrent, Next: &gen.N{K: gen.KAny, First: int64(r.IntN(2)), Last: []int64{-1, 2, 3}[r.IntN(3)],
				Next: &gen.N{K: gen.KFilter, A: &gen.N{K: gen.KBin, S: "==", A: &gen.N{K: gen.KCurrent}, B: &gen.N{K: gen.KInt, I: lit}}}}}
			var cond *gen.N = &gen.N{K: gen.KUn, S: "exists", A: inner}
			if r.IntN(4) == 0 {
				cond = &gen.N{K: gen.KUn, S: "!", A: cond}
			}
			chain = &gen.N{K: gen.KRoot}
			chain.Append([]*gen.N{{K: gen.KAny, First: 0, Last: -1}, {K: gen.KAny, First: 1, Last: 2}, {K: gen.KAnyArray}, {K: gen.KAny, First: 0, Last: 1}}[r.IntN(4)])
			chain.Append(&gen.N{K: gen.KFilter, A: cond})
			if r.IntN(3) == 0 {
				chain.Append(&gen.N{K: gen.KMethod, S: "type"})
			}
			nsteps = 0
			for x := chain.Next; x != nil; x = x.Next {
				nsteps++
			}
			dd := gen.DocCfg{Depth: 5, MaxKids: 3, MaxMembers: 1, Keys: []string{"a", "b"}, Strs: []string{"s"}, Nums: []string{"1", "2", "3"}}
			doc = gen.Doc(r, dd)
			vars = stdVars1
		}
		if i%8 == 3 {
			// a filter whose condition looks a value up in a variable by a
			// member of the current item ($arr[@.a]): the suffix is still
			// root-independent, but its operand differs from item to item
			pre, cond, cdoc := crossRef(r, true)
			chain = pre
			chain.Append(&gen.N{K: gen.KFilter, A: cond})
			if r.IntN(2) == 0 {
				// (the items have several members: nothing that expands them)
				if st := g.Step(1, false, false); !exposesOrder(&gen.Path{Root: st}) && !hasMethod(st, "keyvalue") {
					chain.Append(st)
				}
			}
			nsteps = 0
			for x := chain.Next; x != nil; x = x.Next {
				nsteps++
			}
			doc = cdoc
		}
		useNum := r.IntN(2) == 0
		tz := r.IntN(3) == 0
		// every split point
		for split := 0; split < nsteps; split++ {
			// suffix = steps after the first `split` steps
			x := chain
			for j := 0; j < split; j++ {
				x = x.Next
			}
			suffix := x.Next
			if suffix == nil {
				break
			}
			if containsKind(suffix, gen.KRoot) {
				c.Skip("split.items", "suffix-uses-root")
				continue
			}
			// prefix
			pfx := chain.Clone()
			y := pfx
			for j := 0; j < split; j++ {
				y = y.Next
			}
			y.Next = nil
			if !lax && containsTopLevelAny(pfx) {
				c.Skip("split.items", "strict-prefix-has-recursive-descent")
				continue
			}
			if idsFlow(chain) {
				c.Skip("split.items", "keyvalue-ids-flow")
				continue
			}
			if exposesOrder(&gen.Path{Root: chain}) && hasMethod(chain, "keyvalue") {
				c.Skip("split.items", "member-order-open")
				continue
			}
			checkSplit(c, &c09Case{lax: lax, chain: chain, split: split, doc: doc, useNum: useNum, tz: tz, vars: vars, silent: (i+split)%4 == 0})
		}
		// @ after nested constructs inside a filter
		if i%2 == 0 {
			oc := outerCurrentChain(g)
			ocp := &gen.Path{Root: oc}
			switch {
			case idsFlow(oc) || hasMethod(oc, "keyvalue") && exposesOrder(ocp):
				c.Skip("outer-current", "keyvalue-ids-or-member-order")
			default:
				var od string
				if exposesOrder(ocp) {
					dd := dc
					dd.MaxMembers = 1
					od = gen.Doc(r, dd)
				} else if r.IntN(3) == 0 {
					od = gen.Doc(r, dc)
				} else {
					od = outerCurrentDoc(r, g.C.Keys)
				}
				v := stdVars
				if exposesOrder(ocp) {
					v = stdVars1
				}
				checkOuterCurrent(c, lax, oc, od, useNum, v)
			}
		}
		// variable / literal heads
		if i%4 == 0 {
			steps := chain.Next
			if steps != nil && !containsKind(steps, gen.KRoot) && !idsFlow(chain) {
				vals := []string{`1`, `"ab"`, `null`, `true`, `[1,2,{"a":3}]`, `{"b":[1,2]}`, `1.5`, `[]`, `{}`, `[[1],[2,3]]`, `"2023-08-15"`, `-2`, `1.50`, `1e2`, `12345678901234567890`, `0.10`, `-0`, `100.0`}
				v := vals[r.IntN(len(vals))]
				checkHead(c, lax, &gen.N{K: gen.KVar, S: "x"}, steps, v, useNum)
				switch v {
				case `1`:
					checkHead(c, lax, &gen.N{K: gen.KInt, I: 1}, steps, v, true) // integer representation on both sides
				case `"ab"`:
					checkHead(c, lax, &gen.N{K: gen.KStr, S: "ab"}, steps, v, useNum)
				case `null`:
					checkHead(c, lax, &gen.N{K: gen.KNull}, steps, v, useNum)
				case `true`:
					checkHead(c, lax, &gen.N{K: gen.KTrue}, steps, v, useNum)
				case `1.5`:
					checkHead(c, lax, &gen.N{K: gen.KNum, F: 1.5}, steps, v, useNum)
				case `-2`:
					checkHead(c, lax, &gen.N{K: gen.KInt, I: -2}, steps, v, true)
				}
			}
		}
	}
}

// containsTopLevelAny: the chain itself (not nested expressions) has a .** step.
func containsTopLevelAny(chain *gen.N) bool {
	for x := chain; x != nil; x = x.Next {
		if x.K == gen.KAny {
			return true
		}
	}
	return false
}

// idExposed reports whether the address-derived id of a keyvalue triple can
// reach anything: some step after a .keyvalue() selects "id", expands the
// triple's members, or applies .keyvalue() again.
func idExposed(n *gen.N) bool {
	exposed := false
	n.Walk(func(x *gen.N) {
		if x.K == gen.KMethod && x.S == "keyvalue" && x.Next != nil {
			x.Next.Walk(func(y *gen.N) {
				switch {
				case y.K == gen.KKey && y.S == "id", y.K == gen.KAnyKey, y.K == gen.KAny, y.K == gen.KMethod && y.S == "keyvalue":
					exposed = true
				}
			})
		}
	})
	return exposed
}
