package props

import (
	"encoding/json"
	"fmt"
	"math"
	"math/big"
	"strconv"
	"strings"

	"verif/internal/h"
)

func init() {
	register(&Prop{
		ID:    "C13",
		Level: "exploration",
		Rule: "exhaustive boundary grid: ~70 values (0, +-1, int32/int64 limits and neighbours, 2^53 neighbours, fractions, huge/tiny doubles, out-of-range json.Numbers) squared x 5 operators x 9 representation pairings (integer/decimal literal, float64 document value, json.Number document value), unary +/- on every value and over sequences with a non-numeric member at each position, identities -(-x)=x, x+y=y+x, x*y=y*x; random operand pairs near the boundaries; every binary case is also asked through Exists, which must fail exactly when Query fails. " +
			"Oracle: math/big exact arithmetic and correctly rounded IEEE results. Non-trivial: both operands non-zero; distinct by (operator, operands, representations)",
		Run:          runC13,
		Replay:       replayC13,
		MinExercised: map[string]int64{"int_exact": 5000, "float_ieee": 5000, "divzero": 500, "after-failure": 2000, "exists-mode": 5000, "operand-chain": 2000, "singleton": 100, "unary.map": 200, "unary.nonnumeric": 100, "identity.commute": 3000, "identity.dneg": 100},
		Assumptions: []string{
			"integer operand = integer representation (int64, or a json.Number that parses as int64); integer quotients may be truncated or exact",
			"for mixed integer/double operands both 'round operands then operate' and 'operate exactly then round' are accepted",
			"an operand outside int64 and float64 range may be rejected with a suppressible error",
		},
	})
}

var c13Grid = []string{
	"0", "1", "-1", "2", "-2", "3", "7", "10", "-10", "100",
	"2147483647", "2147483648", "-2147483648", "-2147483649", "4294967296",
	"9007199254740991", "9007199254740992", "9007199254740993", "-9007199254740993",
	"9223372036854775807", "9223372036854775806", "-9223372036854775807", "-9223372036854775808", "4611686018427387904", "3037000500", "-3037000500",
	"9223372036854775808", "18446744073709551616", "-9223372036854775809",
	"0.5", "-0.5", "1.5", "2.5", "-2.5", "0.1", "0.2", "0.3", "1e0", "1E2", "25E-1", "15E+1", "1.0", "-0.0", "3.0e0", "1e2", "2.0",
	"1e308", "-1e308", "1.7976931348623157e308", "5e-324", "-5e-324", "1e-300", "1e300", "1e19", "9.223372036854775808e18", "1e-10", "123456789.123456789",
	"1e400", "-1e400", "1e-400", "1234567890123456789012345678901234567890", "0.1234567890123456789012345678901234567890",
}

type operand struct {
	text string // JSON number text
	repr string // lit | f64 | num
}

// value of the operand as the implementation is documented to see it.
// isInt: integer representation. out: outside int64 and float64 range.
func (o operand) value() (i int64, isInt bool, f float64, exact *big.Rat, out bool) {
	exact, _ = new(big.Rat).SetString(o.text)
	switch o.repr {
	case "lit":
		if !strings.ContainsAny(o.text, ".eE") {
			v, err := strconv.ParseInt(o.text, 10, 64)
			if err == nil {
				return v, true, float64(v), exact, false
			}
		}
		ff, _ := strconv.ParseFloat(o.text, 64)
		return 0, false, ff, new(big.Rat).SetFloat64(ff), false
	case "f64":
		ff, err := strconv.ParseFloat(o.text, 64)
		if err != nil || math.IsInf(ff, 0) {
			return 0, false, 0, exact, true
		}
		return 0, false, ff, new(big.Rat).SetFloat64(ff), false
	default:
		v, err := strconv.ParseInt(o.text, 10, 64)
		if err == nil {
			return v, true, float64(v), exact, false
		}
		ff, err := strconv.ParseFloat(o.text, 64)
		if err != nil || math.IsInf(ff, 0) {
			return 0, false, 0, exact, true
		}
		// the operand is the double its text denotes
		return 0, false, ff, new(big.Rat).SetFloat64(ff), false
	}
}

// usable reports whether the operand can be written in that representation.
func (o operand) usable() bool {
	switch o.repr {
	case "lit":
		if strings.HasPrefix(o.text, "-0.0") {
			return true
		}
		if !strings.ContainsAny(o.text, ".eE") {
			_, err := strconv.ParseInt(strings.TrimPrefix(o.text, "-"), 10, 64)
			return err == nil // the literal itself (without sign) must fit
		}
		f, err := strconv.ParseFloat(o.text, 64)
		return err == nil && !math.IsInf(f, 0)
	case "f64":
		f, err := strconv.ParseFloat(o.text, 64)
		return err == nil && !math.IsInf(f, 0)
	}
	return true
}

type accept struct {
	vals   []*big.Rat
	err    bool // a suppressible error is acceptable
	noVal  bool // only an error is acceptable
	clause string
	// intOnly: both operands are integers and the exact result is an integer
	// that fits in int64 - the result is that integer, not the double the
	// IEEE operation gives (which is observably different: -0, a fraction part
	// when printed, 2^53 rounding further down the chain)
	intOnly bool
}

func ratOfFloat(f float64) *big.Rat { return new(big.Rat).SetFloat64(f) }

func nearest(r *big.Rat) (float64, bool) {
	f, _ := r.Float64()
	return f, !math.IsInf(f, 0)
}

func truncQuo(a, b *big.Rat) *big.Rat {
	q := new(big.Rat).Quo(a, b)
	return new(big.Rat).SetInt(new(big.Int).Quo(q.Num(), q.Denom()))
}

// arithOracle computes the accepted outcomes of l op r.
func arithOracle(op string, l, r operand) accept {
	li, lint, lf, lex, lout := l.value()
	ri, rint, rf, rex, rout := r.value()
	if lout || rout {
		// outside int64 and float64: may be rejected; if accepted must be the rounded exact result
		a := accept{err: true, clause: "float_ieee"}
		if lex != nil && rex != nil && !(rex.Sign() == 0 && (op == "/" || op == "%")) {
			var ex *big.Rat
			switch op {
			case "+":
				ex = new(big.Rat).Add(lex, rex)
			case "-":
				ex = new(big.Rat).Sub(lex, rex)
			case "*":
				ex = new(big.Rat).Mul(lex, rex)
			case "/":
				ex = new(big.Rat).Quo(lex, rex)
			}
			if ex != nil {
				if f, ok := nearest(ex); ok {
					a.vals = append(a.vals, ratOfFloat(f))
				}
			}
		}
		return a
	}
	zero := rex.Sign() == 0
	if (op == "/" || op == "%") && zero {
		return accept{noVal: true, err: true, clause: "divzero"}
	}
	exact := new(big.Rat)
	switch op {
	case "+":
		exact.Add(lex, rex)
	case "-":
		exact.Sub(lex, rex)
	case "*":
		exact.Mul(lex, rex)
	case "/":
		exact.Quo(lex, rex)
	case "%":
		exact.Sub(lex, new(big.Rat).Mul(rex, truncQuo(lex, rex)))
	}
	if lint && rint {
		a := accept{clause: "int_exact"}
		_ = li
		_ = ri
		if op == "/" {
			tq := truncQuo(lex, rex)
			if tq.Num().IsInt64() {
				a.vals = append(a.vals, tq)
				if exact.IsInt() {
					return a // (an exact quotient may be computed as a double: 6 / 2 = 3.0 is accepted)
				}
				if f, ok := nearest(exact); ok {
					a.vals = append(a.vals, ratOfFloat(f))
				}
				return a
			}
		} else if exact.IsInt() && exact.Num().IsInt64() {
			a.vals = append(a.vals, exact)
			a.intOnly = true
			return a
		}
		// does not fit in int64: the IEEE double result, never a wrapped integer
		a.clause = "int_exact"
		if f, ok := nearest(exact); ok {
			a.vals = append(a.vals, ratOfFloat(f))
		}
		if v, ok := ieee(op, lf, rf); ok {
			a.vals = append(a.vals, ratOfFloat(v))
		}
		if len(a.vals) == 0 {
			a.noVal, a.err = true, true
		}
		return a
	}
	a := accept{clause: "float_ieee"}
	if v, ok := ieee(op, lf, rf); ok {
		a.vals = append(a.vals, ratOfFloat(v))
	}
	if lint != rint { // mixed: also exact-then-round
		if f, ok := nearest(exact); ok {
			a.vals = append(a.vals, ratOfFloat(f))
		}
	}
	if len(a.vals) == 0 {
		// the double result overflows: it must be reported, not returned as Inf
		a.noVal, a.err = true, true
	}
	return a
}

func ieee(op string, a, b float64) (float64, bool) {
	var f float64
	switch op {
	case "+":
		f = a + b
	case "-":
		f = a - b
	case "*":
		f = a * b
	case "/":
		f = a / b
	case "%":
		f = math.Mod(a, b)
	}
	return f, !math.IsInf(f, 0) && !math.IsNaN(f)
}

func operandExpr(o operand, name string) string {
	if o.repr == "lit" {
		return "(" + o.text + ")"
	}
	return "$." + name
}

func decodeOperand(o operand) any {
	if o.repr == "num" {
		return json.Number(o.text)
	}
	f, _ := strconv.ParseFloat(o.text, 64)
	return f
}

func checkArith(c *h.Ctx, op string, l, r operand) {
	if !l.usable() || !r.usable() {
		return
	}
	ptxt := operandExpr(l, "a") + " " + op + " " + operandExpr(r, "b")
	p := cachedPath(ptxt)
	if p == nil {
		c.Count("gen.unparsable", 1)
		return
	}
	doc := map[string]any{}
	if l.repr != "lit" {
		doc["a"] = decodeOperand(l)
	}
	if r.repr != "lit" {
		doc["b"] = decodeOperand(r)
	}
	o := h.Call("query", p, doc, h.Opts{})
	c.Eval(1)
	if l.text != "0" && r.text != "0" {
		c.Distinct(op, l.text, l.repr, r.text, r.repr)
	}
	cs := h.Case{Kind: "arith", Path: ptxt, Extra: map[string]string{"op": op, "l": l.text, "lrepr": l.repr, "r": r.text, "rrepr": r.repr}}
	a := arithOracle(op, l, r)
	judgeArith(c, o, a, cs, h.F("op", op, "lrepr", l.repr, "rrepr", r.repr))
	// the same operation asked only for existence: an error stays an error
	// (division by zero is not "an item exists"), a value means true
	e := h.Call("exists", p, doc, h.Opts{})
	c.Eval(1)
	switch {
	case o.Class == h.Panic || e.Class == h.Panic || o.Class == h.Invalid:
		c.Skip("exists-mode", "panic-or-invalid-is-C05")
	case o.Class == h.OK && len(o.Items) == 1 && (e.Class != h.OK || !e.Bool), o.Class != h.OK && e.Class != o.Class:
		c.Violate("exists-mode", h.F("op", op, "query", o.Class, "exists", e.Class), fmt.Sprintf("Query(%s) returned %s but Exists returned %s", ptxt, o.Summary(), e.Summary()), cs)
	default:
		c.Held("exists-mode")
	}
	// ... and is a suppressible failure wherever it stands: as an array
	// subscript it fails the accessor when reported, ends the query quietly
	// under WithSilent, and makes a condition that needs it unknown
	if o.Class == h.Soft {
		sdoc := map[string]any{"arr": []any{10.0, 20.0, 30.0}}
		for k, v := range doc {
			sdoc[k] = v
		}
		for _, form := range []string{"$.arr[%s]", "$.arr[0 to %s]", "strict $.arr[%s, 0]", "$.arr[0, %s]"} {
			ftxt := fmt.Sprintf(form, ptxt)
			fp := cachedPath(ftxt)
			if fp == nil {
				continue
			}
			fcs := cs
			fcs.Path = ftxt
			ov := h.Call("query", fp, sdoc, h.Opts{})
			os := h.Call("query", fp, sdoc, h.Opts{Silent: true})
			oe := h.Call("exists", fp, sdoc, h.Opts{Silent: true})
			c.Eval(3)
			switch {
			case ov.Class == h.Panic || os.Class == h.Panic || oe.Class == h.Panic || ov.Class == h.Invalid:
				c.Skip("after-failure", "panic-or-invalid-is-C05")
			case ov.Class != h.Soft || os.Class != h.OK || (oe.Class != h.Null && oe.Class != h.OK):
				c.Violate("after-failure", h.F("op", op, "form", form, "verbose", ov.Class, "silent", os.Class, "silent-exists", oe.Class), fmt.Sprintf("query(%s) fails with %s; as a subscript, %s: reported %s, under WithSilent Query %s and Exists %s", ptxt, o.ErrText(), ftxt, ov.Summary(), os.Summary(), oe.Summary()), fcs)
			default:
				c.Held("after-failure")
			}
		}
		if fp := cachedPath("$ ? (@.arr[" + ptxt + "] == 10 || @.arr[0 to " + ptxt + "] > 0)"); fp != nil {
			of := h.Call("query", fp, sdoc, h.Opts{})
			c.Eval(1)
			if of.Class != h.Panic && of.Class != h.Invalid && (of.Class != h.OK || len(of.Items) != 0) {
				fcs := cs
				fcs.Path = "$ ? (@.arr[" + ptxt + "] == 10 || @.arr[0 to " + ptxt + "] > 0)"
				c.Violate("after-failure", h.F("op", op, "form", "subscript-in-filter", "got", of.Class), fmt.Sprintf("query(%s) fails with %s; a condition that subscripts with it is unknown, but %s returned %s", ptxt, o.ErrText(), fcs.Path, of.Summary()), fcs)
			} else {
				c.Held("after-failure")
			}
		}
	}
	// an operation that fails (out of range, division by zero) fails whatever
	// is written after it: steps after the parenthesised expression never get
	// an item, nor does an operator or a filter around it
	if o.Class == h.Soft {
		for fi, form := range []string{"(%s).abs()", "(%s).floor()", "(%s).ceiling()", "(%s).string()", "(%s).type()", "(%s)[0]", "(%s)[*]", "(%s) ? (@ > 1)", "-(%s)", "(%s).abs().type()", "(%s) ? (@ > 1 || @ <= 1)", "(%s)[0 to last].size()"} {
			ftxt := fmt.Sprintf(form, ptxt)
			fp := cachedPath(ftxt)
			if fp == nil {
				continue
			}
			entry := []string{"query", "first", "exists"}[fi%3]
			for _, en := range []string{"query", entry} {
				fo := h.Call(en, fp, doc, h.Opts{})
				c.Eval(1)
				fcs := cs
				fcs.Path, fcs.Entry = ftxt, en
				switch {
				case fo.Class == h.Panic || fo.Class == h.Invalid:
					c.Skip("after-failure", "panic-or-invalid-is-C05")
				case fo.Class != h.Soft:
					c.Violate("after-failure", h.F("op", op, "form", form, "entry", en, "got", fo.Class), fmt.Sprintf("%s(%s) fails with %s, but %s(%s) returned %s", "query", ptxt, o.ErrText(), en, ftxt, fo.Summary()), fcs)
				default:
					c.Held("after-failure")
				}
			}
		}
	}
}

func ratsText(rs []*big.Rat) string {
	var parts []string
	for _, r := range rs {
		f, _ := r.Float64()
		if r.IsInt() && len(r.Num().String()) < 25 {
			parts = append(parts, r.Num().String())
		} else {
			parts = append(parts, strconv.FormatFloat(f, 'g', -1, 64))
		}
	}
	return strings.Join(parts, " or ")
}

func judgeArith(c *h.Ctx, o *h.Out, a accept, cs h.Case, feat map[string]string) {
	switch o.Class {
	case h.Panic, h.Invalid:
		c.Skip(a.clause, "panic-or-invalid-is-C05")
		return
	case h.Soft:
		if a.err {
			c.Held(a.clause)
		} else {
			feat["got"] = "error"
			c.Violate(a.clause, feat, fmt.Sprintf("%s returned %s; expected %s", cs.Path, o.Summary(), ratsText(a.vals)), cs)
		}
		return
	case h.Hard:
		feat["got"] = "hard-error"
		c.Violate(a.clause, feat, fmt.Sprintf("%s returned a non-suppressible error %s", cs.Path, o.Summary()), cs)
		return
	}
	if len(o.Items) != 1 {
		feat["got"] = "not-one-item"
		c.Violate(a.clause, feat, fmt.Sprintf("%s returned %s", cs.Path, o.Summary()), cs)
		return
	}
	if f, ok := o.Items[0].(float64); ok && (math.IsInf(f, 0) || math.IsNaN(f)) {
		feat["got"] = "non-finite"
		c.Violate(a.clause, feat, fmt.Sprintf("%s returned %v instead of an error", cs.Path, f), cs)
		return
	}
	got, ok := h.Rat(o.Items[0])
	if !ok {
		feat["got"] = "not-a-number"
		c.Violate(a.clause, feat, fmt.Sprintf("%s returned %s", cs.Path, o.Summary()), cs)
		return
	}
	if a.noVal {
		feat["got"] = "value"
		c.Violate(a.clause, feat, fmt.Sprintf("%s returned %s; only an error is acceptable", cs.Path, o.Summary()), cs)
		return
	}
	for _, v := range a.vals {
		if v.Cmp(got) == 0 {
			if a.intOnly && !isIntegerItem(o.Items[0]) {
				feat["got"] = "double-instead-of-integer"
				c.Violate(a.clause, feat, fmt.Sprintf("%s returned the double %s (%T); both operands are integers and the exact result %s fits in int64, so the result is that integer", cs.Path, h.CanonTyped(o.Items[0]), o.Items[0], ratsText(a.vals)), cs)
				return
			}
			c.Held(a.clause)
			if c.WantSample(a.clause) {
				c.Sample(a.clause, map[string]any{"path": cs.Path, "operands": cs.Extra, "result": o.Summary()})
			}
			return
		}
	}
	feat["got"] = "wrong-value"
	if _, isInt := o.Items[0].(int64); isInt && a.clause == "int_exact" {
		feat["got"] = "wrong-integer"
	}
	c.Violate(a.clause, feat, fmt.Sprintf("%s returned %s; expected %s", cs.Path, o.Summary(), ratsText(a.vals)), cs)
}

// isIntegerItem: an item in an integer representation.
func isIntegerItem(v any) bool {
	switch x := v.(type) {
	case int64, int:
		return true
	case json.Number:
		return !strings.ContainsAny(string(x), ".eE")
	}
	return false
}

func replayC13(c *h.Ctx, cs h.Case) {
	e := cs.Extra
	if cs.Kind == "arith" {
		checkArith(c, e["op"], operand{e["l"], e["lrepr"]}, operand{e["r"], e["rrepr"]})
		return
	}
	runC13(c)
}

var c13Ops = []string{"+", "-", "*", "/", "%"}

// checkOperandChains: an operand may be a literal (or any expression) with
// item methods chained to it; the operator applies to what the chain yields,
// i.e. `a op (b).m()` equals `a op $v` with v = Query((b).m()).
func checkOperandChains(c *h.Ctx) {
	lits := []string{"0.5", "-0.5", "0.25", "2", "-2", "0", "1.5", "9223372036854775807", "-1", "3"}
	meths := []string{".floor()", ".ceiling()", ".abs()", ".type()", ".string()", ".double()", ".abs().floor()", ".size()", ".number()", ".bigint()"}
	k := 0
	for _, b := range lits {
		for _, m := range meths {
			inner := "(" + b + ")" + m
			for _, a := range lits {
				for _, op := range c13Ops {
					for side := 0; side < 2; side++ {
						k++
						if !c.Mine(k) {
							continue
						}
						chained, viaVar := "("+a+") "+op+" "+inner, "("+a+") "+op+" $v"
						if side == 1 {
							chained, viaVar = inner+" "+op+" ("+a+")", "$v "+op+" ("+a+")"
						}
						for _, mode := range []string{"", "strict "} {
							pi := cachedPath(mode + inner)
							if pi == nil {
								continue
							}
							oi := h.Call("query", pi, nil, h.Opts{})
							if oi.Class != h.OK || len(oi.Items) != 1 {
								continue // (an inner failure is the operand's failure: other clauses)
							}
							v := oi.Items[0]
							pc, pv := cachedPath(mode+chained), cachedPath(mode+viaVar)
							if pc == nil || pv == nil {
								c.Count("gen.unparsable", 1)
								continue
							}
							oc := h.Call("query", pc, nil, h.Opts{})
							ov := h.Call("query", pv, nil, h.Opts{Vars: map[string]any{"v": v}})
							ec := h.Call("exists", pc, nil, h.Opts{Silent: true})
							c.Eval(3)
							c.Distinct("chain", mode, chained)
							cs := h.Case{Kind: "operand-chain", Path: mode + chained, Extra: map[string]string{"via-variable": mode + viaVar, "v": h.Canon(v)}}
							same := oc.Class == ov.Class && (oc.Class != h.OK || h.CanonListTyped(oc.Items) == h.CanonListTyped(ov.Items))
							switch {
							case oc.Class == h.Panic || ov.Class == h.Panic:
								c.Skip("operand-chain", "panic-is-C05")
							case !same:
								c.Violate("operand-chain", h.F("op", op, "method", m), fmt.Sprintf("%s returned %s but %s with v = %s returned %s", mode+chained, oc.Summary(), mode+viaVar, h.Canon(v), ov.Summary()), cs)
							case oc.Class != h.OK && ec.Class == h.OK && ec.Bool:
								c.Violate("operand-chain", h.F("op", op, "method", m, "entry", "exists"), fmt.Sprintf("%s fails with %s but silent Exists returned true", mode+chained, oc.Summary()), cs)
							default:
								c.Held("operand-chain")
							}
						}
					}
				}
			}
		}
	}
}

// checkLoudAfterQuiet: an arithmetic failure inside a filter condition is
// quiet (the condition is unknown), and that is all it is: arithmetic that
// fails later in the same evaluation, outside any condition, still fails
// loudly - whatever was suppressed before it.
func checkLoudAfterQuiet(c *h.Ctx) {
	quiet := []string{"exists(@.s * 2)", "@.s * 2 > 0", "exists(@.n / 0)", "@.n / 0 > 1 || @.n == 1", "!(@.s + 1 == 2)", "@.n == @.s.double()", "@.s.double() == @.n", "(@.n % 0 == 1) is unknown", "exists(-@.s)", "@.n == -@.s",
		"exists(@ ? (@.s * 2 > 0))", "exists(@.n ? (@ / 0 > 0))", "@.n / 0 > 1 && @.s * 1 > 1", "exists(@.arr[*] * 2)", "exists(@.n + @.arr[*])", `@.s like_regex "x" && exists(@.s / 1)`, "@.n == 1"}
	loud := []string{".n / 0", ".n % 0", ".s + 1", ".s * 2", ".n / $[0].z", ".n + $[*].n", ".arr + 1", ".n - $[1].s", ".n.double() / 0", ".arr[*] / 0"}
	unary := []string{".s", ".t", ".nul"}
	doc := `[{"n":1,"s":"x","z":0,"arr":[1,2],"t":true,"nul":null},{"n":1,"s":"2","z":0,"arr":[3,4],"t":false,"nul":null}]`
	k := 0
	for _, q := range quiet {
		for _, mode := range []string{"", "strict "} {
			var forms []string
			for _, l := range loud {
				forms = append(forms, mode+"$[*] ? ("+q+")"+l, mode+"($[*] ? ("+q+" || @.n == 1))[0]"+l)
			}
			for _, u := range unary {
				forms = append(forms, mode+"-$[*] ? ("+q+" || @.n == 1)"+u, mode+"+($[*] ? ("+q+" || @.n > 0)"+u+")")
			}
			for _, ptxt := range forms {
				k++
				if !c.Mine(k) {
					continue
				}
				p := cachedPath(ptxt)
				if p == nil {
					c.Count("gen.unparsable", 1)
					continue
				}
				for _, useNum := range []bool{false, true} {
					cs := h.Case{Kind: "loud-after-quiet", Path: ptxt, Doc: doc, UseNum: useNum}
					for _, entry := range []string{"query", "first", "exists"} {
						if entry == "exists" && (strings.HasPrefix(strings.TrimPrefix(ptxt, "strict "), "-") || strings.HasPrefix(strings.TrimPrefix(ptxt, "strict "), "+")) {
							continue // what Exists answers for a unary operator as the last step is C06's business (known finding there)
						}
						o := h.Call(entry, p, h.Decode(doc, useNum), h.Opts{})
						c.Eval(1)
						switch {
						case o.Class == h.Panic || o.Class == h.Invalid:
							c.Skip("loud-after-quiet", "panic-or-invalid-is-C05")
						case o.Class != h.Soft:
							c.Violate("loud-after-quiet", h.F("entry", entry, "got", o.Class), fmt.Sprintf("%s(%s) returned %s; the arithmetic after the filter cannot succeed (zero divisor, non-numeric or non-singleton operand) and must fail with a suppressible error", entry, ptxt, o.Summary()), cs)
						default:
							c.Held("loud-after-quiet")
						}
					}
				}
				c.Distinct(ptxt)
			}
		}
	}
}

func runC13(c *h.Ctx) {
	checkOperandChains(c)
	checkLoudAfterQuiet(c)
	reprs := []string{"lit", "f64", "num"}
	idx := 0
	for _, lt := range c13Grid {
		for _, rt := range c13Grid {
			for _, lr := range reprs {
				for _, rr := range reprs {
					idx++
					if !c.Mine(idx) {
						continue
					}
					for _, op := range c13Ops {
						checkArith(c, op, operand{lt, lr}, operand{rt, rr})
					}
					// commutativity on real executions
					for _, op := range []string{"+", "*"} {
						l, r := operand{lt, lr}, operand{rt, rr}
						if !l.usable() || !r.usable() {
							continue
						}
						p1 := cachedPath(operandExpr(l, "a") + " " + op + " " + operandExpr(r, "b"))
						p2 := cachedPath(operandExpr(r, "b") + " " + op + " " + operandExpr(l, "a"))
						if p1 == nil || p2 == nil {
							continue
						}
						doc := map[string]any{}
						if l.repr != "lit" {
							doc["a"] = decodeOperand(l)
						}
						if r.repr != "lit" {
							doc["b"] = decodeOperand(r)
						}
						o1 := h.Call("query", p1, doc, h.Opts{})
						o2 := h.Call("query", p2, doc, h.Opts{})
						c.Eval(2)
						if o1.Class == h.Panic || o2.Class == h.Panic || o1.Class == h.Invalid || o2.Class == h.Invalid {
							continue
						}
						same := o1.Class == o2.Class && (o1.Class != h.OK || h.CanonList(o1.Items) == h.CanonList(o2.Items))
						if !same {
							c.Violate("identity.commute", h.F("op", op, "lrepr", lr, "rrepr", rr), fmt.Sprintf("x %s y = %s but y %s x = %s (x=%s as %s, y=%s as %s)", op, o1.Summary(), op, o2.Summary(), lt, lr, rt, rr),
								h.Case{Kind: "commute", Path: p1.String(), Extra: map[string]string{"op": op, "l": lt, "lrepr": lr, "r": rt, "rrepr": rr}})
						} else {
							c.Held("identity.commute")
						}
					}
				}
			}
		}
	}
	c.SetExhaustive(fmt.Sprintf("%d x %d grid values x 5 operators x 9 representation pairings", len(c13Grid), len(c13Grid)))
	// unary on every value and representation
	for i, t := range c13Grid {
		if !c.Mine(i) {
			continue
		}
		for _, rp := range reprs {
			o := operand{t, rp}
			if !o.usable() {
				continue
			}
			_, isInt, f, ex, out := o.value()
			doc := map[string]any{}
			if rp != "lit" {
				doc["a"] = decodeOperand(o)
			}
			for _, u := range []string{"-", "+", "--"} {
				if rp == "lit" {
					continue // the parser folds a sign into a literal: nothing to execute
				}
				ptxt := u + "$.a"
				if u == "--" {
					ptxt = "-(-$.a)"
				}
				p := cachedPath(ptxt)
				if p == nil {
					continue
				}
				out1 := h.Call("query", p, doc, h.Opts{})
				c.Eval(1)
				a := accept{clause: "unary.map"}
				if u == "--" {
					a.clause = "identity.dneg"
				}
				switch {
				case out:
					a.err = true
					if ex != nil {
						v := new(big.Rat).Set(ex)
						if u == "-" {
							v.Neg(v)
						}
						if ff, ok := nearest(v); ok {
							a.vals = append(a.vals, ratOfFloat(ff))
						}
					}
				default:
					v := new(big.Rat).Set(ex)
					if !isInt {
						v = ratOfFloat(f)
					}
					if u == "-" {
						v.Neg(v)
					}
					if isInt && !v.Num().IsInt64() {
						// -(min int64) does not fit: the double
						ff, _ := v.Float64()
						v = ratOfFloat(ff)
					}
					a.vals = append(a.vals, v)
					if u == "--" && isInt && t == "-9223372036854775808" {
						// -x does not fit in int64 and becomes a double; negating again gives the double of x
						ff, _ := ex.Float64()
						a.vals = append(a.vals, ratOfFloat(ff))
					}
				}
				judgeArith(c, out1, a, h.Case{Kind: "unary", Path: ptxt, Extra: map[string]string{"a": t, "repr": rp}}, h.F("op", "unary"+u, "repr", rp))
			}
		}
	}
	// unary over sequences with a non-numeric member at each position; singleton rule for binary operators
	// an operand that IS an array (not its elements selected by [*]): lax mode
	// unwraps it one level, and every element counts - null, too
	for i, sq := range []string{`[null,3]`, `[3,null]`, `[null]`, `[null,null,2]`, `[3]`, `[2,3]`, `[]`, `[[3]]`, `[[null,3]]`, `["x",3]`, `[3,"x"]`, `[null,"x"]`} {
		if !c.Mine(i) {
			continue
		}
		for _, useNum := range []bool{false, true} {
			arr := h.Decode(sq, useNum).([]any)
			for _, mode := range []string{"", "strict "} {
				for _, form := range []string{"-$", "+$", "$ + 1", "1 - $", "$ * 2", "$.a / 1", "-$.a", "$ ? (@ + 1 == 4)", "$ ? (-@ < 0)"} {
					p := cachedPath(mode + form)
					var doc any = h.Decode(sq, useNum)
					if strings.Contains(form, "$.a") {
						doc = map[string]any{"a": doc}
					}
					if strings.Contains(form, "?") {
						doc = []any{map[string]any{"w": 1.0}}[0:0] // placeholder, replaced below
					}
					unary := form[0] == '-' || form[0] == '+'
					allNum, nums := true, 0
					for _, el := range arr {
						if h.IsNum(el) {
							nums++
						} else {
							allNum = false
						}
					}
					var expErr bool
					switch {
					case mode != "":
						expErr = true // an array is not a number
					case unary:
						expErr = !allNum
					default:
						expErr = !(len(arr) == 1 && nums == 1)
					}
					if strings.Contains(form, "?") {
						// as a filter condition on an item holding the array: @ is the array
						// (wrapped once more so that the filter itself does not unwrap it)
						fdoc := []any{h.Decode(sq, useNum)}
						pf := cachedPath(mode + "$[0]" + strings.TrimPrefix(form, "$"))
						of := h.Call("query", pf, fdoc, h.Opts{})
						c.Eval(1)
						// the filter unwraps its item in lax mode: @ ranges over the elements
						if mode == "" {
							c.Skip("singleton", "filter-unwraps-item")
						} else if of.Class != h.OK || len(of.Items) != 0 {
							c.Violate("singleton", h.F("form", form, "mode", mode), fmt.Sprintf("Query(%s) on [%s] = %s; the condition's operand is an array: unknown, nothing kept", mode+"$[0]"+strings.TrimPrefix(form, "$"), sq, of.Summary()), h.Case{Kind: "singleton", Path: mode + form, Doc: sq, UseNum: useNum})
						} else {
							c.Held("singleton")
						}
						continue
					}
					o := h.Call("query", p, doc, h.Opts{})
					c.Eval(1)
					cs := h.Case{Kind: "singleton", Path: mode + form, Doc: sq, UseNum: useNum}
					if (o.Class == h.Soft) != expErr || (o.Class != h.Soft && o.Class != h.OK) {
						c.Violate("singleton", h.F("form", form, "mode", mode, "operand", "array"), fmt.Sprintf("Query(%s) with the operand %s = %s; error expected: %v (every element of the unwrapped operand counts)", mode+form, sq, o.Summary(), expErr), cs)
					} else {
						c.Held("singleton")
					}
				}
			}
		}
	}
	// an operand that fails after it has produced exactly one numeric item is
	// a failed operand, also where the failure is suppressed (WithSilent, a
	// filter, a predicate); and a doubly negated operand is still checked
	for i, tc := range []struct{ path, doc string }{
		{"strict $[*].a + 1", `[{"a":1},{"b":2}]`}, {"strict 1 - $[*].a", `[{"a":1},{"b":2}]`}, {"strict $[0 to 1].a * 2", `[{"a":1},{"b":2}]`}, {"$[*].a.double() + 1", `[{"a":1},{"a":"x"}]`},
		{"strict $[*].a / $[0].a", `[{"a":1},{"b":2}]`}, {"$[*].integer() % 5", `[7,"y"]`}, {"strict -$[*].a", `[{"a":1},{"b":2}]`}, {"strict ($[*].a + 1).abs()", `[{"a":1},{"b":2}]`},
	} {
		if !c.Mine(i) {
			continue
		}
		p := cachedPath(tc.path)
		if p == nil {
			c.Count("gen.unparsable", 1)
			continue
		}
		for _, useNum := range []bool{false, true} {
			doc := h.Decode(tc.doc, useNum)
			ov := h.Call("query", p, doc, h.Opts{})
			os := h.Call("query", p, doc, h.Opts{Silent: true})
			oe := h.Call("exists", p, doc, h.Opts{Silent: true})
			mode, body := "", tc.path
			if strings.HasPrefix(body, "strict ") {
				mode, body = "strict ", strings.TrimPrefix(body, "strict ")
			}
			pf := cachedPath(mode + "$ ? (" + strings.ReplaceAll(body, "$", "@") + " == 2)")
			pq := cachedPath(mode + "(" + body + " == 2) is unknown")
			of := h.Call("query", pf, []any{doc}, h.Opts{})
			oq := h.Call("query", pq, doc, h.Opts{})
			c.Eval(5)
			c.Distinct("partial-operand", tc.path, fmt.Sprint(useNum))
			cs := h.Case{Kind: "partial-operand", Path: tc.path, Doc: tc.doc, UseNum: useNum}
			unary := strings.Contains(tc.path, "-$[*]")
			bad := ""
			switch {
			case ov.Class != h.Soft:
				bad = "verbose Query: " + ov.Summary()
			case !unary && (os.Class != h.OK || len(os.Items) != 0):
				bad = "silent Query: " + os.Summary() + " (nothing was computed before the operand failed)"
			case oe.Class != h.Null && !(unary && oe.Class == h.OK):
				bad = "silent Exists: " + oe.Summary()
			case !unary && pf != nil && (of.Class != h.OK || len(of.Items) != 0):
				bad = "as a filter condition: " + of.Summary() + " (the condition is unknown)"
			case !unary && pq != nil && (oq.Class != h.OK || h.CanonList(oq.Items) != "[true]"):
				bad = "(… == 2) is unknown: " + oq.Summary()
			}
			if bad != "" {
				c.Violate("singleton", h.F("form", "operand-fails-after-one-item"), fmt.Sprintf("%s on %s: %s", tc.path, tc.doc, bad), cs)
			} else {
				c.Held("singleton")
			}
		}
	}
	for i, tc := range []struct {
		path, doc string
		wantErr   bool
		want      string
	}{
		{"(-$[*]) ? (@ < -1)", `[1,2,3]`, false, "[#-2 | #-3]"}, {"(-$[*]) ? (@ != -2)", `[1,2,3]`, false, "[#-1 | #-3]"}, {"(-(-$[*])) ? (@ >= 2)", `[1,2,3]`, false, "[#2 | #3]"},
		{"(+$[*]) ? (@ > 1).type()", `[1,2,3]`, false, `["number" | "number"]`}, {"strict (-$[*]) ? (@ < -4)", `[1,5,2,7]`, false, "[#-5 | #-7]"}, {"(-$.a[*])[0] ? (@ < -1)", `{"a":[1,5]}`, false, "[#-5]"},
		{"(-$[*]).nokey", `[1,2]`, false, "[]"}, {"(-$[*]) ? (@ < -1).abs()", `[2,1,3]`, false, "[#2 | #3]"},
		{"-(-$.a)", `{"a":"x"}`, true, ""}, {"-(-$.a)", `{"a":3}`, false, "[#3]"}, {"strict -(-$)", `[1]`, true, ""}, {"-(-$)", `[1,-2]`, false, "[#1 | #-2]"}, {"-(-$.a)", `{"a":[2,"x"]}`, true, ""},
		{"$[*] ? (-(-@) == \"x\")", `["x",1]`, false, "[]"}, {"+(+$.a)", `{"a":null}`, true, ""}, {"-(+(-$.a))", `{"a":true}`, true, ""}, {"-(-(-$.a))", `{"a":2}`, false, "[#-2]"}, {"-(-$.a).type()", `{"a":1}`, true, ""},
	} {
		if !c.Mine(i) {
			continue
		}
		p := cachedPath(tc.path)
		if p == nil {
			c.Count("gen.unparsable", 1)
			continue
		}
		for _, useNum := range []bool{false, true} {
			o := h.Call("query", p, h.Decode(tc.doc, useNum), h.Opts{})
			c.Eval(1)
			c.Distinct("dneg-nonnumeric", tc.path, tc.doc, fmt.Sprint(useNum))
			ok := (tc.wantErr && o.Class == h.Soft) || (!tc.wantErr && o.Class == h.OK && h.CanonList(o.Items) == tc.want)
			if !ok {
				c.Violate("identity.dneg", h.F("form", "operand-check"), fmt.Sprintf("Query(%s) on %s = %s; want %s (error: %v): -(-x) = x for numbers, and a non-number is still rejected", tc.path, tc.doc, o.Summary(), tc.want, tc.wantErr), h.Case{Kind: "dneg", Path: tc.path, Doc: tc.doc, UseNum: useNum})
			} else {
				c.Held("identity.dneg")
			}
		}
	}
	seqs := []string{`[1,2,3]`, `["x",2,3]`, `[1,"x",3]`, `[1,2,"x"]`, `[1,null,3]`, `[1,[2],3]`, `[1,{},3]`, `[true]`, `[]`, `[1.5,-2]`,
		// lax unwrapping can shrink a sequence: empty arrays contribute nothing
		`[[5],[]]`, `[[],5]`, `[5,[]]`, `[[],[],[7]]`, `[[5]]`, `[[]]`, `[[],[]]`, `[[2,3],[]]`, `[[],["x"]]`, `[[[5]],[]]`}
	for i, sq := range seqs {
		if !c.Mine(i) {
			continue
		}
		for _, useNum := range []bool{false, true} {
			for _, mode := range []string{"", "strict "} {
				for _, u := range []string{"-", "+"} {
					ptxt := mode + u + "$[*]"
					p := cachedPath(ptxt)
					arr := h.Decode(sq, useNum).([]any)
					var want []any
					bad := -1
					if mode == "" {
						// lax: the operand's items are unwrapped one level
						var un []any
						for _, el := range arr {
							if sub, ok := el.([]any); ok {
								un = append(un, sub...)
							} else {
								un = append(un, el)
							}
						}
						arr = un
					}
					for j, el := range arr {
						if !h.IsNum(el) {
							bad = j
							break
						}
						r, _ := h.Rat(el)
						if u == "-" {
							r.Neg(r)
						}
						want = append(want, r)
					}
					for _, silent := range []bool{false, true} {
						o := h.Call("query", p, h.Decode(sq, useNum), h.Opts{Silent: silent})
						c.Eval(1)
						cs := h.Case{Kind: "unary-seq", Path: ptxt, Doc: sq, UseNum: useNum, Silent: silent}
						clause := "unary.map"
						if bad >= 0 {
							clause = "unary.nonnumeric"
						}
						good := false
						switch {
						case bad >= 0 && !silent:
							good = o.Class == h.Soft
						case o.Class == h.OK && len(o.Items) == len(want):
							good = true
							for j := range want {
								g, ok := h.Rat(o.Items[j])
								if !ok || g.Cmp(want[j].(*big.Rat)) != 0 {
									good = false
								}
							}
						}
						if !good {
							c.Violate(clause, h.F("op", "unary"+u, "mode", mode), fmt.Sprintf("Query(%s) on %s (silent=%v) = %s", ptxt, sq, silent, o.Summary()), cs)
						} else {
							c.Held(clause)
						}
					}
				}
				// binary operators need exactly one numeric item per side
				for _, op := range c13Ops {
					for _, form := range []string{"$[*] %s 1", "1 %s $[*]", "$.nokey %s 1", `"a" %s 1`, `1 %s null`, `$[0] %s $[1]`} {
						if fp := cachedPath(mode + fmt.Sprintf(form, op)); fp != nil {
							// the entry point that wants one item applies the same rule
							oq := h.Call("query", fp, h.Decode(sq, useNum), h.Opts{})
							of := h.Call("first", fp, h.Decode(sq, useNum), h.Opts{})
							c.Eval(2)
							if oq.Class != h.Panic && of.Class != h.Panic && oq.Class != h.Invalid && (oq.Class != of.Class || oq.Class == h.OK && len(oq.Items) > 0 && h.CanonTyped(oq.Items[0]) != h.CanonTyped(of.Val)) {
								c.Violate("singleton", h.F("op", op, "form", form, "mode", mode, "entry", "first"), fmt.Sprintf("Query(%s) on %s = %s but First = %s", mode+fmt.Sprintf(form, op), sq, oq.Summary(), of.Summary()), h.Case{Kind: "singleton", Path: mode + fmt.Sprintf(form, op), Doc: sq, UseNum: useNum})
							} else {
								c.Held("singleton")
							}
						}
						ptxt := mode + fmt.Sprintf(form, op)
						p := cachedPath(ptxt)
						if p == nil {
							continue
						}
						o := h.Call("query", p, h.Decode(sq, useNum), h.Opts{})
						c.Eval(1)
						arr := h.Decode(sq, useNum).([]any)
						expErr := true
						switch form {
						case "$[*] %s 1", "1 %s $[*]":
							if mode == "" {
								var un []any // lax: the operand's items are unwrapped one level
								for _, el := range arr {
									if sub, ok := el.([]any); ok {
										un = append(un, sub...)
									} else {
										un = append(un, el)
									}
								}
								arr = un
							}
							expErr = !(len(arr) == 1 && h.IsNum(arr[0]))
						case `$[0] %s $[1]`:
							one := func(v any) (any, bool) { // lax: a one-element array operand is unwrapped
								if sub, ok := v.([]any); ok && mode == "" {
									if len(sub) == 1 {
										return sub[0], true
									}
									return nil, false
								}
								return v, true
							}
							if len(arr) >= 2 {
								a0, ok0 := one(arr[0])
								a1, ok1 := one(arr[1])
								if ok0 && ok1 {
									arr = []any{a0, a1}
								} else {
									arr = []any{"not a singleton", "x"}
								}
							}
							expErr = !(len(arr) >= 2 && h.IsNum(arr[0]) && h.IsNum(arr[1]))
							if !expErr && (op == "/" || op == "%") {
								r, _ := h.Rat(arr[1])
								expErr = r.Sign() == 0
							}
							if len(arr) >= 2 && arr[0] == nil || len(arr) >= 2 && arr[1] == nil {
								continue // null elements are dropped by subscripts (known finding under C14)
							}
						}
						cs := h.Case{Kind: "singleton", Path: ptxt, Doc: sq, UseNum: useNum}
						if o.Class == h.Panic || o.Class == h.Invalid {
							continue
						}
						if expErr != (o.Class == h.Soft) {
							c.Violate("singleton", h.F("op", op, "form", form, "mode", mode), fmt.Sprintf("Query(%s) on %s = %s; error expected: %v", ptxt, sq, o.Summary(), expErr), cs)
						} else {
							c.Held("singleton")
						}
					}
				}
			}
		}
	}
	// an operand selected by a subscript list or range and a filter: exactly one
	// number gets through, whichever candidate it was - the first, the last
	{
		k := 0
		for _, d := range []string{`[5,-1]`, `[-1,5]`, `[5,7]`, `[-1,-2]`, `[5,-1,-2]`, `[-2,5,-1]`} {
			type fopnd struct {
				text string
				ix   []int // the elements it reads, as written (nil: all; -1: the last)
				all  bool  // no filter: every element read gets through
			}
			for _, fo := range []fopnd{{"$[0 to 1] ? (@ > 0)", []int{0, 1}, false}, {"$[0,1] ? (@ > 0)", []int{0, 1}, false}, {"$[0 to last] ? (@ > 0)", nil, false}, {"$[last,0] ? (@ > 0)", []int{-1, 0}, false}, {"$[*] ? (@ > 0)", nil, false}, {"$[0,1].double() ? (@ > 0)", []int{0, 1}, false},
				// ... with arithmetic of its own in the condition or in a subscript,
				// evaluated while the operand's items are being collected
				{"$[0 to 1] ? (@ * 2 > 0)", []int{0, 1}, false}, {"$[*] ? (@ + 0 > 0)", nil, false}, {"$[0, 0 + 1] ? (@ > 0)", []int{0, 1}, false}, {"$[0, 2 - 1] ? (@ * 1 > 0)", []int{0, 1}, false}, {"$[*] ? (@ > 0 && -@ < 0 && @ / 1 > 0)", nil, false},
				{"$[0, 0 + 1]", []int{0, 1}, true}, {"$[0 to 2 - 1]", []int{0, 1}, true}, {"$[1 - 1, last * 1]", []int{0, -1}, true}, {"$[0 + 0]", []int{0}, true}, {"$[*] ? (@ * 0 == 0)", nil, true}} {
				opnd := fo.text
				for _, mode := range []string{"", "strict "} {
					k++
					if !c.Mine(k) {
						continue
					}
					arr := h.Decode(d, false).([]any)
					// which elements does the operand select?
					var sel []float64
					ix := fo.ix
					if ix == nil {
						for i := range arr {
							ix = append(ix, i)
						}
					}
					for _, i := range ix {
						if i < 0 {
							i = len(arr) - 1
						}
						if v := arr[i].(float64); v > 0 || fo.all {
							sel = append(sel, v)
						}
					}
					for _, form := range []string{"%s + 1", "1 + %s", "%s * 2", "-(%s)", "(%s) - 1"} {
						ptxt := mode + fmt.Sprintf(form, opnd)
						p := cachedPath(ptxt)
						if p == nil {
							continue
						}
						o := h.Call("query", p, h.Decode(d, false), h.Opts{})
						c.Eval(1)
						if o.Class == h.Panic || o.Class == h.Invalid {
							continue
						}
						cs := h.Case{Kind: "singleton", Path: ptxt, Doc: d}
						switch {
						case strings.HasPrefix(form, "-("):
							// unary: one result per selected number
							if o.Class != h.OK || len(o.Items) != len(sel) {
								c.Violate("unary.map", h.F("form", "filtered-operand", "mode", mode), fmt.Sprintf("Query(%s) on %s = %s; the operand selects %v", ptxt, d, o.Summary(), sel), cs)
							} else {
								c.Held("unary.map")
							}
						case len(sel) == 1:
							if o.Class != h.OK || len(o.Items) != 1 {
								c.Violate("singleton", h.F("form", "filtered-operand", "mode", mode), fmt.Sprintf("Query(%s) on %s = %s; the operand selects exactly one number (%v)", ptxt, d, o.Summary(), sel), cs)
							} else {
								c.Held("singleton")
							}
						default:
							if o.Class != h.Soft {
								c.Violate("singleton", h.F("form", "filtered-operand", "mode", mode), fmt.Sprintf("Query(%s) on %s = %s; the operand selects %d numbers (%v): a suppressible error is due", ptxt, d, o.Summary(), len(sel), sel), cs)
							} else {
								c.Held("singleton")
							}
						}
					}
				}
			}
		}
	}
	// below .** a strict path forgives structural errors and nothing else: an
	// operand that is an array is still not a number there (no unwrapping)
	{
		k := 0
		for _, cond := range []string{"@.a + 1 > -100", "(@.a + 1 > -100) is unknown", "!(@.a * 2 > 0)", "-@.a < 0", "exists(+@.a)", "@.n / @.a == 1", "@.a % 2 == 1", "(-@.a > 0) is unknown", "@.n - @.a > -50"} {
			for _, d := range []string{`{"a":[1],"n":1}`, `{"a":1,"n":1}`, `{"a":[1,2],"n":1}`, `{"a":[],"n":1}`, `{"a":[[1]],"n":1}`} {
				k++
				if !c.Mine(k) {
					continue
				}
				for _, pre := range []string{"$.**{0}", "$.**{0 to 0}", "$.w.**{1}"} {
					below := cachedPath("strict " + pre + " ? (" + cond + ")")
					plain := cachedPath("strict $ ? (" + cond + ")")
					if below == nil || plain == nil {
						c.Count("gen.unparsable", 1)
						continue
					}
					for _, useNum := range []bool{false, true} {
						doc := h.Decode(d, useNum)
						var bdoc any = doc
						if strings.HasPrefix(pre, "$.w") {
							bdoc = map[string]any{"w": map[string]any{"x": doc}}
						}
						ob := h.Call("query", below, bdoc, h.Opts{})
						op := h.Call("query", plain, doc, h.Opts{})
						c.Eval(2)
						if ob.Class == h.Panic || op.Class == h.Panic {
							continue
						}
						if ob.Class != op.Class || len(ob.Items) != len(op.Items) {
							c.Violate("singleton", h.F("form", "below-any", "mode", "strict "), fmt.Sprintf("Query(strict %s ? (%s)) = %s but Query(strict $ ? (%s)) on the same item = %s (document %s)", pre, cond, ob.Summary(), cond, op.Summary(), d), h.Case{Kind: "exec", Path: "strict " + pre + " ? (" + cond + ")", Doc: d, UseNum: useNum})
						} else {
							c.Held("singleton")
						}
					}
				}
			}
		}
	}
	// both unary operators on the same number in one execution: each applies
	// to the item it is given, whatever the other has been given before -
	// compared with the same expression written without unary operators
	{
		pairs := [][2]string{{"+$.a - -$.a", "$.a + $.a"}, {"-$.a + +$.a", "$.a - $.a"}, {"-$.a - +$.b", "0 - $.a - $.b"}, {"-$.a * +$.a", "(0 - $.a) * $.a"}, {"+$.b + -$.a", "$.b - $.a"},
			{"$.l[*] ? (-@ < +@)", "$.l[*] ? (0 - @ < @)"}, {"$.l[*] ? (+@ == -@)", "$.l[*] ? (@ == 0 - @)"}, {"-$.l[0] - +$.l[0]", "0 - $.l[0] - $.l[0]"}, {"(-$.a).abs() + +$.a", "$.a.abs() + $.a"}, {"+$.a / -$.b", "$.a / (0 - $.b)"}}
		k := 0
		for _, a := range []string{"5", "-3", "2.5", "0", "9007199254740993", "1e2"} {
			for _, b := range []string{"5", "2", "-2.5"} {
				for _, pr := range pairs {
					k++
					if !c.Mine(k) {
						continue
					}
					d := fmt.Sprintf(`{"a":%s,"b":%s,"l":[%s,%s,%s,0,-1]}`, a, b, a, b, a)
					for _, useNum := range []bool{false, true} {
						pu, pp := cachedPath(pr[0]), cachedPath(pr[1])
						if pu == nil || pp == nil {
							c.Count("gen.unparsable", 1)
							continue
						}
						ou := h.Call("query", pu, h.Decode(d, useNum), h.Opts{})
						op := h.Call("query", pp, h.Decode(d, useNum), h.Opts{})
						c.Eval(2)
						if ou.Class == h.Panic || op.Class == h.Panic || ou.Class == h.Invalid || op.Class == h.Invalid {
							continue
						}
						same := ou.Class == op.Class && len(ou.Items) == len(op.Items)
						for j := 0; same && j < len(ou.Items); j++ {
							ru, ok1 := h.Rat(ou.Items[j])
							rp, ok2 := h.Rat(op.Items[j])
							same = ok1 && ok2 && ru.Cmp(rp) == 0
						}
						if !same {
							c.Violate("unary.map", h.F("form", "both-unary-operators"), fmt.Sprintf("Query(%s) = %s but Query(%s) = %s on %s", pr[0], ou.Summary(), pr[1], op.Summary(), d), h.Case{Kind: "exec", Path: pr[0], Doc: d, UseNum: useNum, Extra: map[string]string{"plain": pr[1]}})
						} else {
							c.Held("unary.map")
						}
					}
				}
			}
		}
	}
	// a unary operator inside parentheses with steps after it: the steps get
	// what the operator yields, so a non-numeric operand fails before them -
	// also when only existence is asked for
	{
		k := 0
		for _, form := range []string{"(-$.a).type()", "(+$.a).type()", "(-$.a).string()", "(-$.a[*]).double()", "(+$.a).size()", "(-$.a).abs()", "$ ? (exists((-@.a).type()))", "$ ? ((-@.a).type() == \"number\")", "(-$.a) ? (@ < 0)", "(-$.a)[0]"} {
			for _, d := range []string{`{"a":"x"}`, `{"a":true}`, `{"a":["x",1]}`, `{"a":null}`, `{"a":{}}`, `{"a":["1.5"]}`, `{"a":5}`, `{"a":[1,2]}`, `{"a":[[1]]}`} {
				for _, mode := range []string{"", "strict "} {
					k++
					if !c.Mine(k) {
						continue
					}
					p := cachedPath(mode + form)
					if p == nil {
						c.Count("gen.unparsable", 1)
						continue
					}
					for _, silent := range []bool{false, true} {
						q := h.Call("query", p, h.Decode(d, false), h.Opts{Silent: silent})
						e := h.Call("exists", p, h.Decode(d, false), h.Opts{Silent: silent})
						f := h.Call("first", p, h.Decode(d, false), h.Opts{Silent: silent})
						c.Eval(3)
						cs := h.Case{Kind: "unary-chain", Path: mode + form, Doc: d, Silent: silent}
						if q.Class == h.Panic || e.Class == h.Panic || f.Class == h.Panic {
							continue
						}
						// verbose: the three agree on failing; silent: a failed Query is
						// an empty result, a failed Exists NULL - never "true"
						good := true
						switch {
						case !silent:
							good = (q.Class == h.Soft) == (e.Class == h.Soft) && (q.Class == h.Soft) == (f.Class == h.Soft) && (q.Class != h.OK || e.Bool == (len(q.Items) > 0))
						default:
							vq := h.Call("query", p, h.Decode(d, false), h.Opts{})
							c.Eval(1)
							if vq.Class == h.Soft && len(q.Items) == 0 {
								good = e.Class == h.Null || (e.Class == h.OK && !e.Bool)
							}
						}
						if !good {
							c.Violate("unary.nonnumeric", h.F("form", "chained", "mode", mode, "silent", fmt.Sprint(silent)), fmt.Sprintf("%s on %s: Query %s, First %s, Exists %s", mode+form, d, q.Summary(), f.Summary(), e.Summary()), cs)
						} else {
							c.Held("unary.nonnumeric")
						}
					}
				}
			}
		}
	}
	// arithmetic on the current item where the expression is evaluated against
	// something else (a subscript of another array inside the filter): @ is the
	// filtered item there too - against the reference model
	{
		docs := []string{`{"items":[3,4,6,7],"lookup":["fizz","a","b"],"arr":[0],"one":[5]}`, `{"items":[0,1,2],"lookup":[10,20,30],"arr":[1,2,3],"one":[7]}`}
		ptxts := []string{`$.items[*] ? ($.lookup[@ % 3] == "fizz")`, `$.items[*] ? ($.lookup[@ % 3] == 10)`, `$.items[*] ? ($.arr[@ * 1] == 1)`, `$.items[*] ? ($.arr[@ - @] >= 0)`, `$.items[*] ? ($.lookup[@ - 3] == "fizz")`, `$.items[*] ? ($.lookup[0 to @ % 2] == 10)`,
			`$.items[*] ? ($.one[@ * 0] == @ + 2)`, `$.items[*] ? ($.arr[-@ + @] == 0)`, `$.items[*] ? (exists($.lookup[@ / 3]))`, `$.items[*] ? ($.lookup[@ % 3 + 0].type() == "string")`}
		k := 0
		for _, d := range docs {
			for _, pt := range ptxts {
				for v := 0; v < 4; v++ {
					k++
					if !c.Mine(k) {
						continue
					}
					txt := pt
					if v&2 != 0 {
						txt = "strict " + pt
					}
					ec, err := CaseFrom(h.Case{Path: txt, Doc: d, UseNum: v&1 != 0})
					if err != nil {
						c.Count("gen.unparsable", 1)
						continue
					}
					o := h.Call("query", ec.P, ec.DocValue(), ec.Opts())
					c.Eval(1)
					switch verdict, feat, detail := modelVerdict(ec, o); {
					case verdict == "held":
						c.Held("operand-chain")
					case strings.HasPrefix(verdict, "skip:"):
						c.Skip("operand-chain", strings.TrimPrefix(verdict, "skip:"))
					case feat["cause"] != "" && feat["cause"] != "unexplained":
						c.Skip("operand-chain", "recorded-finding:"+feat["cause"])
					default:
						c.Violate("operand-chain", feat, detail, ec.Case())
					}
				}
			}
		}
	}
	// what a unary minus returns has gone through it: over positive numbers
	// every item of the result is negative - also when the operand fails after
	// some items (a string among them, a missing member) and the failure is
	// suppressed
	{
		k := 0
		for _, d := range []string{`[1,2,"x",4]`, `[3,{"a":1},5]`, `{"v":[1,2,"x"]}`, `[1,"2",[],4]`} {
			for _, pt := range []string{`strict -$[*].double()`, `strict -$[*].integer()`, `strict -$[0 to 3].abs()`, `-$[*].double()`, `strict -$.v[*].number()`, `strict -$[*].a`, `strict -$[0, 1, 9]`, `-$[*].abs()`, `strict -$[*].ceiling()`} {
				k++
				if !c.Mine(k) {
					continue
				}
				p := cachedPath(pt)
				if p == nil {
					continue
				}
				for _, useNum := range []bool{false, true} {
					for _, silent := range []bool{true, false} {
						for _, e := range []string{"query", "first"} {
							o := h.Call(e, p, h.Decode(d, useNum), h.Opts{Silent: silent})
							c.Eval(1)
							if o.Class != h.OK {
								c.Held("unary.map")
								continue
							}
							items := o.Items
							if e == "first" && o.Val != nil {
								items = []any{o.Val}
							}
							bad := ""
							for _, it := range items {
								if r, ok := h.Rat(it); ok && r.Sign() > 0 {
									bad = h.Canon(it)
								}
							}
							if bad != "" {
								c.Violate("unary.map", h.F("form", "untouched-operand-item", "entry", e, "silent", fmt.Sprint(silent)), fmt.Sprintf("%s(%s) on %s (silent=%v) = %s: %s has not gone through the operator", e, pt, d, silent, o.Summary(), bad), h.Case{Kind: "singleton", Path: pt, Doc: d, UseNum: useNum, Silent: silent, Entry: e})
							} else {
								c.Held("unary.map")
							}
						}
					}
				}
			}
		}
	}
	// an operation that leaves an integer as it is (unary plus, floor, ceiling)
	// returns that integer - the same digits, at the edges of int64 too
	{
		k := 0
		for _, d := range []string{"-9223372036854775808", "9223372036854775807", "-9223372036854775807", "9007199254740993", "-1", "0", "4611686018427387905"} {
			for _, form := range []string{"(+$).string()", "$.floor().string()", "$.ceiling().string()", "(+(+$)).string()", "(+$).floor().string()", "$.ceiling().abs().string()"} {
				k++
				if !c.Mine(k) {
					continue
				}
				want := strings.TrimPrefix(d, "-")
				if !strings.Contains(form, "abs") {
					want = d
				}
				if strings.Contains(form, "abs") && d == "-9223372036854775808" {
					continue // (its absolute value is no int64)
				}
				p := cachedPath(form)
				o := h.Call("query", p, h.Decode(d, true), h.Opts{})
				c.Eval(1)
				if o.Class == h.Panic {
					continue
				}
				if o.Class != h.OK || len(o.Items) != 1 || o.Items[0] != want {
					c.Violate("unary.map", h.F("form", "integer-left-as-it-is"), fmt.Sprintf("Query(%s) on the integer %s = %s; the operation does not change the number: %q", form, d, o.Summary(), want), h.Case{Kind: "singleton", Path: form, Doc: d, UseNum: true})
				} else {
					c.Held("unary.map")
				}
			}
		}
	}
	// random pairs near the boundaries
	r := c.Rand("c13")
	n := c.PerShard(c.N(2000000, 20000000))
	bases := []int64{0, math.MaxInt32, math.MinInt32, math.MaxInt64, math.MinInt64, 1 << 53, -(1 << 53), 1 << 62, -(1 << 62), 3037000499, 1 << 31, 1 << 32}
	rnd := func() string {
		switch r.IntN(6) {
		case 0:
			return c13Grid[r.IntN(len(c13Grid))]
		case 1:
			return strconv.FormatFloat((r.Float64()-0.5)*math.Pow(10, float64(r.IntN(40)-20)), 'g', -1, 64)
		case 2:
			return strconv.FormatInt(r.Int64N(2000001)-1000000, 10)
		default:
			b := new(big.Int).SetInt64(bases[r.IntN(len(bases))])
			b.Add(b, big.NewInt(r.Int64N(7)-3))
			return b.String()
		}
	}
	for i := 0; i < n; i++ {
		checkArith(c, c13Ops[r.IntN(5)], operand{rnd(), reprs[r.IntN(3)]}, operand{rnd(), reprs[r.IntN(3)]})
	}
}
