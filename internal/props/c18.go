package props

import (
	"context"
	"encoding/json"
	"fmt"
	"math/rand/v2"
	"strings"
	"time"

	"github.com/theory/sqljson/path"
	"github.com/theory/sqljson/path/types"

	"verif/internal/h"
)

func init() {
	register(&Prop{
		ID:    "C18",
		Level: "exploration",
		Rule: "values: grid of years x month/day boundaries x times x fractional digits 0..9 x whole-minute offsets, built from components for each of the five types (plus seeded random values); " +
			"hostile inputs: every JSON token kind, strings of length 0..12 over a 10-symbol alphabet, truncated/extended valid encodings; context zones incl. DST zones. " +
			"A value case is non-trivial when it has a non-midnight time or non-zero offset/fraction; distinct by (type, instant, offset) or by input bytes",
		Run:    runC18,
		Replay: replayC18,
		MinExercised: map[string]int64{
			"string.iso": 500, "parse.roundtrip": 500, "json.roundtrip": 500, "path.string": 500, "unmarshal.bytes": 1000, "unmarshal.total": 500, "tz.commute": 200,
		},
		Assumptions: []string{
			"equality of datetime values = same Go type, same instant, same zone offset",
			"accept/reject of UnmarshalJSON is judged on syntactically valid JSON values only (the json.Unmarshaler contract), directly and through json.Unmarshal; raw byte strings that are not JSON are passed directly too, but only 'returns instead of panicking' is asserted for them",
			"a direct UnmarshalJSON(null) must return an error, as the statement lists null among the rejected inputs; through json.Unmarshal a null for a pointer target is handled by encoding/json itself and nothing is asserted",
		},
	})
}

type dtVal struct {
	typ        string // date time timetz timestamp timestamptz
	y, mo, d   int
	hh, mi, ss int
	ns         int
	off        int // seconds, whole minutes
	v          types.DateTime
}

func fracText(ns int) string {
	if ns == 0 {
		return ""
	}
	s := fmt.Sprintf("%09d", ns)
	s = strings.TrimRight(s, "0")
	return "." + s
}

func offText(off int) string {
	sign := '+'
	if off < 0 {
		sign = '-'
		off = -off
	}
	return fmt.Sprintf("%c%02d:%02d", sign, off/3600, off%3600/60)
}

// expected ISO text computed from the components, not from the library.
func (v *dtVal) expected() string {
	date := fmt.Sprintf("%04d-%02d-%02d", v.y, v.mo, v.d)
	tm := fmt.Sprintf("%02d:%02d:%02d%s", v.hh, v.mi, v.ss, fracText(v.ns))
	switch v.typ {
	case "date":
		return date
	case "time":
		return tm
	case "timetz":
		return tm + offText(v.off)
	case "timestamp":
		return date + "T" + tm
	default:
		return date + "T" + tm + offText(v.off)
	}
}

func mkVal(typ string, y, mo, d, hh, mi, ss, ns, off int) *dtVal {
	v := &dtVal{typ: typ, y: y, mo: mo, d: d, hh: hh, mi: mi, ss: ss, ns: ns, off: off}
	loc := time.FixedZone("", off)
	if off == 0 {
		loc = time.UTC
	}
	t := time.Date(y, time.Month(mo), d, hh, mi, ss, ns, loc)
	switch typ {
	case "date":
		v.v = types.NewDate(t)
	case "time":
		v.v = types.NewTime(t)
	case "timetz":
		v.v = types.NewTimeTZ(t)
	case "timestamp":
		v.v = types.NewTimestamp(t)
	case "timestamptz":
		v.v = types.NewTimestampTZ(context.Background(), t)
	}
	return v
}

func (v *dtVal) caseOf() h.Case {
	return h.Case{Kind: "datetime-value", Extra: map[string]string{
		"type": v.typ, "y": fmt.Sprint(v.y), "mo": fmt.Sprint(v.mo), "d": fmt.Sprint(v.d), "hh": fmt.Sprint(v.hh),
		"mi": fmt.Sprint(v.mi), "ss": fmt.Sprint(v.ss), "ns": fmt.Sprint(v.ns), "off": fmt.Sprint(v.off),
	}}
}

func sameDT(a, b types.DateTime) bool {
	if fmt.Sprintf("%T", a) != fmt.Sprintf("%T", b) {
		return false
	}
	_, o1 := a.GoTime().Zone()
	_, o2 := b.GoTime().Zone()
	return a.GoTime().Equal(b.GoTime()) && o1 == o2
}

func newOf(typ string) (types.DateTime, json.Unmarshaler) {
	switch typ {
	case "date":
		x := &types.Date{}
		return x, x
	case "time":
		x := &types.Time{}
		return x, x
	case "timetz":
		x := &types.TimeTZ{}
		return x, x
	case "timestamp":
		x := &types.Timestamp{}
		return x, x
	default:
		x := &types.TimestampTZ{}
		return x, x
	}
}

var dtMethodOf = map[string]string{"date": "date", "time": "time", "timetz": "time_tz", "timestamp": "timestamp", "timestamptz": "timestamp_tz"}

var c18Paths = map[string]*path.Path{}

var c18ForceCtx *time.Location

var c18CtxZones = func() []*time.Location {
	var out []*time.Location
	for _, n := range []string{"America/New_York", "Europe/Berlin", "Asia/Tokyo", "Australia/Sydney", "America/Santiago"} {
		l, err := time.LoadLocation(n)
		if err != nil {
			panic("harness: tzdata: " + err.Error())
		}
		out = append(out, l)
	}
	return out
}()

func c18Path(txt string) *path.Path {
	if p, ok := c18Paths[txt]; ok {
		return p
	}
	p := path.MustParse(txt)
	c18Paths[txt] = p
	return p
}

func checkValueC18(c *h.Ctx, v *dtVal) {
	c.Eval(1)
	// Parsing and printing a value does not involve the context zone: half of
	// the values are handled under a context that carries a daylight-saving
	// zone (their wall-clock readings may not exist there).
	ctx := context.Background()
	if c18ForceCtx != nil {
		ctx = types.ContextWithTZ(ctx, c18ForceCtx)
	} else if (v.hh+v.mi+v.d)%2 == 0 {
		ctx = types.ContextWithTZ(ctx, c18CtxZones[(v.d+v.mo)%len(c18CtxZones)])
	}
	exp := v.expected()
	_, off := v.v.GoTime().Zone()
	nontrivial := v.hh+v.mi+v.ss+v.ns != 0 || v.off != 0
	if nontrivial {
		c.Distinct(v.typ, v.v.GoTime().UTC().Format(time.RFC3339Nano), fmt.Sprint(off))
	}
	feat := func(kv ...string) map[string]string {
		return h.F(append([]string{"type", v.typ}, kv...)...)
	}
	defer func() {
		if r := recover(); r != nil {
			c.Violate("string.iso", feat("kind", "panic"), fmt.Sprintf("panic while round-tripping %s: %v", exp, r), v.caseOf())
		}
	}()
	// String() is the ISO-8601 text of the components.
	got := v.v.String()
	if got != exp {
		c.Violate("string.iso", feat(), fmt.Sprintf("String() = %q, components say %q", got, exp), v.caseOf())
	} else {
		c.Held("string.iso")
	}
	// ParseTime(String(v)) is an equal value of the same type.
	back, ok := types.ParseTime(ctx, got, -1)
	switch {
	case !ok:
		c.Violate("parse.roundtrip", feat("kind", "rejected"), fmt.Sprintf("ParseTime rejects String() output %q", got), v.caseOf())
	case !sameDT(v.v, back):
		c.Violate("parse.roundtrip", feat("kind", "differs"), fmt.Sprintf("ParseTime(%q) = %T %v", got, back, back), v.caseOf())
	default:
		c.Held("parse.roundtrip")
	}
	// ... also when the value a previous ParseTime of the same text returned
	// has meanwhile been used as a JSON decode target (values are handed out
	// as pointers; what a caller does to one must not reach the next caller)
	if ok {
		if um, isUm := back.(json.Unmarshaler); isUm {
			other := map[string]string{"date": `"1999-12-31"`, "time": `"01:02:03"`, "timetz": `"01:02:03+05:30"`, "timestamp": `"1999-12-31T01:02:03"`, "timestamptz": `"1999-12-31T01:02:03+05:30"`}[v.typ]
			if other != `"`+exp+`"` && um.UnmarshalJSON([]byte(other)) == nil {
				again, ok2 := types.ParseTime(ctx, got, -1)
				if !ok2 || !sameDT(v.v, again) {
					c.Violate("parse.roundtrip", feat("kind", "depends-on-earlier-result"), fmt.Sprintf("ParseTime(%q) = %v after the result of the previous ParseTime(%q) was overwritten by UnmarshalJSON(%s)", got, again, got, other), v.caseOf())
				} else {
					c.Held("parse.roundtrip")
				}
			}
		}
	}
	// JSON round trip.
	js, err := json.Marshal(v.v)
	if err != nil {
		c.Violate("json.roundtrip", feat("kind", "marshal-error"), err.Error(), v.caseOf())
	} else {
		if string(js) != `"`+exp+`"` {
			c.Violate("json.roundtrip", feat("kind", "marshal-text"), fmt.Sprintf("MarshalJSON = %s, want %q", js, exp), v.caseOf())
		}
		nv, _ := newOf(v.typ)
		if err := json.Unmarshal(js, nv); err != nil {
			c.Violate("json.roundtrip", feat("kind", "unmarshal-error"), fmt.Sprintf("Unmarshal(%s): %v", js, err), v.caseOf())
		} else if !sameDT(v.v, nv) {
			c.Violate("json.roundtrip", feat("kind", "differs"), fmt.Sprintf("Unmarshal(%s) = %v, want %v", js, nv, v.v), v.caseOf())
		} else {
			c.Held("json.roundtrip")
		}
	}
	// ... and the bytes MarshalJSON returns are the caller's: they still read
	// the same after the next value (of any of the five types) was marshalled
	if mv, isM := v.v.(json.Marshaler); isM {
		if c18Held != nil && string(c18Held) != c18HeldWant {
			c.Violate("json.roundtrip", feat("kind", "bytes-changed-later"), fmt.Sprintf("the bytes an earlier MarshalJSON returned (%s) read %q after other values were marshalled", c18HeldWant, c18Held), v.caseOf())
		} else if c18Held != nil {
			c.Held("json.roundtrip")
		}
		if b, err := mv.MarshalJSON(); err == nil {
			c18Held, c18HeldWant = b, string(b)
			if om, ok := types.ParseTime(ctx, "1999-12-31T01:02:03.5+05:30", -1); ok {
				if _, err := om.(json.Marshaler).MarshalJSON(); err == nil && string(b) != c18HeldWant {
					c.Violate("json.roundtrip", feat("kind", "bytes-changed-later"), fmt.Sprintf("the bytes MarshalJSON returned (%s) read %q after another value was marshalled", c18HeldWant, b), v.caseOf())
				}
			}
		}
	}
	// .string() inside a path prints the same text.
	for _, m := range []string{"datetime", dtMethodOf[v.typ]} {
		p := c18Path("$." + m + "().string()")
		o := h.Call("query", p, exp, h.Opts{})
		if o.Class != h.OK || len(o.Items) != 1 || o.Items[0] != exp {
			c.Violate("path.string", feat("method", m), fmt.Sprintf("Query($.%s().string(), %q) = %s, want [%q]", m, exp, o.Summary(), exp), v.caseOf())
		} else {
			c.Held("path.string")
		}
		// ... whatever time-zone options the query runs with: a value is
		// printed with its own offset, not moved into the context zone
		for zi, zone := range []string{"UTC", "America/New_York", "+05:30", "-08:00"} {
			if (int(exp[len(exp)-1])+len(exp)+zi)%2 != 0 {
				continue
			}
			oz := h.Call("query", p, exp, h.Opts{TZ: true, Zone: h.ParseZone(zone)})
			if oz.Class != h.OK || len(oz.Items) != 1 || oz.Items[0] != exp {
				c.Violate("path.string", feat("method", m, "kind", "with-tz"), fmt.Sprintf("Query($.%s().string(), %q) with WithTZ in zone %s = %s, want [%q]", m, exp, zone, oz.Summary(), exp), v.caseOf())
			} else {
				c.Held("path.string")
			}
		}
		p2 := c18Path("$." + m + "().type()")
		o2 := h.Call("query", p2, exp, h.Opts{})
		want := map[string]string{"date": "date", "time": "time without time zone", "timetz": "time with time zone",
			"timestamp": "timestamp without time zone", "timestamptz": "timestamp with time zone"}[v.typ]
		if o2.Class != h.OK || len(o2.Items) != 1 || o2.Items[0] != want {
			c.Violate("path.string", feat("method", m, "kind", "type"), fmt.Sprintf("Query($.%s().type(), %q) = %s, want [%q]", m, exp, o2.Summary(), want), v.caseOf())
		}
	}
	if c.WantSample("value:" + v.typ) {
		c.Sample("value:"+v.typ, exp)
	}
}

// c18Held: what the previous value's MarshalJSON returned, and what it read then.
var (
	c18Held     []byte
	c18HeldWant string
)

func replayC18(c *h.Ctx, cs h.Case) {
	switch cs.Kind {
	case "datetime-value":
		var y, mo, d, hh, mi, ss, ns, off int
		e := cs.Extra
		fmt.Sscan(e["y"], &y)
		fmt.Sscan(e["mo"], &mo)
		fmt.Sscan(e["d"], &d)
		fmt.Sscan(e["hh"], &hh)
		fmt.Sscan(e["mi"], &mi)
		fmt.Sscan(e["ss"], &ss)
		fmt.Sscan(e["ns"], &ns)
		fmt.Sscan(e["off"], &off)
		checkValueC18(c, mkVal(e["type"], y, mo, d, hh, mi, ss, ns, off))
	case "unmarshal-input":
		checkUnmarshalC18(c, cs.Extra["type"], caseInput(cs))
	case "unmarshal-bytes":
		checkUnmarshalBytesC18(c, cs.Extra["type"], []byte(caseInput(cs)))
	case "tz-commute":
		var y, mo, d, hh, mi, ss, ns int
		e := cs.Extra
		fmt.Sscan(e["y"], &y)
		fmt.Sscan(e["mo"], &mo)
		fmt.Sscan(e["d"], &d)
		fmt.Sscan(e["hh"], &hh)
		fmt.Sscan(e["mi"], &mi)
		fmt.Sscan(e["ss"], &ss)
		fmt.Sscan(e["ns"], &ns)
		checkCommuteC18(c, cs.Zone, y, mo, d, hh, mi, ss, ns)
	}
}

var minLen = map[string]int{"date": 10, "time": 8, "timetz": 9, "timestamp": 19, "timestamptz": 20}

// checkUnmarshalC18 feeds one syntactically valid JSON value to UnmarshalJSON.
func checkUnmarshalC18(c *h.Ctx, typ, in string) {
	c.Eval(1)
	c.Distinct("unmarshal", typ, in)
	cs := inputCase(in, "")
	cs.Kind = "unmarshal-input"
	cs.Extra = map[string]string{"type": typ}
	isString := len(in) >= 2 && in[0] == '"' && in[len(in)-1] == '"'
	content := ""
	if isString {
		_ = json.Unmarshal([]byte(in), &content)
	}
	// "garbage": not a string at all, or a string that cannot denote a value of
	// any spelling (fewer than 5 characters, or no digit).
	mustErr := !isString || len(content) < 5 || !strings.ContainsAny(content, "0123456789")
	// ... or a string with a character no datetime text of any type contains
	// (a well-formed value followed by anything else is not a value)
	if strings.Trim(content, "0123456789-+:.TZtz ") != "" {
		mustErr = true
	}
	for _, via := range []string{"direct", "json.Unmarshal"} {
		mustErr := mustErr
		if in == "null" && via != "direct" {
			// (encoding/json handles a null for a pointer target itself)
			mustErr = false
		}
		nv, um := newOf(typ)
		var err error
		pan := ""
		func() {
			defer func() {
				if r := recover(); r != nil {
					pan = fmt.Sprint(r)
				}
			}()
			if via == "direct" {
				err = um.UnmarshalJSON([]byte(in))
			} else {
				err = json.Unmarshal([]byte(in), nv)
			}
		}()
		kind := "string"
		switch {
		case !isString:
			kind = "non-string"
		case len(content) < minLen[typ]:
			kind = "short-string"
			if !mustErr {
				kind = "string"
			}
		}
		switch {
		case pan != "":
			c.Violate("unmarshal.total", h.F("type", typ, "kind", "panic", "input", kind), fmt.Sprintf("%s UnmarshalJSON(%s) panicked: %s", via, in, pan), cs)
		case mustErr && err == nil:
			c.Violate("unmarshal.total", h.F("type", typ, "kind", "accepted-garbage", "input", kind), fmt.Sprintf("%s UnmarshalJSON(%s) returned nil, value %v", via, in, nv), cs)
		default:
			c.Held("unmarshal.total")
		}
	}
}

// checkUnmarshalBytesC18 passes raw bytes (not necessarily JSON) straight to
// UnmarshalJSON: whatever the answer, the call must return.
func checkUnmarshalBytesC18(c *h.Ctx, typ string, in []byte) {
	c.Eval(1)
	_, um := newOf(typ)
	pan := ""
	func() {
		defer func() {
			if r := recover(); r != nil {
				pan = fmt.Sprint(r)
			}
		}()
		_ = um.UnmarshalJSON(in)
	}()
	if pan != "" {
		cs := inputCase(string(in), "")
		cs.Kind = "unmarshal-bytes"
		cs.Extra = map[string]string{"type": typ}
		c.Violate("unmarshal.bytes", h.F("type", typ, "kind", "panic"), fmt.Sprintf("UnmarshalJSON(%q) panicked: %s", in, pan), cs)
	} else {
		c.Held("unmarshal.bytes")
	}
}

func checkCommuteC18(c *h.Ctx, zone string, y, mo, d, hh, mi, ss, ns int) {
	loc := h.ParseZone(zone)
	// (the zone set last wins, whatever a context further up carries)
	ctx := types.ContextWithTZ(types.ContextWithTZ(context.Background(), c18CtxZones[(d+hh)%len(c18CtxZones)]), loc)
	cs := h.Case{Kind: "tz-commute", Zone: zone, Extra: map[string]string{"y": fmt.Sprint(y), "mo": fmt.Sprint(mo), "d": fmt.Sprint(d),
		"hh": fmt.Sprint(hh), "mi": fmt.Sprint(mi), "ss": fmt.Sprint(ss), "ns": fmt.Sprint(ns)}}
	c.Eval(1)
	exists := func(hh, mi, ss, ns int) bool {
		t := time.Date(y, time.Month(mo), d, hh, mi, ss, ns, loc)
		return t.Year() == y && int(t.Month()) == mo && t.Day() == d && t.Hour() == hh && t.Minute() == mi && t.Second() == ss && t.Nanosecond() == ns
	}
	defer func() {
		if r := recover(); r != nil {
			c.Violate("tz.commute", h.F("kind", "panic"), fmt.Sprint(r), cs)
		}
	}()
	// date -> timestamptz -> date (midnight must exist in the zone)
	if exists(0, 0, 0, 0) {
		dt := types.NewDate(time.Date(y, time.Month(mo), d, 0, 0, 0, 0, time.UTC))
		back := dt.ToTimestampTZ(ctx).ToDate(ctx)
		if !sameDT(dt, back) {
			c.Violate("tz.commute", h.F("kind", "date"), fmt.Sprintf("date %v -> timestamptz -> date = %v in zone %s", dt, back, zone), cs)
		} else {
			c.Held("tz.commute")
		}
	} else {
		c.Skip("tz.commute", "midnight-in-gap")
	}
	if exists(hh, mi, ss, ns) {
		ts := types.NewTimestamp(time.Date(y, time.Month(mo), d, hh, mi, ss, ns, time.UTC))
		back := ts.ToTimestampTZ(ctx).ToTimestamp(ctx)
		if !sameDT(ts, back) {
			c.Violate("tz.commute", h.F("kind", "timestamp"), fmt.Sprintf("timestamp %v -> timestamptz -> timestamp = %v in zone %s", ts, back, zone), cs)
		} else {
			c.Held("tz.commute")
		}
		c.Distinct("commute", zone, ts.String())
	} else {
		c.Skip("tz.commute", "local-time-in-gap")
	}
}

func runC18(c *h.Ctx) {
	typs := []string{"date", "time", "timetz", "timestamp", "timestamptz"}
	years := []int{1, 2, 99, 100, 999, 1000, 1582, 1899, 1900, 1969, 1970, 1999, 2000, 2023, 2024, 2038, 9998, 9999}
	days := [][2]int{{1, 1}, {1, 31}, {2, 28}, {2, 29}, {3, 1}, {6, 15}, {12, 31}}
	times := [][3]int{{0, 0, 0}, {12, 34, 56}, {23, 59, 59}, {0, 0, 1}, {9, 5, 3}}
	nanos := []int{0, 100000000, 120000000, 123000000, 123400000, 123450000, 123456000, 123456700, 123456780, 123456789, 999999999, 1, 500000000, 999999000}
	offs := []int{0}
	for hgt := -12; hgt <= 14; hgt++ {
		if hgt != 0 {
			offs = append(offs, hgt*3600)
		}
	}
	offs = append(offs, 5*3600+1800, 5*3600+2700, -(3*3600 + 1800), -(9*3600 + 1800), 60, -60, 12*3600+2700, 59*60, -(59 * 60))
	// (beyond every zone in use, within what PostgreSQL takes: up to 15:59)
	offs = append(offs, 15*3600+1800, -(15*3600 + 2700), 15*3600+59*60, -(15*3600 + 60), 15*3600, -15*3600)
	isLeap := func(y int) bool { return y%4 == 0 && (y%100 != 0 || y%400 == 0) }
	i := 0
	for _, y := range years {
		for _, md := range days {
			if md[0] == 2 && md[1] == 29 && !isLeap(y) {
				continue
			}
			for _, tm := range times {
				for _, ns := range nanos {
					for _, off := range offs {
						i++
						if !c.Mine(i) {
							continue
						}
						// quick: thin the grid deterministically
						if !c.Thorough() && (i/c.NShards)%2 != 0 {
							continue
						}
						for _, typ := range typs {
							checkValueC18(c, mkVal(typ, y, md[0], md[1], tm[0], tm[1], tm[2], ns, off))
						}
					}
				}
			}
		}
	}
	c.Count("grid.points", int64(i))
	// random values
	r := c.Rand("c18-values")
	nrand := c.PerShard(c.N(300000, 3000000))
	for k := 0; k < nrand; k++ {
		y := 1 + r.IntN(9999)
		mo := 1 + r.IntN(12)
		d := 1 + r.IntN(28)
		ns := 0
		switch r.IntN(3) {
		case 0:
			ns = r.IntN(1000000000)
		case 1:
			ns = r.IntN(1000) * 1000000
		}
		off := (r.IntN(27*60+1) - 12*60) * 60 // -12:00 .. +15:00 whole minutes
		if r.IntN(3) == 0 {
			off = (r.IntN(27) - 12) * 3600
		}
		checkValueC18(c, mkVal(typs[r.IntN(5)], y, mo, d, r.IntN(24), r.IntN(60), r.IntN(60), ns, off))
	}

	// values built from a time.Time that carries a named zone (t.In(zone), a
	// parse in the process's local zone): the instant and the offset in force
	// at that instant are kept - also inside the hour a set-back repeats, on
	// either of its two readings
	{
		k := 0
		for _, zn := range []string{"America/New_York", "Europe/Berlin", "Australia/Lord_Howe", "America/Sao_Paulo", "Asia/Kolkata", "Pacific/Chatham"} {
			loc, err := time.LoadLocation(zn)
			if err != nil {
				continue
			}
			for _, day := range []time.Time{time.Date(2024, 11, 3, 0, 0, 0, 0, time.UTC), time.Date(2024, 10, 27, 0, 0, 0, 0, time.UTC), time.Date(2024, 4, 6, 12, 0, 0, 0, time.UTC), time.Date(2024, 3, 10, 0, 0, 0, 0, time.UTC), time.Date(2024, 6, 15, 0, 0, 0, 0, time.UTC)} {
				for q := 0; q < 48; q++ {
					k++
					if !c.Mine(k) {
						continue
					}
					src := day.Add(time.Duration(q) * 30 * time.Minute).In(loc)
					_, wantOff := src.Zone()
					for zi := range c18CtxZones {
						ctx := types.ContextWithTZ(context.Background(), c18CtxZones[zi])
						v := types.NewTimestampTZ(ctx, src)
						c.Eval(1)
						_, gotOff := v.GoTime().Zone()
						cs := h.Case{Kind: "named-zone-source", Zone: zn, Extra: map[string]string{"instant": src.UTC().Format(time.RFC3339), "offset": fmt.Sprint(wantOff)}}
						if !v.GoTime().Equal(src) || gotOff != wantOff {
							c.Violate("string.iso", h.F("type", "timestamptz", "kind", "named-zone-source"), fmt.Sprintf("NewTimestampTZ of %s (zone %s, offset %d s) = %s (offset %d s): not the same instant and offset", src.Format(time.RFC3339), zn, wantOff, v.String(), gotOff), cs)
							continue
						}
						back, ok := types.ParseTime(ctx, v.String(), -1)
						if !ok || !sameDT(v, back) {
							c.Violate("parse.roundtrip", h.F("type", "timestamptz", "kind", "named-zone-source"), fmt.Sprintf("NewTimestampTZ of %s prints %q, which parses to %v", src.Format(time.RFC3339), v.String(), back), cs)
						} else {
							c.Held("parse.roundtrip")
						}
						// the sibling constructors keep the wall clock
						if tt := types.NewTimeTZ(src); !tt.GoTime().Equal(time.Date(0, 1, 1, src.Hour(), src.Minute(), src.Second(), src.Nanosecond(), time.FixedZone("", wantOff))) {
							c.Violate("string.iso", h.F("type", "timetz", "kind", "named-zone-source"), fmt.Sprintf("NewTimeTZ of %s = %s", src.Format(time.RFC3339), tt.String()), cs)
						} else {
							c.Held("string.iso")
						}
					}
				}
			}
		}
	}
	// values that come out of ParseTime with a precision (rounded: the carry may
	// run over the second, the minute, midnight, the month, the year): they
	// print, re-parse and JSON-round-trip like any other value
	{
		texts := []string{"23:59:59.9999996", "23:59:59.5", "23:59:59.95", "12:59:59.9999999", "00:00:00.4", "23:59:59.4", "23:59:59.9999996+01:00", "23:59:59.5-08:00", "00:00:00.5+05:30",
			"2023-12-31T23:59:59.9999996", "2024-02-28T23:59:59.5", "2023-03-26T01:59:59.9999999", "1999-12-31 23:59:59.95", "2023-12-31T23:59:59.9999996+05:30", "2024-02-29T23:59:59.5Z", "0001-01-01T00:00:00.4Z", "2023-06-30T23:59:59.999999999-12:00"}
		k := 0
		for _, tx := range texts {
			for _, prec := range []int{0, 1, 3, 6, 7} {
				k++
				if !c.Mine(k) {
					continue
				}
				for zi := range c18CtxZones {
					ctx := types.ContextWithTZ(context.Background(), c18CtxZones[zi])
					v, ok := types.ParseTime(ctx, tx, prec)
					c.Eval(1)
					if !ok {
						continue
					}
					typ := strings.TrimPrefix(fmt.Sprintf("%T", v), "*types.")
					cs := h.Case{Kind: "rounded-value", Extra: map[string]string{"text": tx, "precision": fmt.Sprint(prec), "type": typ}}
					str := v.String()
					back, ok2 := types.ParseTime(ctx, str, -1)
					if !ok2 || !sameDT(v, back) {
						c.Violate("parse.roundtrip", h.F("type", typ, "kind", "rounded-value"), fmt.Sprintf("ParseTime(%q, precision %d) prints %q, which parses to %v (%v): not an equal value", tx, prec, str, back, ok2), cs)
					} else {
						c.Held("parse.roundtrip")
					}
					js, err := json.Marshal(v)
					nv, um := newOf(strings.ToLower(typ))
					if err != nil || um.UnmarshalJSON(js) != nil || !sameDT(v, nv) {
						c.Violate("json.roundtrip", h.F("type", typ, "kind", "rounded-value"), fmt.Sprintf("ParseTime(%q, precision %d) = %v encodes as %s, which decodes to %v", tx, prec, v, js, nv), cs)
					} else {
						c.Held("json.roundtrip")
					}
				}
			}
		}
	}
	// wall-clock readings that do not exist in some daylight-saving zone (or
	// exist twice), handled under a context carrying that very zone
	for gi, g := range [][6]int{{2024, 3, 10, 2, 30, 0}, {2024, 3, 31, 2, 30, 0}, {2024, 10, 6, 2, 30, 0}, {2024, 9, 8, 0, 30, 0}, {2024, 11, 3, 1, 30, 0}, {2024, 10, 27, 2, 30, 0}, {2024, 4, 7, 2, 30, 0}, {2024, 3, 10, 2, 0, 0}, {2024, 3, 10, 2, 59, 59}} {
		if !c.Mine(gi) {
			continue
		}
		for _, z := range c18CtxZones {
			c18ForceCtx = z
			for _, typ := range typs {
				checkValueC18(c, mkVal(typ, g[0], g[1], g[2], g[3], g[4], g[5], 500000000*(gi%2), 3600*(gi%5-2)))
			}
		}
		c18ForceCtx = nil
	}
	// hostile UnmarshalJSON input: valid JSON values.
	tokens := []string{"null", "true", "false", "0", "1", "-1", "1.5", "1e3", "12", "123456789012", `""`, `" "`, "[]", "{}", `[""]`, `{"a":1}`, `"a"`, `"ab"`,
		`"1"`, `"\""`, `"\\"`, `"2023-08-15"`, `"12:34:56"`, `"12:34:56+01"`, `"12:34:56+01:00"`, `"12:34:56+01:00:00"`, `"12:34:56Z"`, `"2023-08-15T12:34:56"`,
		`"2023-08-15T12:34:56Z"`, `"2023-08-15T12:34:56+01"`, `"2023-08-15T12:34:56+01:00"`, `"2023-08-15T12:34:56.123456789-07:00"`, `"2023-08-15 12:34:56"`,
		`"+"`, `"-"`, `"+1"`, `"-----"`, `"+++++++++"`, `"        +"`, `"12:34:5"`, `"1:2:3"`, `"99:99:99"`, `"2023-13-45"`, `"0000-00-00"`, `"10000-01-01"`, `"-0001-01-01"`,
		`"2023-08-15T12:34:56+01:00:00"`, `"2023-08-15T24:00:00"`, `"é"`, `"😀"`}
	// a well-formed value (of maximal length for its type) followed by something else
	for _, v := range []string{"2024-04-29", "15:11:38", "15:11:38.123456789", "14:15:31.123456789+01:22", "14:15:31+01:22", "2024-04-29T15:11:38", "2024-04-29T15:11:38.123456789", "2024-04-29T15:11:38+02:30", "2024-04-29T15:11:38.123456789+02:30", "2024-04-29T15:11:38Z"} {
		for _, tail := range []string{" or thereabouts", "x", " UTC", "é", "Zulu", " or-01:22", "T", "Z", " ", "+01:00", "0", ".5", "-", ":00", "T15:11:38+02:30", " 15:11:38", "\u0000", "[", "\n"} {
			tokens = append(tokens, `"`+v+tail+`"`)
		}
	}
	idx := 0
	for _, typ := range typs {
		for _, tk := range tokens {
			idx++
			if c.Mine(idx) {
				checkUnmarshalC18(c, typ, tk)
			}
		}
	}
	// raw bytes handed to UnmarshalJSON directly: nil, every 1- and 2-byte
	// input over a hostile alphabet, cut-off tokens
	{
		hb := []byte{'"', '\\', 'n', 't', '0', '1', '-', '+', ':', ' ', 0, 0x80, 0xff, '[', '{', 'T', 'Z', '.'}
		var raws [][]byte
		raws = append(raws, nil, []byte{})
		for _, a := range hb {
			raws = append(raws, []byte{a})
			for _, b := range hb {
				raws = append(raws, []byte{a, b})
				raws = append(raws, []byte{'"', a, b}, []byte{a, b, '"'}, []byte{'"', a, b, '"'})
			}
		}
		for _, tk := range tokens {
			for cut := 0; cut < len(tk); cut++ {
				raws = append(raws, []byte(tk[:cut]), []byte(tk[cut:]))
			}
		}
		for _, typ := range typs {
			for _, raw := range raws {
				idx++
				if c.Mine(idx) {
					checkUnmarshalBytesC18(c, typ, raw)
				}
			}
		}
	}
	c.Sample("unmarshal-input", map[string]string{"type": "timetz", "json": `"+1"`})
	// strings of length 0..12 over a small alphabet
	alpha := []byte("0129:-+T.Z ")
	ns := c.PerShard(c.N(2000000, 20000000))
	for k := 0; k < ns; k++ {
		n := r.IntN(13)
		b := make([]byte, n)
		for j := range b {
			b[j] = alpha[r.IntN(len(alpha))]
		}
		checkUnmarshalC18(c, typs[r.IntN(5)], `"`+string(b)+`"`)
	}
	// truncations / extensions of valid encodings
	nv := c.PerShard(c.N(12000, 100000))
	for k := 0; k < nv; k++ {
		typ := typs[r.IntN(5)]
		v := mkVal(typ, 1+r.IntN(9999), 1+r.IntN(12), 1+r.IntN(28), r.IntN(24), r.IntN(60), r.IntN(60), r.IntN(2)*r.IntN(1000000000), (r.IntN(27)-12)*3600)
		txt := v.expected()
		for cut := 0; cut <= len(txt); cut++ {
			checkUnmarshalC18(c, typ, `"`+txt[:cut]+`"`)
			checkUnmarshalC18(c, typ, `"`+txt[cut:]+`"`)
		}
		for _, other := range typs {
			if other != typ {
				checkUnmarshalC18(c, other, `"`+txt+`"`)
			}
		}
	}

	// conversions commute with the context zone
	zones := []string{"UTC", "America/New_York", "Europe/London", "Europe/Berlin", "Australia/Lord_Howe", "Asia/Kolkata", "Asia/Kathmandu",
		"Pacific/Apia", "America/St_Johns", "Africa/Cairo", "America/Sao_Paulo", "Pacific/Chatham", "+05:30", "-09:30", "+14:00", "-12:00"}
	nz := c.PerShard(c.N(500000, 5000000))
	rz := c.Rand("c18-zones")
	for k := 0; k < nz; k++ {
		z := zones[rz.IntN(len(zones))]
		y := 1 + rz.IntN(9999)
		if rz.IntN(2) == 0 {
			y = 1900 + rz.IntN(200)
		}
		mo := 1 + rz.IntN(12)
		d := 1 + rz.IntN(28)
		hh, mi := rz.IntN(24), rz.IntN(60)
		if rz.IntN(3) == 0 { // aim at transition hours
			hh = rz.IntN(4)
			mo = []int{3, 4, 9, 10, 11}[rz.IntN(5)]
			d = []int{1, 2, 3, 4, 5, 6, 7, 8, 9, 10, 11, 12, 13, 14, 24, 25, 26, 27, 28}[rz.IntN(19)]
		}
		checkCommuteC18(c, z, y, mo, d, hh, mi, rz.IntN(60), rz.IntN(2)*rz.IntN(1000000000))
		if k == 0 {
			c.Sample("tz-commute", map[string]any{"zone": z, "y": y, "mo": mo, "d": d, "hh": hh, "mi": mi})
		}
	}
	_ = rand.Int
}
