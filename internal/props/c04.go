package props

import (
	"encoding/hex"
	"errors"
	"fmt"
	"math/rand/v2"
	"regexp"
	"strings"
	"sync/atomic"
	"time"
	"unicode/utf8"

	"github.com/theory/sqljson/path"
	"github.com/theory/sqljson/path/ast"
	"github.com/theory/sqljson/path/parser"

	"verif/internal/gen"
	"verif/internal/h"
)

func init() {
	register(&Prop{
		ID:    "C04",
		Level: "exploration",
		Rule: "inputs: every prefix and single-byte deletion of generated valid paths, token-dictionary mutations and splices, random byte strings over a biased alphabet, " +
			"numeric literals of 1-400 digits / exponents to ±5000, nesting to depth 2000, rule-by-rule near-misses, regex fragments x flags; " +
			"an input is non-trivial when it is non-empty and is distinct by its bytes (FNV-64 of the input)",
		Run:    runC04,
		Replay: func(c *h.Ctx, cs h.Case) { checkParseInput(c, caseInput(cs), cs.Extra["rule"]) },
		MinExercised: map[string]int64{
			"panic": 1000, "shape": 1000, "wrap": 500, "mustparse": 1000, "scan.agree": 1000,
		},
		Assumptions: []string{
			"hang detection uses a 60 s wall-clock limit per single Parse call on inputs <= 64 KB (>= 10^6 x the normal time)",
			"accept/reject is asserted only for constructed near-misses; for arbitrary bytes only totality and the error contract",
		},
	})
}

func caseInput(cs h.Case) string {
	if cs.Hex != "" {
		b, _ := hex.DecodeString(cs.Hex)
		return string(b)
	}
	return cs.Input
}

func inputCase(in, rule string) h.Case {
	cs := h.Case{Kind: "parse-input"}
	if utf8.ValidString(in) && !strings.ContainsRune(in, 0) {
		cs.Input = in
	} else {
		cs.Hex = hex.EncodeToString([]byte(in))
	}
	if len(in) > 4000 {
		cs.Input = ""
		cs.Hex = hex.EncodeToString([]byte(in))
	}
	if rule != "" {
		cs.Extra = map[string]string{"rule": rule}
	}
	return cs
}

var c04Seq atomic.Int64
var c04Start atomic.Int64

// panicSite classifies a panic message into a stable feature.
func panicSite(msg string) string {
	switch {
	case strings.Contains(msg, "strconv.ParseInt"):
		return "NewInteger/ParseInt"
	case strings.Contains(msg, "strconv.ParseFloat"):
		return "NewNumeric/ParseFloat"
	case strings.Contains(msg, "unsupported value"):
		return "NewNumeric/json.Marshal"
	case strings.Contains(msg, "index out of range"), strings.Contains(msg, "slice bounds"):
		return "index-out-of-range"
	case strings.Contains(msg, "nil pointer"):
		return "nil-deref"
	case strings.Contains(msg, "regexp"):
		return "regexp"
	}
	if len(msg) > 40 {
		msg = msg[:40]
	}
	return msg
}

// checkParseInput applies the C04 contract to one input. rule != "" means
// the input is a constructed near-miss that must be rejected.
func checkParseInput(c *h.Ctx, in string, rule string) (accepted bool) {
	c04Seq.Add(1)
	c04Start.Store(time.Now().UnixNano())
	c.Eval(1)
	if in != "" {
		c.Distinct(in)
	}
	p, err, panicked := h.ParseSafe(in)
	c04Start.Store(0) // the hang watchdog times the Parse call only
	if panicked != "" {
		c.Violate("panic", h.F("site", panicSite(panicked)), "Parse panicked: "+panicked, inputCase(in, rule))
		return false
	}
	c.Held("panic")
	switch {
	case p == nil && err == nil:
		c.Violate("shape", h.F("kind", "nil,nil"), "Parse returned (nil, nil)", inputCase(in, rule))
		return false
	case p != nil && err != nil:
		c.Violate("shape", h.F("kind", "both"), "Parse returned a path and an error: "+err.Error(), inputCase(in, rule))
		return false
	}
	c.Held("shape")
	if err != nil {
		if !errors.Is(err, path.ErrPath) || !errors.Is(err, parser.ErrParse) {
			c.Violate("wrap", h.F("kind", "parse"), "error does not wrap path.ErrPath and parser.ErrParse: "+err.Error(), inputCase(in, rule))
		} else {
			c.Held("wrap")
		}
	}
	// MustParse panics exactly when Parse errs.
	mp := func() (pan bool) {
		defer func() {
			if r := recover(); r != nil {
				pan = true
			}
		}()
		_ = path.MustParse(in)
		return false
	}()
	if mp != (err != nil) {
		c.Violate("mustparse", h.F("kind", fmt.Sprint(mp)), fmt.Sprintf("MustParse panicked=%v but Parse err=%v", mp, err), inputCase(in, rule))
	} else {
		c.Held("mustparse")
	}
	// Scan / UnmarshalText / UnmarshalBinary report the same failures wrapped in ErrScan.
	{
		type un struct {
			name string
			f    func(p *path.Path) error
		}
		uns := []un{
			{"Scan(string)", func(p *path.Path) error { return p.Scan(in) }},
			{"Scan([]byte)", func(p *path.Path) error { return p.Scan([]byte(in)) }},
			{"UnmarshalText", func(p *path.Path) error { return p.UnmarshalText([]byte(in)) }},
			{"UnmarshalBinary", func(p *path.Path) error { return p.UnmarshalBinary([]byte(in)) }},
		}
		if in == "" {
			// Scan documents the empty value as SQL NULL (no path, no error);
			// the unmarshalers have no such case: the empty text is not a path
			uns = append(uns[2:], un{"UnmarshalText(nil)", func(p *path.Path) error { return p.UnmarshalText(nil) }},
				un{"UnmarshalBinary(nil)", func(p *path.Path) error { return p.UnmarshalBinary(nil) }})
		}
		for _, u := range uns {
			var q path.Path
			var serr error
			pan := ""
			func() {
				defer func() {
					if r := recover(); r != nil {
						pan = fmt.Sprint(r)
					}
				}()
				serr = u.f(&q)
			}()
			switch {
			case pan != "":
				c.Violate("panic", h.F("site", panicSite(pan), "via", u.name), u.name+" panicked: "+pan, inputCase(in, rule))
			case (serr != nil) != (err != nil):
				c.Violate("scan.agree", h.F("via", u.name), fmt.Sprintf("%s err=%v but Parse err=%v", u.name, serr, err), inputCase(in, rule))
			case serr != nil && (!errors.Is(serr, path.ErrScan) || !errors.Is(serr, parser.ErrParse)):
				c.Violate("scan.wrap", h.F("via", u.name), "error does not wrap path.ErrScan and parser.ErrParse: "+serr.Error(), inputCase(in, rule))
			case serr != nil && strings.TrimPrefix(serr.Error(), "scan: ") != strings.TrimPrefix(err.Error(), "path: "):
				c.Violate("scan.agree", h.F("via", u.name, "kind", "message"), fmt.Sprintf("%s reports %q, Parse reports %q", u.name, serr, err), inputCase(in, rule))
			case serr == nil && q.AST == nil:
				c.Violate("scan.agree", h.F("via", u.name, "kind", "nil-ast"), u.name+" succeeded but left the path empty", inputCase(in, rule))
			case serr == nil && q.String() != p.String():
				c.Violate("scan.agree", h.F("via", u.name, "kind", "different-path"), fmt.Sprintf("%s parsed %q, Parse parsed %q", u.name, q.String(), p.String()), inputCase(in, rule))
			default:
				c.Held("scan.agree")
				if serr != nil {
					c.Held("scan.wrap")
				}
			}
		}
	}
	if rule != "" {
		if err == nil {
			c.Violate("reject."+rule, h.F("rule", rule), "input violating the documented syntax was accepted as "+safeString(p), inputCase(in, rule))
		} else {
			c.Held("reject." + rule)
		}
	}
	if err != nil {
		c.Count("outcome.rejected", 1)
		return false
	}
	c.Count("outcome.accepted", 1)
	// Accepted: @ occurs only inside a filter and last only inside a
	// subscript, however the input spelled them.
	if rule == "" {
		if bad := misplaced(p.Root(), 0, false); bad != "" {
			r := "current-outside-filter"
			if bad == "last" {
				r = "last-outside-subscript"
			}
			c.Violate("reject."+r, h.F("rule", r, "via", "accepted-tree"), "the accepted path "+safeString(p)+" has "+bad+" where the documented syntax forbids it", inputCase(in, rule))
		} else {
			c.Held("placement")
		}
	}
	// Accepted: printing must not panic, and every like_regex must compile.
	func() {
		defer func() {
			if r := recover(); r != nil {
				c.Violate("panic", h.F("site", "String:"+panicSite(fmt.Sprint(r))), "String() panicked on an accepted path: "+fmt.Sprint(r), inputCase(in, rule))
			}
		}()
		_ = p.String()
	}()
	nre := 0
	walkAST(p.Root(), func(n ast.Node) {
		rn, ok := n.(*ast.RegexNode)
		if !ok {
			return
		}
		nre++
		func() {
			defer func() {
				if r := recover(); r != nil {
					c.Violate("regex.compiles", h.F("kind", "Regexp-panic"), "accepted like_regex does not compile: "+fmt.Sprint(r), inputCase(in, rule))
				}
			}()
			var re *regexp.Regexp = rn.Regexp()
			_ = re.MatchString("abc\nABC")
			c.Held("regex.compiles")
		}()
	})
	if nre > 0 {
		o := h.Call("query", p, "abc\nAbc", h.Opts{Vars: map[string]any{"v": "a"}, Silent: true})
		if o.Class == h.Panic {
			c.Violate("regex.compiles", h.F("kind", "exec-panic"), "executing an accepted like_regex path panicked: "+o.Panic, inputCase(in, rule))
		}
	}
	return true
}

// misplaced walks an accepted tree and names the first @ that is not inside a
// filter expression or the first last that is not inside an array subscript
// ("" when there is none). depth counts the enclosing filters.
func misplaced(n ast.Node, depth int, inSub bool) string {
	for ; n != nil && !gen.IsNilNode(n); n = n.Next() {
		switch x := n.(type) {
		case *ast.ConstNode:
			switch x.Const() {
			case ast.ConstCurrent:
				if depth == 0 {
					return "@"
				}
			case ast.ConstLast:
				if !inSub {
					return "last"
				}
			}
		case *ast.BinaryNode:
			if b := misplaced(x.Left(), depth, inSub); b != "" {
				return b
			}
			if b := misplaced(x.Right(), depth, inSub); b != "" {
				return b
			}
		case *ast.UnaryNode:
			d := depth
			if x.Operator() == ast.UnaryFilter {
				d++
			}
			if b := misplaced(x.Operand(), d, inSub); b != "" {
				return b
			}
		case *ast.RegexNode:
			if b := misplaced(x.Operand(), depth, inSub); b != "" {
				return b
			}
		case *ast.ArrayIndexNode:
			for _, sub := range x.Subscripts() {
				if b := misplaced(sub, depth, true); b != "" {
					return b
				}
			}
		}
	}
	return ""
}

// escapedKeyword respells one letter of a keyword with an escape sequence:
// keywords are recognised after escapes are decoded, so the respelled word is
// the same token.
func escapedKeyword(kw string, k int) string {
	i := k % len(kw)
	ch := kw[i]
	var e string
	switch (k / len(kw)) % 4 {
	case 0:
		e = fmt.Sprintf(`\x%02x`, ch)
	case 1:
		e = fmt.Sprintf(`\u%04X`, ch)
	case 2:
		e = fmt.Sprintf(`\u{%x}`, ch)
	default:
		if strings.IndexByte("bfnrtvxu", ch) >= 0 {
			e = fmt.Sprintf(`\u{0%x}`, ch)
		} else {
			e = `\` + string(ch)
		}
	}
	return kw[:i] + e + kw[i+1:]
}

func safeString(p *path.Path) (s string) {
	defer func() {
		if r := recover(); r != nil {
			s = "<String panicked>"
		}
	}()
	return p.String()
}

// walkAST visits every node reachable through exported accessors.
func walkAST(n ast.Node, f func(ast.Node)) {
	if n == nil {
		return
	}
	switch x := n.(type) {
	case *ast.BinaryNode:
		if x == nil {
			return
		}
		f(n)
		walkAST(x.Left(), f)
		walkAST(x.Right(), f)
	case *ast.UnaryNode:
		if x == nil {
			return
		}
		f(n)
		walkAST(x.Operand(), f)
	case *ast.RegexNode:
		if x == nil {
			return
		}
		f(n)
		walkAST(x.Operand(), f)
	case *ast.ArrayIndexNode:
		if x == nil {
			return
		}
		f(n)
		for _, s := range x.Subscripts() {
			walkAST(s, f)
		}
	default:
		if gen.IsNilNode(n) {
			return
		}
		f(n)
	}
	walkAST(n.Next(), f)
}

// nearMisses are (input, rule) pairs: one valid spelling plus exactly one
// rule-breaking edit. Each must be rejected.
var nearMisses = [][2]string{
	// @ outside a filter
	{"@", "current-outside-filter"}, {"@.a", "current-outside-filter"}, {"$.a[@]", "current-outside-filter"},
	{"$ ? (@.a == 1).b[@.c]", "current-outside-filter"}, {"@ == 1", "current-outside-filter"}, {"exists(@)", "current-outside-filter"},
	{"$.a + @", "current-outside-filter"}, {"strict @", "current-outside-filter"}, {"-@", "current-outside-filter"},
	// last outside a subscript
	{"last", "last-outside-subscript"}, {"$.a == last", "last-outside-subscript"}, {"$ ? (@ == last)", "last-outside-subscript"},
	{"$[0].a ? (last > 1)", "last-outside-subscript"}, {"last.a", "last-outside-subscript"}, {"$.a.size() - last", "last-outside-subscript"},
	// malformed numbers
	{"1_", "number"}, {"1__0", "number"}, {"0x", "number"}, {"0x_1", "number"}, {"0b2", "number"}, {"0o8", "number"},
	{"1e", "number"}, {"1e+", "number"}, {"01", "number"}, {"1a", "number"}, {"0x1g", "number"}, {"1.e", "number"},
	{"0b", "number"}, {"0o", "number"}, {"1_.5", "number"}, {"1._5", "number"}, {"_1 + 1", "number"}, {"0x1.8", "number"},
	{"1e1_", "number"}, {"0b1e1", "number"}, {"$[1_]", "number"}, {"$[0x]", "number"}, {"00", "number"}, {"1.5a", "number"},
	{"0_1", "number"}, {"1..2", "number"}, {".e1", "number"}, {"08.5", "number"}, {"09e1", "number"}, {"08.", "number"}, {"-09.25", "number"}, {"08_1.5", "number"}, {"$ ? (@ > 08.5)", "number"}, {"09.5e-1", "number"}, {"$[08.0]", "number"},
	// malformed escapes
	{`"\u12"`, "escape"}, {`"\u{}"`, "escape"}, {`"\u{1234567}"`, "escape"}, {`"\xZ1"`, "escape"}, {`"\x0"`, "escape"},
	{`"\u0000"`, "escape"}, {`"\x00"`, "escape"}, {`"\u{0}"`, "escape"}, {`"\u{000000}"`, "escape"}, {`"\ud83d"`, "escape"},
	{`"\ude04\ud83d"`, "escape"}, {`"\ud83dx"`, "escape"}, {`"\ud83d\u0041"`, "escape"}, {`"\u12G4"`, "escape"}, {`"\u{12G}"`, "escape"},
	{`"\u{12"`, "escape"}, {`$."\u00"`, "escape"}, {`$.a\u00`, "escape"}, {`$.a\x0`, "escape"}, {`$.\u0000`, "escape"},
	{`$"\x00"`, "escape"}, {`"\`, "escape"}, {`$.a\`, "escape"}, {`"\ude04"`, "escape"},
	{`"\udc00\udc00"`, "escape"}, {`"\u{dc00}\u{dc00}"`, "escape"}, {`$."\udfff\udc00"`, "escape"}, {`$.a\udc00\udc01`, "escape"}, {`$"\ude00\ude00"`, "escape"}, {`"\ud800\ud800"`, "escape"}, {`"\udc00\ud800"`, "escape"}, {`"x\udbff"`, "escape"},
	{`"\u{D800}"`, "escape"}, {`"\u{DC00}"`, "escape"}, {`"\u{dfff}x"`, "escape"}, {`$.\u{DC00}`, "escape"}, {`$"\u{D800}"`, "escape"}, {`$ like_regex "\u{DC00}"`, "escape"}, {`"\u{DE00}\u{D83D}"`, "escape"}, {`"\u{0D800}"`, "escape"}, {`"\u{00DBFF}"`, "escape"},
	// strings and comments
	{`"abc`, "unterminated-string"}, {"\"a\nb\"", "newline-in-string"}, {`$."abc`, "unterminated-string"}, {`$"abc`, "unterminated-string"},
	{"$ /* c", "unterminated-comment"}, {"/* $", "unterminated-comment"}, {"$.a /*/", "unterminated-comment"}, {"$ /* * /", "unterminated-comment"},
	// like_regex flags and patterns
	{`$ like_regex "a" flag "z"`, "regex-flag"}, {`$ like_regex "a" flag "x"`, "regex-flag-x"}, {`$ like_regex "a" flag "ix"`, "regex-flag-x"},
	{`$ like_regex "a" flag "I"`, "regex-flag"}, {`$ like_regex "a" flag "i "`, "regex-flag"}, {`$ like_regex "a" flag "g"`, "regex-flag"},
	{`$ like_regex "("`, "regex-pattern"}, {`$ like_regex "a{2,1}"`, "regex-pattern"}, {`$ like_regex "[a"`, "regex-pattern"},
	{`$ like_regex "*"`, "regex-pattern"}, {`$ like_regex "a**"`, "regex-pattern"}, {`$ like_regex "\\"`, "regex-pattern"},
	{`$ like_regex ")"`, "regex-pattern"}, {`$ like_regex "a{1001}"`, "regex-pattern"},
	{`$ like_regex "\\1"`, "regex-pattern"}, {`$ like_regex "(?=a)"`, "regex-pattern"}, {`$ like_regex "[z-a]"`, "regex-pattern"},
	{`$ like_regex "(" flag "i"`, "regex-pattern"}, {`$ like_regex "\\8"`, "regex-pattern"},
	// grammar near-misses
	{"$.", "grammar"}, {"$[]", "grammar"}, {"$[1 to]", "grammar"}, {"$ ?()", "grammar"}, {"exists()", "grammar"},
	{"$.decimal(1,2,3)", "grammar"}, {"$.time(-1)", "grammar"}, {"$.size(1)", "grammar"}, {"1 < 2 < 3", "grammar"},
	{"lax strict $", "grammar"}, {"strict lax $", "grammar"}, {"$ $", "grammar"}, {"$.a $.b", "grammar"}, {"", "grammar"},
	{"strict", "grammar"}, {"$..a", "grammar"}, {"$[1,]", "grammar"}, {"$[,1]", "grammar"}, {"$.a ? (@)", "grammar"},
	{"$ ? (1)", "grammar"}, {"!($.a)", "grammar"}, {"($.a == 1) + 1", "grammar"}, {"$.a == (1 == 1)", "grammar"},
	{"$.**{}", "grammar"}, {"$.**{1,2}", "grammar"}, {"$.**{-1}", "grammar"}, {"$.**{1 to}", "grammar"}, {"$.**{1.5}", "grammar"},
	{"$.**{a}", "grammar"}, {"$.date(1)", "grammar"}, {`$.time("a")`, "grammar"}, {"$.datetime(1)", "grammar"}, {"$.decimal(1.5)", "grammar"},
	{"$.decimal(a)", "grammar"}, {"$.decimal(,1)", "grammar"}, {"$.decimal(1,)", "grammar"}, {"$.abs(", "grammar"},
	{"$.type())", "grammar"}, {"($", "grammar"}, {"$)", "grammar"}, {"$ starts with 1", "grammar"}, {"$ starts with $.a", "grammar"},
	{"$ starts \"a\"", "grammar"}, {"$ like_regex 1", "grammar"}, {"$ like_regex \"a\" flag", "grammar"}, {"$ like_regex \"a\" \"i\"", "grammar"},
	{"($.a == 1) is", "grammar"}, {"$.a == 1 is unknown", "grammar"}, {"($.a) is unknown", "grammar"}, {"$ ? (@.a == 1", "grammar"},
	{"$ ? @.a == 1", "grammar"}, {"$ && $", "grammar"}, {"$.a == 1 && $.b", "grammar"}, {"!$.a == 1", "grammar"}, {"$ = 1", "grammar"},
	{"$ & $", "grammar"}, {"$ | $", "grammar"}, {"$ === 1", "grammar"}, {"$.a == 1 ||", "grammar"}, {"+", "grammar"}, {"$ +", "grammar"},
	{"* 1", "grammar"}, {"$ to 1", "grammar"}, {"$[1 to 2 to 3]", "grammar"}, {"$[*, 1]", "grammar"}, {"$[1, *]", "grammar"}, {"$.*.", "grammar"},
	{"TRUE", "keyword-case"}, {"$.a == TRUE", "keyword-case"}, {"$.a == Null", "keyword-case"}, {"False", "keyword-case"}, {"$.a == nULL", "keyword-case"},
	// a reserved word is its ASCII letters in either case - not whatever Unicode
	// case folding maps onto them (U+017F long s, U+212A Kelvin sign, U+0130 / U+0131)
	{"\u017ftrict $.a", "keyword-letters"}, {"$.\u017fize()", "keyword-letters"}, {"$[la\u017ft]", "keyword-letters"}, {"$.**{la\u017ft}", "keyword-letters"}, {"$ ? (@ \u017ftarts with \"a\")", "keyword-letters"},
	{"($.a == 1) i\u017f unknown", "keyword-letters"}, {"$.time\u017ftamp()", "keyword-letters"}, {"$.\\u017Fize()", "keyword-letters"}, {"$.a li\u212ae_regex \"x\"", "keyword-letters"}, {"$.\u212aeyvalue()", "keyword-letters"},
	{"$ ? (ex\u0131sts(@.a))", "keyword-letters"}, {"($.a == 1) \u0130s unknown", "keyword-letters"}, {"$.a[0 t\u00f6 1]", "keyword-letters"}, {"$.a \u017ftarts with \"a\"", "keyword-letters"}, {"$.ab\u017f()", "keyword-letters"},
	{"$.a like_regex \"x\" \ufb02ag \"i\"", "keyword-letters"}, {"$.\u017ftring()", "keyword-letters"}, {"$.a.\u212aeyvalue().key", "keyword-letters"}, {"la\u017f", "keyword-letters"}, {"$.a == nu\u017f", "keyword-letters"},
	// an escape that stands for NUL is refused wherever it is written - also as
	// the second escape after a surrogate half
	{"\"\\uD834\\u0000\"", "escape-nul"}, {"$.a\\uD834\\u0000 x", "escape-nul"}, {"\"\\ud834\\u{0}\"", "escape-nul"}, {"\"\\uD834\\u{}\"", "escape-nul"}, {"$.\"k\\udbff\\u0000\"", "escape-nul"}, {"$\"v\\uD800\\u{00}\"", "escape-nul"},
	{"$.a\\uD834\\u0000 ? (@ ==", "escape-nul"}, {"$.a\\uD834\\u0000\"unterminated", "escape-nul"}, {"$ ? (@ like_regex \"\\uD834\\u0000\")", "escape-nul"}, {"$.datetime(\"\\uD834\\u0000\")", "escape-nul"}, {"\"\\u{0}\"", "escape-nul"}, {"\"a\\x00b\"", "escape-nul"},
}

var tokenDict = []string{
	"$", "@", "last", "strict ", "lax ", ".", ".*", ".**", "[*]", "[", "]", "(", ")", "{", "}", ",", " to ", " ? (", "?",
	"==", "!=", "<>", "<", "<=", ">", ">=", "&&", "||", "!", " is unknown", "exists(", " starts with ", " like_regex ", " flag ",
	"+", "-", "*", "/", "%", "1", "0", "9223372036854775807", "9223372036854775808", "1.5", ".5", "5.", "1e3", "1e400", "1e-400", "0x1F", "0b1", "0o7", "1_0",
	"\"a\"", "\"\"", "\"\\u00e9\"", "\"\\x41\"", "\"\\u{1F600}\"", "\"\\ud83d\\ude04\"", "$v", "$\"v w\"", "a", "_a", "\\u0061", "\\x61",
	".abs()", ".size()", ".type()", ".floor()", ".ceiling()", ".double()", ".keyvalue()", ".bigint()", ".boolean()", ".integer()", ".number()", ".string()",
	".decimal(", ".decimal(5,2)", ".datetime()", ".datetime(\"HH24\")", ".date()", ".time()", ".time(3)", ".time_tz()", ".timestamp()", ".timestamp_tz(6)",
	"true", "false", "null", " ", "\t", "\n", "/*", "*/", "/* c */", "\\", "\"", "'", "\x00", "\xff", "\xc3", "\u00e9", "\U0001F600", "--", "- -", "-(-1)", "+-", "- -0", "-(-0)", "-(-0.0)", "- -0x0", "-(-.0)", "- - 0e3", "-(-(-0))", "- -0b0", "-(- 0.)", "\\u", "\\u{", "\\x",
	"la\\x73t", "l\\u0061st", "\\last", "las\\u{74}", "\\x40", "[last]", "[@]",
}

func runC04(c *h.Ctx) {
	// hang watchdog
	done := make(chan struct{})
	defer close(done)
	go func() {
		t := time.NewTicker(2 * time.Second)
		defer t.Stop()
		var lastSeq int64 = -1
		for {
			select {
			case <-done:
				return
			case <-t.C:
				seq := c04Seq.Load()
				st := c04Start.Load()
				if seq == lastSeq && st > 0 && c04Start.Load() == st && time.Since(time.Unix(0, st)) > 60*time.Second {
					j := h.ReadJournal(c.WorkDir, c.Shard)
					c.Violate("hang", h.F("kind", "parse-over-60s"), "a single Parse call did not return within 60 s", h.Case{Kind: "journal", Input: j})
					_ = c.Finish("")
					panic("hang detected; shard result written")
				}
				lastSeq = seq
			}
		}
	}()

	check := func(in, rule string) bool {
		c.Journal(in)
		return checkParseInput(c, in, rule)
	}
	// the empty and the blank inputs, through every entry point
	for _, in := range []string{"", " ", "\t\n", "/**/", " /* c */ ", "strict", "lax ", "strict /* */"} {
		check(in, "")
	}

	// (f) near-misses: every shard runs its share.
	for i, nm := range nearMisses {
		if c.Mine(i) {
			check(nm[0], nm[1])
			c.Sample("near-miss", map[string]string{"input": nm[0], "rule": nm[1]})
			if nm[1] == "last-outside-subscript" {
				// the same misplaced last, one of its letters written as an escape
				for k := 0; k < 16; k++ {
					check(strings.Replace(nm[0], "last", escapedKeyword("last", k), 1), nm[1])
				}
			}
		}
	}
	// near-miss by construction: a character outside ASCII that is not an
	// identifier character, in every keyword / operator / punctuation slot of
	// valid paths. The whole Unicode private use block U+E000..U+E0FF is
	// tried: the token numbers of the generated parser start at 57346
	// (U+E002), and a raw character must never stand in for a token.
	{
		var runes []rune
		for x := rune(0xe000); x <= 0xe0ff; x++ {
			runes = append(runes, x)
		}
		runes = append(runes, 0xd7, 0xf7, 0x2260, 0x2264, 0x2265, 0x2227, 0x2228, 0xac, 0xff04, 0xff20, 0xff0e, 0xff3b, 0x3000, 0xa0, 0x2028, 0x200b, 0xfeff, 0xf8ff, 0xf0000, 0x10fffd, 0xfffd, 0x2026)
		slots := []string{"$[1 %s 2]", "$ %s 1", "%s $.a", "%s$.a", "$.a %s", "$ ? (@ %s 1)", "$.a %s \"x\"", "$ ? (@.a %s)", "$.a.%s()", "$%s", "$.%s", "$[%s]", "$[0 %s]",
			"$ ? (%s(@.a))", "($.a == 1) %s unknown", "($.a == 1) is %s", "$ starts %s \"a\"", "$ %s with \"a\"", "$ like_regex \"a\" %s \"i\"", "$ %s \"a\"", "%s",
			"$.**{1 %s 2}", "$.**{%s}", "$.**{%s to 1}", "-%s", "$.a == %s", "$.a %s $.b", "$.a.decimal(%s)", "$.a.datetime(%s)", "$ %s", "($.a == 1) %s ($.b == 2)", "%s($.a == 1)"}
		k := 0
		for _, sl := range slots {
			for _, x := range runes {
				k++
				if c.Mine(k) {
					check(strings.Replace(sl, "%s", string(x), 1), "non-ascii-token")
				}
			}
		}
		c.Sample("near-miss", map[string]string{"input": "$[1 \ue002 2]", "rule": "non-ascii-token"})
	}
	// near-miss by construction: @ outside a filter / last outside a subscript
	// behind every kind of chain head (literal, variable, parenthesised
	// expression, method result), at every kind of position
	{
		heads := []string{`"abc"`, `(1)`, `(1.5)`, `null`, `true`, `$v`, `$`, `$.a`, `(1 + 2)`, `(-$.a)`, `($.a == 1)`, `"x".type()`, `(2).abs()`, `$.a.size()`, `$.a[0]`, `$.a.**`, `(null)`, `$"v w"`}
		bad := []string{`[@]`, `[@.i]`, `[0 to @]`, ` ? (@ == last)`, ` ? (last > 0)`, `[0] ? (@ > last)`, `.a[@]`, ` ? (@ == "abc" ? (last > 0))`, `[$.x ? (@ == 1)] ? (last == 1)`, `.a.b[@.c].d`, `[0, @]`, `.*[@]`, `.**[@.a]`, `.decimal(1)[@]`}
		k := 0
		for _, hd := range heads {
			for _, b := range bad {
				for _, wrap := range []string{"%s", "$.z + %s", "%s == 1", "exists(%s)", "-%s", "$ ? (@.q == 1).r[%s == 1]"} {
					k++
					if !c.Mine(k) {
						continue
					}
					rule := "current-outside-filter"
					if !strings.Contains(b, "@") || strings.Contains(b, "? (@") && strings.Contains(b, "last") {
						rule = "last-outside-subscript"
					}
					if strings.Contains(wrap, "[%s") {
						// inside a subscript last is legal, @ (outside a filter) is not
						if !strings.Contains(b, "[@") && !strings.Contains(b, "to @") && !strings.Contains(b, ", @") {
							continue
						}
						rule = "current-outside-filter"
					}
					check(fmt.Sprintf(wrap, hd+b), rule)
					if rule == "last-outside-subscript" && strings.Contains(b, "last") {
						check(fmt.Sprintf(wrap, hd+strings.Replace(b, "last", escapedKeyword("last", k), 1)), rule)
					}
				}
			}
		}
	}
	// near-miss by construction: every byte that is not a hexadecimal digit
	// (control characters and bytes that differ from a digit in one bit among
	// them) in every digit position of every escape form, in every place an
	// escape may appear
	{
		escs := []string{`\x41`, `\u00e9`, `\u00E9`, `\u{1F600}`, `\u{41}`, `\ud83d\ude04`}
		ctxs := []string{`"a%sb"`, `$."k%s"`, `$.k%sz`, `$"v%s"`, `$.s like_regex "a%s"`, `$ ? (@ == "%s")`, `$.a.datetime("HH24%s")`}
		k := 0
		for _, e := range escs {
			for pos := 0; pos < len(e); pos++ {
				ch := e[pos]
				if !(ch >= '0' && ch <= '9' || ch >= 'a' && ch <= 'f' || ch >= 'A' && ch <= 'F') || pos > 0 && e[pos-1] == '\\' {
					continue
				}
				for x := 1; x < 256; x++ {
					bx := byte(x)
					if bx >= '0' && bx <= '9' || bx >= 'a' && bx <= 'f' || bx >= 'A' && bx <= 'F' || bx == '}' {
						continue
					}
					for _, cx := range ctxs {
						k++
						if !c.Mine(k) {
							continue
						}
						rule := "escape"
						if bx >= 0x80 {
							rule = "" // also invalid UTF-8, possibly completed by what follows: totality only
						}
						check(fmt.Sprintf(cx, e[:pos]+string([]byte{bx})+e[pos+1:]), rule)
					}
				}
			}
		}
		c.Sample("near-miss", map[string]string{"input": "\"\\x4\x11\"", "rule": "escape"})
	}
	// near-miss by construction: paths in which one ASCII character is written as
	// its non-shortest two-byte form (C0/C1 lead byte)
	{
		k := 0
		for _, txt := range []string{`$.a`, `1 / 2`, `$`, `"ab"`, `$ ? (@.a == 1)`, `$[0 to 1]`, `$.a /* c */ .b`, `strict $.a`, `$.a like_regex "x"`} {
			for pos := 0; pos < len(txt); pos++ {
				k++
				if !c.Mine(k) {
					continue
				}
				ch := txt[pos]
				over := string([]byte{0xc0 | ch>>6, 0x80 | ch&0x3f})
				check(txt[:pos]+over+txt[pos+1:], "invalid-utf8")
			}
		}
	}
	// near-miss by construction: a numeric literal with an identifier glued
	// to it is malformed - also when the identifier begins with an escape
	// (which may spell a keyword: to, starts, like_regex, is)
	{
		nums := []string{"1", "0x1F", "1.5e0", "1_0", "0b1", "7.", ".5", "1e3", "0o7", "10"}
		glued := []struct{ form, word string }{{"$[%s%s 2]", "to"}, {"$ ? (%s%s with \"1\")", "starts"}, {"$ ? (%s%s \"^1\")", "like_regex"}, {"$[%s%s last]", "to"}, {"$.a == %s%s.b", "x"}, {"$[0, %s%s 3]", "to"}, {"(%s == %s)%s unknown", "is"}}
		k := 0
		for _, n := range nums {
			for _, g := range glued {
				for v := 0; v < 16; v++ {
					k++
					if !c.Mine(k) {
						continue
					}
					w := escapedKeyword(g.word, v)
					if !strings.HasPrefix(w, "\\") {
						// the escape must come first: a letter right after the number is the ordinary trailing-junk case
						w = "\\u{" + fmt.Sprintf("%x", g.word[0]) + "}" + g.word[1:]
					}
					var in string
					if strings.Count(g.form, "%s") == 3 {
						in = fmt.Sprintf(g.form, n, n, w)
						continue // (a parenthesis separates: not glued)
					}
					in = fmt.Sprintf(g.form, n, w)
					check(in, "number")
				}
			}
		}
		c.Sample("near-miss", map[string]string{"input": "$[1\\u0074o 2]", "rule": "number"})
	}
	// near-miss by construction: a like_regex flag character outside i s m x q,
	// among them the code points whose low byte is that of a valid flag
	{
		k := 0
		for _, fl := range []rune("ismxq") {
			for _, hi := range []rune{0x100, 0x200, 0x4e00, 0xff00, 0x1f300, 0x2000, 0x10ff00, 0xe000, 0x400} {
				for _, form := range []string{`$ like_regex "a" flag "%s"`, `$ like_regex "a" flag "i%s"`, `$ ? (@ like_regex "a" flag "%sq")`, `$ like_regex "a" flag "\u%04x"`} {
					k++
					if !c.Mine(k) {
						continue
					}
					x := hi + fl
					if strings.Contains(form, `\u`) {
						if x > 0xffff {
							continue
						}
						check(fmt.Sprintf(form, x), "regex-flag")
					} else {
						check(fmt.Sprintf(form, string(x)), "regex-flag")
					}
				}
			}
		}
	}
	// near-miss by construction: NUL byte / invalid UTF-8 at every position of valid paths
	rg := c.Rand("c04-corpus")
	g := &gen.G{R: rg, C: gen.DefaultCfg()}
	g.C.Datetime = true
	ncorpus := c.PerShard(c.N(1600, 20000))
	corpus := make([]string, 0, ncorpus)
	for len(corpus) < ncorpus {
		p := g.Path()
		var st *gen.Style
		if rg.IntN(2) == 0 {
			st = &gen.Style{R: rg, Lexical: true, MinimalParens: rg.IntN(2) == 0}
		}
		txt := gen.Spell(p, st)
		corpus = append(corpus, txt)
	}
	acc := 0
	for _, txt := range corpus {
		if check(txt, "") {
			acc++
		}
	}
	c.Count("corpus.valid-spellings", int64(len(corpus)))
	c.Count("corpus.accepted", int64(acc))
	if len(corpus) > 0 {
		c.Sample("corpus", corpus[0])
	}
	// (a) every prefix and every single-byte deletion; NUL / invalid byte insertion at every position
	maxA := c.N(100, 1500)
	for i, txt := range corpus {
		if i >= maxA {
			break
		}
		for k := 0; k < len(txt); k++ {
			check(txt[:k], "")
			check(txt[:k]+txt[k+1:], "")
		}
		for k := 0; k <= len(txt); k++ {
			check(txt[:k]+"\x00"+txt[k:], "nul-byte")
			check(txt[:k]+"\xff"+txt[k:], "invalid-utf8")
			// (one byte >= 0x80 inserted into valid UTF-8 leaves a stray
			// continuation or an unfinished sequence, wherever it lands)
			for _, b := range []string{"\x80", "\xbf", "\xc0", "\xc2", "\xe0", "\xf0", "\xf8", "\x81"} {
				if (k+i)%4 == 0 {
					check(txt[:k]+b+txt[k:], "invalid-utf8")
				}
			}
			// ill-formed sequences of several bytes: non-shortest forms of ASCII
			// characters (which would mean something to the lexer), a surrogate,
			// a code point beyond U+10FFFF - at a character boundary
			if (k+i)%3 == 0 && utf8.RuneStart(append([]byte(txt), 0)[k]) {
				for _, b := range []string{"\xc0\xaf", "\xc1\xa1", "\xc0\xa4", "\xc0\xa2", "\xc0\xa0", "\xe0\x80\xaf", "\xf0\x80\x80\xa4", "\xed\xa0\x80", "\xf4\x90\x80\x80", "\xc1\xbf"} {
					check(txt[:k]+b+txt[k:], "invalid-utf8")
				}
			}
		}
		if i == 0 {
			c.Sample("prefix/deletion/NUL-insertion of", txt)
		}
	}
	// (b) mutations
	rm := c.Rand("c04-mut")
	nmut := c.PerShard(c.N(1200000, 16000000))
	for i := 0; i < nmut; i++ {
		b := []byte(corpus[rm.IntN(len(corpus))])
		for k := 1 + rm.IntN(3); k > 0; k-- {
			switch rm.IntN(6) {
			case 0: // flip
				if len(b) > 0 {
					b[rm.IntN(len(b))] ^= byte(1 << rm.IntN(8))
				}
			case 1, 2: // insert token
				t := tokenDict[rm.IntN(len(tokenDict))]
				p := rm.IntN(len(b) + 1)
				b = append(b[:p:p], append([]byte(t), b[p:]...)...)
			case 3: // delete range
				if len(b) > 1 {
					p := rm.IntN(len(b))
					q := p + 1 + rm.IntN(min(4, len(b)-p))
					b = append(b[:p:p], b[q:]...)
				}
			case 4: // duplicate range
				if len(b) > 1 {
					p := rm.IntN(len(b))
					q := p + 1 + rm.IntN(min(6, len(b)-p))
					b = append(b[:q:q], append(append([]byte{}, b[p:q]...), b[q:]...)...)
				}
			case 5: // splice
				o := corpus[rm.IntN(len(corpus))]
				p := rm.IntN(len(b) + 1)
				q := rm.IntN(len(o) + 1)
				b = append(b[:p:p], o[q:]...)
			}
		}
		if len(b) > 4096 {
			b = b[:4096]
		}
		check(string(b), "")
		if i == 0 {
			c.Sample("mutation", string(inputCase(string(b), "").Input))
		}
	}
	// token soup
	nsoup := c.PerShard(c.N(800000, 10000000))
	for i := 0; i < nsoup; i++ {
		var sb strings.Builder
		for k := 1 + rm.IntN(8); k > 0; k-- {
			sb.WriteString(tokenDict[rm.IntN(len(tokenDict))])
		}
		check(sb.String(), "")
		if i == 0 {
			c.Sample("token-soup", inputCase(sb.String(), ""))
		}
	}
	// (c) random bytes over a biased alphabet
	alpha := []byte("$@.[]()*?!<>=&|+-/%\"\\, \t\n0123456789abcdefxuotrlnsi_{}\x00\xff\xc3\xa9\xe2\x82")
	nrand := c.PerShard(c.N(600000, 8000000))
	for i := 0; i < nrand; i++ {
		n := rm.IntN(65)
		b := make([]byte, n)
		for k := range b {
			if rm.IntN(20) == 0 {
				b[k] = byte(rm.IntN(256))
			} else {
				b[k] = alpha[rm.IntN(len(alpha))]
			}
		}
		check(string(b), "")
	}
	// (d) big literals
	nlit := c.PerShard(c.N(40000, 400000))
	for i := 0; i < nlit; i++ {
		check(bigLiteral(rm), "")
	}
	for i, s := range []string{
		"9223372036854775807", "9223372036854775808", "-9223372036854775808", "-9223372036854775809", "18446744073709551615", "18446744073709551616",
		"0x7fffffffffffffff", "0x8000000000000000", "0xffffffffffffffff", "0b" + strings.Repeat("1", 63), "0b" + strings.Repeat("1", 64), "0o777777777777777777777", "0o1000000000000000000000",
		"1e308", "1e309", "1e400", "-1e400", "1e-400", "1.7976931348623157e308", "1.7976931348623159e308", "4.9e-324", "2e-324", "- -1", "-(-1)", "- - 1", "-(-(1))", "+(-1)", "-(+1)", "- -1.5", "-(-1.5)", "+ +1", "-(-1).abs()",
		"$[9223372036854775808]", "$[1e400]", "$.decimal(9223372036854775808)", "$.decimal(99999999999)", "$.time(9223372036854775808)", "$.time(99999999999)", "$.**{9223372036854775808}", "$.**{99999999999}", "$.**{4294967295}", "$.**{4294967296}", "$.**{2147483648}",
		"$ ? (@ > 9223372036854775808)", "$ ? (@ > - -1)", "1 - -1", "1 - - 1", "1 + +1", "-9223372036854775807 - 1",
	} {
		if c.Mine(i) {
			check(s, "")
			c.Sample("boundary-literal", s)
		}
	}
	// (e) deep nesting (linear in depth)
	depths := []int{10, 100, 500, 1000, 2000}
	if c.Thorough() {
		depths = append(depths, 5000, 20000)
	}
	i := 0
	for _, d := range depths {
		for _, mk := range []func(int) string{
			func(d int) string { return strings.Repeat("(", d) + "1" + strings.Repeat(")", d) },
			func(d int) string { return "$" + strings.Repeat(" ? (@", d) + " == 1" + strings.Repeat(")", d) },
			func(d int) string { return "$" + strings.Repeat("[$", d) + "[0]" + strings.Repeat("]", d) },
			func(d int) string { return strings.Repeat("-", d) + "$" },
			func(d int) string { return strings.Repeat("!(", d) + "$ == 1" + strings.Repeat(")", d) },
			func(d int) string { return "$" + strings.Repeat(".a", d) },
			func(d int) string { return strings.Repeat("exists(", d) + "$" + strings.Repeat(")", d) },
			func(d int) string { return "1" + strings.Repeat(" + 1", d) },
			func(d int) string { return strings.Repeat("(", d) + "$ == 1" + strings.Repeat(") is unknown", d) },
			func(d int) string { return strings.Repeat("((", d) },
			func(d int) string { return strings.Repeat("/*", d) + strings.Repeat("*/", d) + "$" },
		} {
			if c.Mine(i) {
				check(mk(d), "")
			}
			i++
		}
	}
	// (g) regex fragments x flags
	frags := []string{"a", ".", "*", "+", "?", "(", ")", "[", "]", "{", "}", "|", "^", "$", "\\\\", "\\\\d", "\\\\b", "\\\\p{L}", "\\\\pN", "\\\\1", "\\\\Q", "\\\\E", "(?i)", "(?P<n>", "(?:", "{2}", "{2,}", "{,2}", "{1001}", "[^a]", "[a-z]", "[[:alpha:]]", "\\\\x{10FFFF}", "\\\\x{110000}", "\\\\u00e9", "é", "\\\\n", "\\n", "\\\\z", "\\\\C", "(?s)", "(?U)", "\\\\\\\\"}
	flagSets := []string{"", "i", "s", "m", "q", "is", "im", "iq", "sq", "mq", "ism", "ismq", "x", "xq", "ix", "ii", "qi"}
	nre := c.PerShard(c.N(200000, 2000000))
	for i := 0; i < nre; i++ {
		var sb strings.Builder
		for k := 1 + rm.IntN(5); k > 0; k-- {
			sb.WriteString(frags[rm.IntN(len(frags))])
		}
		in := `$ like_regex "` + sb.String() + `"`
		if f := flagSets[rm.IntN(len(flagSets))]; f != "" {
			in += ` flag "` + f + `"`
		}
		check(in, "")
		if i == 0 {
			c.Sample("regex", in)
		}
	}
}

func bigLiteral(r *rand.Rand) string {
	digits := func(n int) string {
		b := make([]byte, n)
		for i := range b {
			b[i] = byte('0' + r.IntN(10))
		}
		if b[0] == '0' && n > 1 {
			b[0] = '1'
		}
		return string(b)
	}
	pre := ""
	switch r.IntN(4) {
	case 0:
		pre = "-"
	case 1:
		pre = "$[" // will be closed below
	}
	var s string
	switch r.IntN(7) {
	case 0:
		s = digits(1 + r.IntN(400))
	case 1:
		s = digits(1+r.IntN(30)) + "." + digits(1+r.IntN(400))
	case 2:
		s = digits(1+r.IntN(20)) + "e" + []string{"", "+", "-"}[r.IntN(3)] + fmt.Sprint(r.IntN(5001))
	case 3:
		s = "0x" + strings.Repeat("f", 1+r.IntN(40))
	case 4:
		s = "0b" + strings.Repeat("1", 1+r.IntN(130))
	case 5:
		s = "." + digits(1+r.IntN(400)) + "e" + fmt.Sprint(r.IntN(800)-400)
	case 6:
		s = "0o" + strings.Repeat("7", 1+r.IntN(60))
	}
	if pre == "$[" {
		return "$[" + s + "]"
	}
	return pre + s
}
