package props

import (
	"fmt"
	"strings"

	"verif/internal/gen"
	"verif/internal/h"
)

func init() {
	register(&Prop{
		ID:    "C07",
		Level: "exploration",
		Rule: "exhaustive small scope: every chain of at most 3 steps (quick: 2) over {.a .b .* [*] [0] [1] [last] [0 to 1] [1 to last] [0,1] .** .**{1} .**{1 to 2} ?(@.a == 1) ?(@ > 0) ?(exists(@.b))} x every JSON document of at most 5 nodes (quick: 4) over leaves {1, \"s\", null, [], {}} and keys a, b, in lax and strict mode - the offending element thereby appears at every position of every array and subscript list; plus random larger accessor/filter paths. " +
			"Oracle: the structural subset of the reference evaluator (all member orders) and the direct assertion that lax accessor paths never fail. Non-trivial: the chain has >= 2 steps or the document is a container; distinct by (path, document)",
		Run:          runC07,
		Replay:       replayC07,
		MinExercised: map[string]int64{"lax.noerror": 50000, "lax.items": 50000, "strict.error-iff-mismatch": 20000, "strict.items": 20000},
		Assumptions:  []string{"below .** in strict mode: member accessors and [*] skip the nodes they do not apply to; a subscript [i] applied to a non-array is the structural error it is everywhere else (the exception in the statement names member accessors only), and its out-of-range positions are clipped"},
	})
}

var c07Steps = []string{".a", ".b", ".*", "[*]", "[0]", "[1]", "[last]", "[0 to 1]", "[1 to last]", "[0,1]", ".**", ".**{1}", ".**{1 to 2}", " ?(@.a == 1)", " ?(@ > 0)", " ?(exists(@.b))", " ?(exists(@[*][0]))"}

func checkStructural(c *h.Ctx, ptxt, doc string, lax bool) {
	p := cachedPath(ptxt)
	if p == nil {
		c.Count("gen.unparsable", 1)
		return
	}
	ec := &ExecCase{Text: ptxt, P: p, Doc: doc}
	o := h.Call("query", p, ec.DocValue(), h.Opts{})
	c.Eval(1)
	cs := ec.Case()
	if o.Class == h.Panic || o.Class == h.Invalid {
		c.Skip("lax.items", "panic-or-invalid-is-C05")
		return
	}
	if lax {
		if o.Class != h.OK {
			c.Violate("lax.noerror", h.F("got", o.Class), fmt.Sprintf("lax %s on %s returned %s; lax accessor paths never fail", ptxt, doc, o.Summary()), cs)
			return
		}
		c.Held("lax.noerror")
	} else if o.Class == h.Hard {
		c.Violate("strict.error-iff-mismatch", h.F("got", "hard"), fmt.Sprintf("%s on %s returned a non-suppressible error %s", ptxt, doc, o.Summary()), cs)
		return
	}
	verdict, feat, detail := modelVerdict(ec, o)
	clause := "lax.items"
	if !lax {
		clause = "strict.items"
		if o.Class != h.OK || strings.Contains(detail, "allow soft") {
			clause = "strict.error-iff-mismatch"
		}
	}
	switch {
	case verdict == "held":
		c.Held(clause)
		if !lax {
			c.Held("strict.error-iff-mismatch")
		}
		if c.WantSample(clause + "." + o.Class) {
			c.Sample(clause+"."+o.Class, map[string]any{"path": ptxt, "doc": doc, "result": o.Summary()})
		}
	case strings.HasPrefix(verdict, "skip:"):
		c.Skip(clause, strings.TrimPrefix(verdict, "skip:"))
	default:
		for _, one := range strings.Split(feat["cause"], "+") {
			f := h.F("cause", one)
			if one == "unexplained" {
				f = feat
			}
			c.Violate(clause, f, detail, cs)
		}
	}
}

func replayC07(c *h.Ctx, cs h.Case) {
	checkStructural(c, cs.Path, cs.Doc, !strings.HasPrefix(cs.Path, "strict "))
}

func runC07(c *h.Ctx) {
	maxSteps := c.N(2, 3)
	maxNodes := c.N(4, 5)
	docs := gen.Trees(maxNodes, []string{"1", `"s"`, "null"}, []string{"a", "b"})
	var chains []string
	var rec func(cur string, n int)
	rec = func(cur string, n int) {
		if n > 0 {
			chains = append(chains, cur)
		}
		if n == maxSteps {
			return
		}
		for _, s := range c07Steps {
			rec(cur+s, n+1)
		}
	}
	rec("$", 0)
	c.Count("chains.enumerated", int64(len(chains)))
	c.Count("documents.enumerated", int64(len(docs)))
	idx := 0
	for _, ch := range chains {
		for _, lax := range []bool{true, false} {
			ptxt := ch
			if !lax {
				ptxt = "strict " + ch
			}
			for _, d := range docs {
				idx++
				if !c.Mine(idx) {
					continue
				}
				if strings.Count(ch, ".")+strings.Count(ch, "[")+strings.Count(ch, "?") >= 2 || d[0] == '[' || d[0] == '{' {
					c.Distinct(ptxt, d)
				}
				checkStructural(c, ptxt, d, lax)
			}
		}
	}
	c.SetExhaustive(fmt.Sprintf("all chains of <= %d steps over %d step forms x all documents of <= %d nodes x lax/strict", maxSteps, len(c07Steps), maxNodes))
	// literal bounds at the edges of the subscript type, fractions and negative
	// bounds: a bound beyond the array is a structural mismatch (absorbed in lax
	// mode, reported in strict mode, skipped below .**) - only a bound outside
	// int32 is a range error
	{
		k := 0
		for _, b := range []string{"2147483647", "2147483646", "-2147483648", "-2147483647", "-1", "-0.5", "0.9", "1.9999999999", "100", "2147483647.9", "-0.9999999999", "last + 2147483640"} {
			for _, form := range []string{"$[%s]", "$[0 to %s]", "$[%s to last]", "$.a[%s]", "$.**[0 to %s]", "$.**{1}[%s]", "$ ? (exists(@[%s]))", "$ ? (!(exists(@[0 to %s])))", "$[0, %s]", "$[%s, 0]", "$[*] ? ((@[%s] == 1) is unknown)"} {
				for _, d := range []string{`[1,2,3]`, `[]`, `{"a":[1,2]}`, `[[1],[2,3]]`, `1`, `{"a":1}`, `[{"a":[5]},[6,7]]`} {
					k++
					if !c.Mine(k) {
						continue
					}
					ptxt := fmt.Sprintf(form, b)
					checkStructural(c, ptxt, d, true)
					checkStructural(c, "strict "+ptxt, d, false)
				}
			}
		}
	}
	// an operand of a strict filter that meets a mismatch after it has selected
	// something (the offending element or subscript is not the first one): the
	// condition is unknown whatever was selected before
	{
		k := 0
		for _, cond := range []string{"@[*].a == 1", "@[0, 5] == 1", "@.v[*].a == 1", "1 == @[*].a", "@[*].a > 0 && @[0].a == 1", "exists(@[*].a)", "@[0 to 1].a == 1", "@[*].a.b == 2", "@[1, 0].a == 1", "!(@[*].a == 7)"} {
			for _, d := range []string{`[{"a":1},{}]`, `[{},{"a":1}]`, `[{"a":1},{"a":1}]`, `[1,2]`, `{"v":[{"a":1},3]}`, `[{"a":1},[]]`, `[{"a":{"b":2}},{"a":5}]`, `[[{"a":1}],{"a":1}]`} {
				for _, form := range []string{"$ ? (%s)", "$ ? ((%s) is unknown)", "$.* ? (%s)", "$ ? (%s).type()"} {
					k++
					if !c.Mine(k) {
						continue
					}
					ptxt := fmt.Sprintf(form, cond)
					checkStructural(c, "strict "+ptxt, d, false)
					checkStructural(c, ptxt, d, true)
				}
			}
		}
	}
	// random larger accessor/filter paths
	r := c.Rand("c07")
	g := &gen.G{R: r, C: gen.DefaultCfg()}
	g.C.OnlyAccessors = true
	g.C.Vars = false
	g.C.HardErrs = false
	g.C.MaxSteps = 5
	dc := gen.DefaultDocCfg()
	dc.Depth = 4
	n := c.PerShard(c.N(400000, 4000000))
	for i := 0; i < n; i++ {
		lax := r.IntN(2) == 0
		chain := &gen.N{K: gen.KRoot}
		for j := 1 + r.IntN(5); j > 0; j-- {
			chain.Append(g.Step(2, false, false))
		}
		txt := gen.Spell(&gen.Path{Lax: lax, Root: chain}, nil)
		checkStructural(c, txt, gen.Doc(r, dc), lax)
	}
}
