package props

import (
	"context"
	"errors"
	"fmt"
	"strings"

	"github.com/theory/sqljson/path/exec"

	"verif/internal/h"
	"verif/internal/model"
)

func init() {
	register(&Prop{
		ID:    "C08",
		Level: "exploration",
		Rule: "random (path, document, options) triples (paths with predicates/filters before erroring steps, erroring steps inside subscripts and method arguments, each non-suppressible error kind); " +
			"every entry point is executed without and with WithSilent on identical inputs and the stated relations are asserted; silent Query items are compared with the reference model's items-before-failure; a cancellation injected at a step of the silent run (the context carrying a caller-supplied cause that wraps ErrVerbose) must come back as a cancellation; " +
			"H1/H2 hook invariants (verbose flag restored at every step exit and call end) are asserted on every execution. Non-trivial: the verbose Query is not an empty error-free result; distinct by (path, document, decoding, tz, zone)",
		Run:    runC08,
		Replay: replayC08,
		MinExercised: map[string]int64{"silent-returns-verbose": 10000, "ok-differs": 3000, "soft.silent-errs": 1000, "soft.items-before-failure": 500,
			"soft.exists-null": 500, "hard.cancel": 5000, "hard-changed": 200, "hard.closed-list": 200, "verbose-leak": 10000},
		Assumptions: []string{
			"the closed list of non-suppressible errors is the one in the property statement (unknown variable, time-zone-requiring casts/comparisons, datetime template, decimal precision/scale, cancellation)",
			"paths that expand object members get single-member objects so that the verbose and the silent run are comparable (member order is open)",
		},
	})
}

var hardKinds = []struct{ name, substr string }{
	{"unknown-variable", "could not find jsonpath variable"},
	{"tz-required", "without time zone usage"},
	{"datetime-template", ".datetime(template) is not yet supported"},
	{"decimal-precision", "NUMERIC precision"},
	{"decimal-scale", "NUMERIC scale"},
	{"cancellation", "context canceled"},
	{"cancellation", "context deadline exceeded"},
}

func hardKind(msg string) string {
	for _, k := range hardKinds {
		if strings.Contains(msg, k.substr) {
			return k.name
		}
	}
	return ""
}

func sameOut(a, b *h.Out, kv bool) bool {
	if a.Class != b.Class {
		return false
	}
	if a.Class != h.OK {
		return a.ErrText() == b.ErrText()
	}
	switch a.Entry {
	case "query":
		if kv {
			return itemsKey(a.Items) == itemsKey(b.Items)
		}
		return h.CanonList(a.Items) == h.CanonList(b.Items)
	case "first":
		if kv {
			return itemsKey([]any{a.Val}) == itemsKey([]any{b.Val})
		}
		return h.Canon(a.Val) == h.Canon(b.Val)
	}
	return a.Bool == b.Bool
}

func checkC08(c *h.Ctx, ec *ExecCase) {
	doc := ec.DocValue()
	vo := ec.Opts()
	vo.Silent = false
	so := vo
	so.Silent = true
	cs := ec.Case()
	cs.Silent = false
	mode := modeName(ec.P.IsLax())
	var vq, sq *h.Out
	var ve, se *h.Out
	var sm, sem *h.Out
	det := deterministicCase(ec, doc, vo.Vars)
	for _, entry := range h.Entries {
		v := h.Call(entry, ec.P, doc, vo)
		s := h.Call(entry, ec.P, doc, so)
		c.Eval(2)
		if entry == "query" {
			vq, sq = v, s
			if !(v.Class == h.OK && len(v.Items) == 0) {
				c.Distinct(ec.Text, ec.Doc, fmt.Sprint(ec.UseNum, ec.TZ), ec.Zone)
			}
		}
		if entry == "exists" {
			ve, se = v, s
		}
		if entry == "match" {
			sm = s
		}
		if entry == "existsormatch" {
			sem = s
		}
		feat := func(kv ...string) map[string]string {
			return h.F(append([]string{"entry", entry, "mode", mode}, kv...)...)
		}
		// hook invariants
		for _, o := range []*h.Out{v, s} {
			if len(o.Faults) > 0 {
				cl := "context"
				if strings.Contains(o.Faults[0], "verbose") {
					cl = "verbose-leak"
				}
				c.Violate(cl, feat("fault", faultKind(o.Faults[0])), "hook invariant failed: "+strings.Join(o.Faults, "; "), cs)
			} else {
				c.Held("verbose-leak")
			}
		}
		if v.Class == h.Panic || s.Class == h.Panic {
			c.Skip("ok-differs", "panic-is-C05")
			continue
		}
		if !det {
			if s.Class == h.Soft {
				c.Violate("silent-returns-verbose", feat(), "WithSilent returned a suppressible error: "+s.ErrText(), cs)
			}
			c.Skip("ok-differs", "member-order-open")
			continue
		}
		// 1. no ErrVerbose error under WithSilent
		if s.Class == h.Soft {
			c.Violate("silent-returns-verbose", feat(), "WithSilent returned a suppressible error: "+s.ErrText(), cs)
		} else {
			c.Held("silent-returns-verbose")
		}
		// 1b. a cancellation is returned as such under WithSilent too, at
		// whichever step it arrives and whatever cause the caller attached to
		// the context (context.Cause reports an error wrapping ErrVerbose here)
		if s.Steps > 0 && (entry == "query" || entry == h.Entries[1+len(ec.Text)%4]) {
			k := (len(ec.Text)*31 + len(ec.Doc)*17 + len(entry)) % (s.Steps + 1)
			cause := []error{context.Canceled, context.DeadlineExceeded}[(len(ec.Text)+len(ec.Doc))%2]
			m := &h.CallMon{CancelAt: k, Cause: cause}
			o := h.CallMonitored(entry, ec.P, doc, so, m)
			c.Eval(1)
			switch {
			case o.Class == h.Panic:
			case o.Err == nil || !errors.Is(o.Err, exec.ErrExecution) || !errors.Is(o.Err, cause) || errors.Is(o.Err, exec.ErrVerbose):
				ccs := cs
				ccs.Silent = true
				ccs.Entry = entry
				ccs.Extra = map[string]string{"cancel-at-step": fmt.Sprint(k)}
				c.Violate("hard.cancel", feat("at", fmt.Sprint(k > 0)), fmt.Sprintf("cancelled at step %d of %d under WithSilent: %s; want an error wrapping ErrExecution and %v, not ErrVerbose", k, s.Steps, o.Summary(), cause), ccs)
			default:
				c.Held("hard.cancel")
			}
		}
		kv := strings.Contains(ec.Text, "keyvalue")
		switch v.Class {
		case h.OK, h.Null:
			// 2. success is unchanged by WithSilent
			if entry == "match" && v.Class == h.OK || entry != "match" {
				if !sameOut(v, s, kv) {
					c.Violate("ok-differs", feat(), fmt.Sprintf("without WithSilent: %s; with: %s", v.Summary(), s.Summary()), cs)
				} else {
					c.Held("ok-differs")
				}
			}
		case h.Soft:
			// 3. suppressible failure: the silent run returns no error (Query/First) or NULL/established answer
			switch entry {
			case "query", "first":
				if s.Class != h.OK {
					c.Violate("soft.silent-errs", feat("silent", s.Class), fmt.Sprintf("verbose: %s; silent: %s", v.Summary(), s.Summary()), cs)
				} else {
					c.Held("soft.silent-errs")
				}
			default:
				if s.Class != h.Null && s.Class != h.OK {
					c.Violate("soft.silent-errs", feat("silent", s.Class), fmt.Sprintf("verbose: %s; silent: %s", v.Summary(), s.Summary()), cs)
				} else {
					c.Held("soft.silent-errs")
				}
				// Match: an answer is established only by the single boolean
				// that was found; several items, or none, or another item, are
				// no answer - NULL
				if entry == "match" && sq != nil && sq.Class == h.OK && !(len(sq.Items) == 1 && isBool(sq.Items[0])) {
					if s.Class != h.Null {
						c.Violate("soft.match-null", feat("items", fmt.Sprint(min(len(sq.Items), 3))), fmt.Sprintf("verbose Match: %s; silent Query found %s - no single boolean; silent Match: %s instead of NULL", v.Summary(), sq.Summary(), s.Summary()), cs)
					} else {
						c.Held("soft.match-null")
					}
				}
			}
		case h.Hard:
			// 4. non-suppressible errors are returned unchanged
			if s.Class != h.Hard || s.ErrText() != v.ErrText() {
				c.Violate("hard-changed", feat("silent", s.Class), fmt.Sprintf("verbose: %s; silent: %s", v.Summary(), s.Summary()), cs)
			} else {
				c.Held("hard-changed")
			}
			if k := hardKind(v.ErrText()); k == "" {
				c.Violate("hard.closed-list", feat("kind", "not-in-list"), "non-suppressible error outside the closed list: "+v.ErrText(), cs)
			} else {
				c.Held("hard.closed-list")
				c.Count("hard-kind."+k, 1)
			}
		case h.Invalid:
			c.Skip("hard-changed", "ErrInvalid-is-C05")
		}
	}
	// 3b. Exists: NULL unless the answer was already established (an item found before the failure)
	if !det {
		return
	}
	// 3d. silently, ExistsOrMatch answers as the entry point it stands for does
	// (NULL where that one answers NULL - not a plain false)
	if ref := map[bool]*h.Out{true: sm, false: se}[ec.P.IsPredicate()]; sem != nil && ref != nil && sem.Class != h.Panic && ref.Class != h.Panic {
		if sem.Class != ref.Class || sem.Bool != ref.Bool {
			scs := cs
			scs.Silent = true
			c.Violate("soft.exists-null", h.F("mode", mode, "entry", "existsormatch", "predicate", fmt.Sprint(ec.P.IsPredicate())), fmt.Sprintf("silent ExistsOrMatch: %s; silent %s: %s", sem.Summary(), ref.Entry, ref.Summary()), scs)
		} else {
			c.Held("soft.exists-null")
		}
	}
	// 3a. Match: NULL unless the answer was already established - the single
	// boolean the silent Query returns is the established answer
	if sm != nil && sq != nil && sq.Class == h.OK && len(sq.Items) == 1 && isBool(sq.Items[0]) && sm.Class != h.Panic {
		if sm.Class != h.OK || sm.Bool != sq.Items[0].(bool) {
			c.Violate("soft.match-established", h.F("mode", mode), fmt.Sprintf("silent Query returned %s but silent Match returned %s", sq.Summary(), sm.Summary()), cs)
		} else {
			c.Held("soft.match-established")
		}
	}
	if ve != nil && ve.Class == h.Soft && se.Class == h.OK {
		if !se.Bool || (sq.Class == h.OK && len(sq.Items) == 0) {
			f := h.F("mode", mode, "cause", "unexplained")
			if lastStepUnaryArith(ec.Abs) && ec.P.IsLax() {
				f["cause"] = "unary-arith-exists-shortcut"
			}
			c.Violate("soft.exists-null", f, fmt.Sprintf("verbose Exists: %s; silent Exists: %s although no item precedes the failure (silent Query: %s)", ve.Summary(), se.Summary(), sq.Summary()), cs)
		} else {
			c.Held("soft.exists-null")
		}
	} else if ve != nil && ve.Class == h.Soft {
		c.Held("soft.exists-null")
	}
	// 3c. items found before the failure (reference model)
	if vq != nil && vq.Class == h.Soft && sq.Class == h.OK {
		sec := *ec
		sec.Silent = true
		verdict, feat, detail := modelVerdict(&sec, sq)
		switch {
		case verdict == "held":
			c.Held("soft.items-before-failure")
		case strings.HasPrefix(verdict, "skip:"):
			c.Skip("soft.items-before-failure", strings.TrimPrefix(verdict, "skip:"))
		default:
			scs := cs
			scs.Silent = true
			for _, one := range strings.Split(feat["cause"], "+") {
				f := h.F("cause", one)
				if one == "unexplained" {
					f = feat
				}
				c.Violate("soft.items-before-failure", f, "verbose Query fails with "+vq.ErrText()+"; "+detail, scs)
			}
		}
	}
	// 4b. a non-suppressible error that the evaluation must raise is raised -
	// with and without WithSilent (both runs losing it alike would agree with
	// each other): the reference evaluator says where one is due
	if vq != nil && (vq.Class == h.OK || vq.Class == h.Soft) {
		vec := *ec
		vec.Silent = false
		res := model.Eval(ec.P.AST, ec.DocValue(), vec.ModelOpts(model.Dev{}))
		allHard := res.Unspec == "" && !res.Capped && len(res.Outcomes) > 0
		for _, mo := range res.Outcomes {
			if mo.Class != model.Hard {
				allHard = false
			}
		}
		if allHard {
			// (not where a recorded deviation explains it: is unknown swallowing a hard error)
			dev := model.Eval(ec.P.AST, ec.DocValue(), vec.ModelOpts(model.Dev{IsUnknownSwallowsHard: true, SubscriptSkipsNull: true, UnaryExistsShortcut: true}))
			explained := dev.Unspec != "" || dev.Capped || matchExpect(vq, expectations(dev, false))
			if explained {
				c.Skip("hard.raised", "explained-by-a-known-finding")
			} else {
				c.Violate("hard.raised", h.F("mode", mode, "got", vq.Class), fmt.Sprintf("Query returned %s; the evaluation meets a non-suppressible error (%s) in every order of evaluation", vq.Summary(), res.Outcomes[0].Msg), cs)
			}
		} else if res.Unspec == "" {
			c.Held("hard.raised")
		}
	}
	if vq != nil && c.WantSample("pair:"+vq.Class) {
		c.Sample("pair:"+vq.Class, map[string]any{"path": ec.Text, "doc": ec.Doc, "verbose": vq.Summary(), "silent": sq.Summary()})
	}
}

func faultKind(f string) string {
	for _, k := range []string{"verbose", "current", "root", "innermostArraySize", "ignoreStructuralErrors", "baseObject", "useTZ"} {
		if strings.Contains(f, k) {
			return k
		}
	}
	return "other"
}

func replayC08(c *h.Ctx, cs h.Case) {
	ec, err := CaseFrom(cs)
	if err != nil {
		c.Note("replay: " + err.Error())
		return
	}
	checkC08(c, ec)
}

func runC08(c *h.Ctx) {
	eg := NewExecGen(c.Rand("c08"))
	eg.G.C.Datetime = true
	eg.Deterministic = true
	n := c.PerShard(c.N(1500000, 15000000))
	for i := 0; i < n; i++ {
		checkC08(c, eg.Next())
	}
	nh := c.PerShard(c.N(100000, 1000000))
	for i := 0; i < nh; i++ {
		checkC08(c, eg.harvestCase(i*c.NShards+c.Shard))
	}
	// directed: the two bounds of a range, one raising a non-suppressible and
	// the other a suppressible error; a boolean found before a suppressible
	// failure; a subscript expression that fails after one item
	dirDoc := `{"list":[10,20,30,40],"idx":[1,"x"],"ks":[{"k":1},{"j":2}],"bl":[true,"zz"],"ab":[{"b":false},{"c":1}],"s":"x","d":"2024-06-14","n":2,"tf":[true,false],"abc":[{"b":false},{"b":true},{}]}`
	k := 0
	for _, pt := range []string{"$.list[$missing to $.s.double()]", "$.list[$.s.double() to $missing]", "$.list[$.d.timestamp_tz() to $.s.integer()]", "$.list[$.n.decimal(0) to $.nokey]", "strict $.list[$missing to $.nokey]",
		"$.list[0 to $missing]", "$.list[$missing]", "$ ? (@.list[$missing to @.s.double()] > 0)", "$.bl[*].boolean()", "strict $.ab[*].b", "$.bl[*].boolean() ? (@ == true)",
		"strict $.list[$.idx[0, 5]]", "$.list[$.idx[*].double()]", "strict $.list[$.ks[*].k]", "strict $.list[0 to $.ks[*].k]", "$ ? (@.list[@.idx[*].double()] > 15)", "strict $.list ? (@.size() > 2)[$.ks[*].k]",
		// several items, the first of them a boolean: no answer for Match
		"$.tf[*]", "strict $.abc[*].b", "$.tf[*].boolean()", "$.tf", "$.bl[*]", "$.tf[0,1]", "$.tf[*] ? (@ == true || @ == false)", "$.abc[*].b", "$.tf[*].type()", "$.bl[*].boolean().string()"} {
		for v := 0; v < 4; v++ {
			k++
			if !c.Mine(k) {
				continue
			}
			ec, err := CaseFrom(h.Case{Path: pt, Doc: dirDoc, UseNum: v&1 != 0, TZ: v&2 != 0, Vars: stdVars1})
			if err != nil {
				c.Count("gen.unparsable", 1)
				continue
			}
			checkC08(c, ec)
		}
	}
	// directed: a conversion that fails inside a predicate (quietly) and again
	// after it (where it is reported); a number no type can hold after numbers
	// that convert, under a unary operator (UseNumber documents only)
	dirDoc2 := `{"ds":["bogus","2024-06-14"],"one":["bogus"],"ns":["1","x"],"nums":[1,2.5,1e400,4],"lead":[1e400,1],"o":{"a":[3,-1e999]}}`
	for _, pt := range []string{`strict $.one[*] ? ((@.date() == @.date()) is unknown).date()`, `$.ds[*] ? ((@.date() == @.date()) is unknown || @.date() == @.date()).date()`, `$.ds[*] ? ((@.datetime() < @.datetime()) is unknown).datetime()`,
		`$.one[*] ? ((@.time() == @.time()) is unknown).time()`, `$.ds[*] ? ((@.timestamp() == @.timestamp()) is unknown || true == true).timestamp()`, `$.ns[*] ? ((@.double() > 0) is unknown || @.double() > 0).double()`,
		`$.ns[*] ? (exists(@.integer()) || !exists(@.integer())).integer()`, `$.ds[*] ? (!(@.date() == @.date()) || @.date() == @.date() || (@.date() == @.date()) is unknown).date().string()`,
		`-$.nums[*]`, `+$.nums[*]`, `(-$.nums[*]).abs()`, `-$.nums[*] ? (@ < 0)`, `-$.lead[*]`, `(+$.o.a[*]).floor()`, `-$.o.a`, `-$.nums[0 to 2]`, `strict -$.nums[*]`, `$.nums[*] ? (-@ < 0)`, `-(-$.nums[*])`} {
		for v := 0; v < 2; v++ {
			k++
			if !c.Mine(k) {
				continue
			}
			ec, err := CaseFrom(h.Case{Path: pt, Doc: dirDoc2, UseNum: true, TZ: v&1 != 0, Vars: stdVars1})
			if err != nil {
				c.Count("gen.unparsable", 1)
				continue
			}
			checkC08(c, ec)
			// what the run without WithSilent reports is what the rules say it
			// reports (the two runs agreeing with each other is not enough when
			// both have lost the error)
			vq := h.Call("query", ec.P, ec.DocValue(), ec.Opts())
			c.Eval(1)
			switch verdict, feat, detail := modelVerdict(ec, vq); {
			case verdict == "held":
				c.Held("soft.raised")
			case strings.HasPrefix(verdict, "skip:"):
				c.Skip("soft.raised", strings.TrimPrefix(verdict, "skip:"))
			case feat["cause"] != "" && feat["cause"] != "unexplained":
				c.Skip("soft.raised", "recorded-finding:"+feat["cause"])
			default:
				c.Violate("soft.raised", feat, detail, ec.Case())
			}
			// a unary operator over several items, silently: the results for the
			// items before the first one it fails on
			if u := pt[0]; (u == '-' || u == '+') && !strings.ContainsAny(pt[1:], "()?") {
				pp, pu := cachedPath(pt[1:]), cachedPath(string(u)+"$")
				if pp == nil || pu == nil {
					continue
				}
				so := ec.Opts()
				so.Silent = true
				opnd := h.Call("query", pp, ec.DocValue(), so)
				sq := h.Call("query", ec.P, ec.DocValue(), so)
				c.Eval(2)
				if opnd.Class != h.OK || sq.Class == h.Panic || !flat(opnd.Items) {
					continue // (an item that is an array is unwrapped by the operator, not by Query)
				}
				var want []any
				for _, x := range opnd.Items {
					ox := h.Call("query", pu, x, h.Opts{})
					c.Eval(1)
					if ox.Class != h.OK {
						break
					}
					want = append(want, ox.Items...)
				}
				scs := ec.Case()
				scs.Silent = true
				if sq.Class != h.OK || h.CanonListTyped(sq.Items) != h.CanonListTyped(want) {
					c.Violate("soft.items-before-failure", h.F("form", "unary-over-items"), fmt.Sprintf("silent Query(%s) = %s; applying the operator to the operand's items %s one by one up to the first failure gives %s", pt, sq.Summary(), h.CanonList(opnd.Items), h.CanonListTyped(want)), scs)
				} else {
					c.Held("soft.items-before-failure")
				}
			}
		}
	}
	c.Count("harvested.paths", int64(len(harvestedPaths())))
	c.Count("gen.rejected-by-parser", int64(eg.Bad))
}
