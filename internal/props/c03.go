package props

import (
	"fmt"
	"math"
	"math/rand/v2"
	"strings"

	"verif/internal/gen"
	"verif/internal/h"
)

func init() {
	register(&Prop{
		ID:    "C03",
		Level: "exploration",
		Rule: "abstract paths (harness' own syntax trees over every node kind, with keys/strings/variables over ASCII, Latin-1, BMP and astral code points, keywords as keys, numeric literals over the boundary grid) x random spellings built only from the documented alternatives " +
			"(separators incl. comments and none, keyword case, bare/quoted/escaped keys, \\b \\f \\n \\r \\t \\v \\xNN \\uNNNN surrogate pairs \\u{N..}, decimal/hex/octal/binary/underscore/exponent/.5/5. numbers, != vs <>, redundant and minimal parentheses); " +
			"the operator-pair precedence matrix and the last-token matrix are enumerated exhaustively. Oracle: the abstract tree the text was spelled from. Non-trivial: the spelling differs from the canonical one; distinct by spelled text",
		Run:          runC03,
		Replay:       replayC03,
		MinExercised: map[string]int64{"accept": 10000, "tree": 10000, "lasttoken": 500, "ispredicate": 10000, "precedence": 300},
		Assumptions: []string{
			"only spellings the documentation permits are generated (a conservative table decides where a separator may be omitted); sign folding of numeric literals is normalised on the abstract side",
		},
	})
}

func c03Cfg() gen.Cfg {
	cfg := gen.DefaultCfg()
	cfg.Datetime = true
	cfg.Keys = []string{"a", "b", "_x", "x1", "é", "key with space", "last", "true", "null", "strict", "to", "exists", "is", "with", "type", "\"q\"", "tab\there", "back\\slash", "C:\\apps", "\\U0001F600x", "\\a", "\U0001F600", "日本", "a.b", "$", "@", "", "1a", " nbsp", "​zw", "\x7f", "\ufffd", "k\ufffd",
		"cafe\u0301", "a\u203fb", "l\u00b7l", "\u2167", "\u0915\u093e\u092e", "\u0e01\u0e34\u0e19", "x\u0663", "alpha",
		"a ", " ", "two  spaces", "a\t", "x\n", "dot.", "a\U0001D800", "\U0002DC00z", "q\"", "tail\\", "9", "a-b", "a/",
		// every word the lexer knows is also a key name
		"abs", "lax", "date", "flag", "size", "time", "floor", "bigint", "double", "number", "starts", "string", "boolean", "ceiling", "decimal", "integer", "time_tz", "unknown", "datetime", "keyvalue", "timestamp", "like_regex", "timestamp_tz", "false",
		// ... and a key keeps its letters as they are written, also where they spell a reserved word
		"Type", "LAST", "Strict", "Time_TZ", "Exists", "IS", "tO", "Size", "KeyValue", "Like_Regex", "TRUE", "Null", "FLAG", "With", "Unknown", "LAX"}
	cfg.VarNames = []string{"v", "w", "arr", "x_1", "é", "with space", "1", "日本", "a\"b", "\ufffd", "cafe\u0301", "a\u203fb", "\u0e01\u0e34", "two  spaces", "x\U0001DC00", "$$rate", "$x", "$", "$$"}
	cfg.Strs = []string{"a", "ab", "", "x y", "\"", "\\", "\n", "\t\r\b\f\v", "é", "ÿ", "Ā", "퟿", "", "\U0001F600", "\U0010FFFF", "a\x01b", "\x7f", "\u0080", " ", "日本語", "'single'", "/* not a comment */", "\\u0041", "dir\\archive", "x\\U0001F600y\\", "\\\\a\\\\U", "\a\\a", "\ufffd", "x\ufffdy", "\ufffe\uffff", "\ufffd\ufffd",
		"a  b", "  ", " lead", "trail ", "a   b  c", "\U0001D800", "x\U0001DFFF", "\U0002D800\U0002DC00", "\U0010DC00", "\U000FD800z", "\U0001D7FF\U0001E000"}
	cfg.Nums = []string{"0", "0.0", "1", "2", "10", "255", "2147483647", "2147483648", "9223372036854775807", "1.5", "2.0", "0.5", "0.001", "1e21", "123456789.125", "1e-7", "1.7976931348623157e308", "5e-324", "100.25", "4.0", "1e3"}
	return cfg
}

var c03Seq int
var c03Poison = []string{`$.a == 99999999999999999999`, `$.a like_regex "x" flag "z"`, `$.a.decimal(1,2,3) > 1`, `strict $.**{99999999999} == 1`, `$.a == 1e999 && $.b`, `$ ? (@ ==`, `lax $.a == "\u12"`,
	`exists($.a ? (@ like_regex "(")) || $.b == 1`, `$.x > 1e400`}

func checkSpelling(c *h.Ctx, ap *gen.Path, txt string, clause string) bool {
	want := (&gen.Path{Lax: ap.Lax, Pred: ap.Pred, Root: gen.Normalize(ap.Root.Clone())}).Sexp()
	// What a text parses to must not depend on what was parsed before it:
	// every few cases a rejected path (a predicate, rejected late - by a
	// literal out of range, a bad regex flag, a third decimal argument -
	// or a plain syntax error) is parsed first.
	c03Seq++
	if c03Seq%3 == 0 {
		_, _, _ = h.ParseSafe(c03Poison[(c03Seq/3)%len(c03Poison)])
	}
	p, err, pan := h.ParseSafe(txt)
	c.Eval(1)
	cs := h.Case{Kind: "spelling", Input: txt, Extra: map[string]string{"abstract": want}}
	if !isPrintableInput(txt) {
		cs = inputCase(txt, "")
		cs.Kind = "spelling"
		cs.Extra = map[string]string{"abstract": want}
	}
	if pan != "" {
		// (also a C04 violation; here: a permitted spelling did not yield its tree)
		c.Violate("accept", h.F("kind", "panic"), "a permitted spelling made Parse panic: "+firstLine(pan), cs)
		return false
	}
	if err != nil {
		c.Violate("accept", h.F("kind", rejectKind(err.Error())), fmt.Sprintf("a permitted spelling was rejected: %v", err), cs)
		return false
	}
	c.Held("accept")
	got := gen.FromAST(p.AST).Sexp()
	if got != want {
		cl := clause
		kind := diffKind(want, got)
		c.Violate(cl, h.F("kind", kind), fmt.Sprintf("parsed tree %s; intended %s", got, want), cs)
		return false
	}
	c.Held(clause)
	// what Parse returns belongs to the caller: decoding another path into it
	// (a reused variable) changes that Path and nothing else - the same text
	// parsed again is the same path again
	if c03Seq%5 == 1 {
		other := `strict $.c03."reused"[0 to last] ? (@ > 16)`
		if err := p.UnmarshalText([]byte(other)); err == nil {
			p2, err2, pan2 := h.ParseSafe(txt)
			if pan2 != "" || err2 != nil {
				c.Violate("accept", h.F("kind", "after-reuse"), fmt.Sprintf("the text parsed before; parsed again after its Path was reused for another path: %v %s", err2, pan2), cs)
				return false
			}
			if got2 := gen.FromAST(p2.AST).Sexp(); got2 != want {
				c.Violate(clause, h.F("kind", "after-reuse"), fmt.Sprintf("parsed again after the Path returned by the first Parse was reused (UnmarshalText of another path): tree %s; intended %s", got2, want), cs)
				return false
			}
			p = p2
		}
	}
	if p.IsPredicate() != ap.Pred || (p.PgIndexOperator() == "@@") != ap.Pred {
		c.Violate("ispredicate", h.F("want", fmt.Sprint(ap.Pred)), fmt.Sprintf("IsPredicate=%v PgIndexOperator=%s but the top level is predicate=%v", p.IsPredicate(), p.PgIndexOperator(), ap.Pred), cs)
	} else {
		c.Held("ispredicate")
	}
	return true
}

func isPrintableInput(s string) bool {
	for _, r := range s {
		if r == 0xfffd {
			return false
		}
	}
	return true
}

func rejectKind(msg string) string {
	for _, k := range []string{"syntax error", "trailing junk", "invalid Unicode", "hexadecimal", "underscore", "not terminated", "exponent", "invalid digit", "surrogate", "cannot be converted", "out of range", "regexp"} {
		if strings.Contains(msg, k) {
			return k
		}
	}
	return "other"
}

// diffKind says which kind of leaf differs first between two s-expressions.
func diffKind(a, b string) string {
	i := 0
	for i < len(a) && i < len(b) && a[i] == b[i] {
		i++
	}
	// look back to the opening parenthesis
	j := i
	for j > 0 && a[j-1] != '(' {
		j--
	}
	head := a[j:min(len(a), j+12)]
	for _, k := range []string{"key", "str", "var", "int", "num", "any", "like_regex", "method", "decimal", "index", "filter"} {
		if strings.HasPrefix(head, k+" ") {
			return k
		}
	}
	return "structure"
}

func replayC03(c *h.Ctx, cs h.Case) {
	txt := caseInput(cs)
	p, err, pan := h.ParseSafe(txt)
	if pan != "" {
		c.Violate("accept", h.F("kind", "panic"), pan, cs)
		return
	}
	if err != nil {
		c.Violate("accept", h.F("kind", rejectKind(err.Error())), fmt.Sprintf("a permitted spelling was rejected: %v", err), cs)
		return
	}
	got := gen.FromAST(p.AST).Sexp()
	if want := cs.Extra["abstract"]; want != "" && got != want {
		c.Violate("tree", h.F("kind", diffKind(want, got)), fmt.Sprintf("parsed tree %s; intended %s", got, want), cs)
	}
}

func leaf(i int) *gen.N {
	return []*gen.N{{K: gen.KRoot, Next: &gen.N{K: gen.KKey, S: "a"}}, {K: gen.KInt, I: 2}, {K: gen.KVar, S: "v"}, {K: gen.KNum, F: 1.5}, {K: gen.KRoot, Next: &gen.N{K: gen.KMethod, S: "size"}}}[i%5].Clone()
}

func runC03(c *h.Ctx) {
	// (1) operator-pair precedence matrix, minimal and full parenthesisation
	arith := []string{"+", "-", "*", "/", "%"}
	cmp := []string{"==", "!=", "<", "<=", ">", ">="}
	conn := []string{"&&", "||"}
	var trees []*gen.Path
	mkExpr := func(n *gen.N) { trees = append(trees, &gen.Path{Lax: true, Root: n}) }
	mkPred := func(n *gen.N) { trees = append(trees, &gen.Path{Lax: true, Pred: true, Root: n}) }
	k := 0
	for _, a := range arith {
		for _, b := range arith {
			k++
			mkExpr(&gen.N{K: gen.KBin, S: a, A: &gen.N{K: gen.KBin, S: b, A: leaf(k), B: leaf(k + 1)}, B: leaf(k + 2)})
			mkExpr(&gen.N{K: gen.KBin, S: a, A: leaf(k), B: &gen.N{K: gen.KBin, S: b, A: leaf(k + 1), B: leaf(k + 2)}})
			// with a trailing accessor chain on the inner operation
			mkExpr(&gen.N{K: gen.KBin, S: a, A: &gen.N{K: gen.KBin, S: b, A: leaf(k), B: leaf(k + 1), Next: &gen.N{K: gen.KMethod, S: "abs"}}, B: leaf(k + 2)})
			mkExpr(&gen.N{K: gen.KBin, S: a, A: leaf(k), B: &gen.N{K: gen.KBin, S: b, A: leaf(k + 1), B: leaf(k + 2), Next: &gen.N{K: gen.KKey, S: "k"}}})
		}
		for _, u := range []string{"-", "+"} {
			k++
			mkExpr(&gen.N{K: gen.KUn, S: u, A: &gen.N{K: gen.KBin, S: a, A: leaf(k), B: leaf(k + 1)}})
			mkExpr(&gen.N{K: gen.KBin, S: a, A: &gen.N{K: gen.KUn, S: u, A: leaf(0)}, B: leaf(k)})
			mkExpr(&gen.N{K: gen.KBin, S: a, A: leaf(k), B: &gen.N{K: gen.KUn, S: u, A: leaf(0)}})
			mkExpr(&gen.N{K: gen.KUn, S: u, A: &gen.N{K: gen.KUn, S: u, A: leaf(0)}})
			mkExpr(&gen.N{K: gen.KUn, S: u, A: &gen.N{K: gen.KBin, S: a, A: leaf(k), B: leaf(k + 1), Next: &gen.N{K: gen.KMethod, S: "floor"}}})
		}
		for _, cm := range cmp {
			k++
			mkPred(&gen.N{K: gen.KBin, S: cm, A: &gen.N{K: gen.KBin, S: a, A: leaf(k), B: leaf(k + 1)}, B: leaf(k + 2)})
			mkPred(&gen.N{K: gen.KBin, S: cm, A: leaf(k), B: &gen.N{K: gen.KBin, S: a, A: leaf(k + 1), B: leaf(k + 2)}})
			mkPred(&gen.N{K: gen.KBin, S: cm, A: &gen.N{K: gen.KUn, S: "-", A: leaf(0)}, B: &gen.N{K: gen.KUn, S: "+", A: leaf(2)}})
		}
	}
	cmpLeaf := func(i int) *gen.N {
		return &gen.N{K: gen.KBin, S: cmp[i%len(cmp)], A: leaf(i), B: leaf(i + 1)}
	}
	for _, a := range conn {
		for _, b := range conn {
			k++
			mkPred(&gen.N{K: gen.KBin, S: a, A: &gen.N{K: gen.KBin, S: b, A: cmpLeaf(k), B: cmpLeaf(k + 1)}, B: cmpLeaf(k + 2)})
			mkPred(&gen.N{K: gen.KBin, S: a, A: cmpLeaf(k), B: &gen.N{K: gen.KBin, S: b, A: cmpLeaf(k + 1), B: cmpLeaf(k + 2)}})
		}
		for _, un := range []string{"!", "isunknown"} {
			k++
			mkPred(&gen.N{K: gen.KBin, S: a, A: &gen.N{K: gen.KUn, S: un, A: cmpLeaf(k)}, B: cmpLeaf(k + 1)})
			mkPred(&gen.N{K: gen.KBin, S: a, A: cmpLeaf(k), B: &gen.N{K: gen.KUn, S: un, A: cmpLeaf(k + 1)}})
			mkPred(&gen.N{K: gen.KUn, S: un, A: &gen.N{K: gen.KBin, S: a, A: cmpLeaf(k), B: cmpLeaf(k + 1)}})
			mkPred(&gen.N{K: gen.KUn, S: un, A: &gen.N{K: gen.KUn, S: un, A: cmpLeaf(k)}})
		}
		k++
		mkPred(&gen.N{K: gen.KBin, S: a, A: &gen.N{K: gen.KUn, S: "exists", A: leaf(0)}, B: &gen.N{K: gen.KBin, S: "starts with", A: leaf(0), B: &gen.N{K: gen.KStr, S: "a"}}})
		mkPred(&gen.N{K: gen.KBin, S: a, A: &gen.N{K: gen.KRegex, A: leaf(0), S: "^a", Flags: "i"}, B: cmpLeaf(k)})
		// predicates with accessor chains used as expressions
		mkExpr(&gen.N{K: gen.KBin, S: a, A: cmpLeaf(k), B: cmpLeaf(k + 1), Next: &gen.N{K: gen.KMethod, S: "type"}})
	}
	rp := c.Rand("c03-prec")
	for i, t := range trees {
		if !c.Mine(i) {
			continue
		}
		for _, st := range []*gen.Style{nil, {R: rp, MinimalParens: true}, {R: rp, MinimalParens: true, Lexical: true}, {R: rp, Lexical: true}} {
			txt := gen.Spell(t, st)
			c.Distinct(txt)
			checkSpelling(c, t, txt, "precedence")
		}
		if i == 3 {
			c.Sample("precedence", map[string]string{"abstract": t.Sexp(), "minimal": gen.Spell(t, &gen.Style{R: rp, MinimalParens: true})})
		}
	}
	c.SetExhaustive("operator-pair precedence matrix (5 arithmetic x 5, unary, 6 comparisons, && || ! is-unknown, exists/starts with/like_regex), minimal and full parentheses")

	// (2) last-token matrix: every token class at end of input and before each separator/punctuation
	lastTokens := []*gen.Path{}
	for _, key := range c03Cfg().Keys {
		lastTokens = append(lastTokens, &gen.Path{Lax: true, Root: &gen.N{K: gen.KRoot, Next: &gen.N{K: gen.KKey, S: key}}})
	}
	for _, s := range c03Cfg().Strs {
		lastTokens = append(lastTokens, &gen.Path{Lax: true, Root: &gen.N{K: gen.KStr, S: s}})
		lastTokens = append(lastTokens, &gen.Path{Lax: true, Pred: true, Root: &gen.N{K: gen.KBin, S: "starts with", A: &gen.N{K: gen.KRoot}, B: &gen.N{K: gen.KStr, S: s}}})
	}
	for _, v := range c03Cfg().VarNames {
		lastTokens = append(lastTokens, &gen.Path{Lax: true, Root: &gen.N{K: gen.KVar, S: v}})
	}
	for _, nt := range c03Cfg().Nums {
		lastTokens = append(lastTokens, &gen.Path{Lax: true, Root: gen.NumFromText(nt, false)})
		lastTokens = append(lastTokens, &gen.Path{Lax: true, Root: gen.NumFromText(nt, true)})
		lastTokens = append(lastTokens, &gen.Path{Lax: true, Root: &gen.N{K: gen.KRoot, Next: &gen.N{K: gen.KIndex, Subs: [][2]*gen.N{{gen.NumFromText(nt, false), nil}}}}})
	}
	for _, lv := range [][2]int64{{0, -1}, {1, 1}, {16, 16}, {10, 255}, {0, 0}, {-1, -1}, {2, -1}, {1000, 100000}} {
		lastTokens = append(lastTokens, &gen.Path{Lax: true, Root: &gen.N{K: gen.KRoot, Next: &gen.N{K: gen.KAny, First: lv[0], Last: lv[1]}}})
	}
	rl := c.Rand("c03-last")
	tails := []string{"", " ", "\n", "\t", "/* c */", " /**/", "/*/ x */", "\r\n"}
	for i, t := range lastTokens {
		if !c.Mine(i) {
			continue
		}
		for rep := 0; rep < 12; rep++ {
			st := &gen.Style{R: rl, Lexical: true, NoTrailingSep: true}
			base := gen.Spell(t, st)
			for _, tail := range tails {
				txt := base + tail
				c.Distinct(txt)
				checkSpelling(c, t, txt, "lasttoken")
			}
			// the same token followed by punctuation: wrap into a larger path
			wrapped := &gen.Path{Lax: true, Pred: true, Root: &gen.N{K: gen.KUn, S: "exists", A: t.Root.Clone()}}
			if !t.Pred {
				for w := 0; w < 3; w++ {
					wt := gen.Spell(wrapped, st)
					c.Distinct(wt)
					checkSpelling(c, wrapped, wt, "lasttoken")
				}
			}
		}
	}
	c.SetExhaustive("last-token matrix: every key/string/variable/number/level of the content corpus at end of input and before each separator kind and ')'")
	c.Sample("lasttoken", map[string]string{"token": "key é spelled bare with \\u escapes at end of input"})

	// (3) random abstract paths x random spellings
	r := c.Rand("c03")
	g := &gen.G{R: r, C: c03Cfg()}
	n := c.PerShard(c.N(2000000, 20000000))
	for i := 0; i < n; i++ {
		ap := g.Path()
		decorate(r, ap)
		st := &gen.Style{R: r, Lexical: true, MinimalParens: r.IntN(2) == 0}
		txt := gen.Spell(ap, st)
		if i%64 == 0 {
			c.Journal(txt)
		}
		c.Distinct(txt)
		if checkSpelling(c, ap, txt, "tree") && i < 2 {
			c.Sample("spelling", map[string]string{"text": txt, "abstract": ap.Sexp()})
		}
	}
	// (4) long flat paths: hundreds of steps, subscripts, groups or conditions one
	// after the other (nothing nested more than once or twice) - what the
	// hundredth bracket means does not depend on the ninety-nine before it
	rlong := c.Rand("c03-long")
	kl := 0
	for _, nsteps := range []int{100, 129, 140, 200, 300} {
		for form := 0; form < 7; form++ {
			kl++
			if !c.Mine(kl) {
				continue
			}
			root := &gen.N{K: gen.KRoot}
			ap := &gen.Path{Lax: form%2 == 0, Root: root}
			idx := func(i int64) *gen.N {
				return &gen.N{K: gen.KIndex, Subs: [][2]*gen.N{{{K: gen.KInt, I: i}, nil}}}
			}
			switch form {
			case 0: // $[0][0]...
				for i := 0; i < nsteps; i++ {
					root.Append(idx(int64(i % 3)))
				}
			case 1: // $.a[1].a[1]...
				for i := 0; i < nsteps; i++ {
					root.Append(&gen.N{K: gen.KKey, S: "a"})
					root.Append(idx(1))
				}
			case 2: // $[*][*]...
				for i := 0; i < nsteps; i++ {
					root.Append(&gen.N{K: gen.KAnyArray})
				}
			case 3: // one subscript list of nsteps subscripts, every other one a range
				var subs [][2]*gen.N
				for i := 0; i < nsteps; i++ {
					if i%2 == 0 {
						subs = append(subs, [2]*gen.N{{K: gen.KInt, I: int64(i)}, nil})
					} else {
						subs = append(subs, [2]*gen.N{{K: gen.KInt, I: int64(i)}, {K: gen.KLast}})
					}
				}
				root.Append(&gen.N{K: gen.KIndex, Subs: subs})
			case 4: // a filter naming nsteps subscripts side by side
				var cond *gen.N
				for i := 0; i < nsteps; i++ {
					atom := &gen.N{K: gen.KBin, S: "==", A: &gen.N{K: gen.KCurrent, Next: idx(int64(i))}, B: &gen.N{K: gen.KInt, I: 1}}
					if cond == nil {
						cond = atom
					} else {
						cond = &gen.N{K: gen.KBin, S: []string{"&&", "||"}[i%2], A: cond, B: atom}
					}
				}
				root.Append(&gen.N{K: gen.KFilter, A: cond})
			case 5: // nsteps filters one after the other, each with a subscript
				for i := 0; i < nsteps; i++ {
					root.Append(&gen.N{K: gen.KFilter, A: &gen.N{K: gen.KBin, S: ">", A: &gen.N{K: gen.KCurrent, Next: idx(0)}, B: &gen.N{K: gen.KInt, I: int64(i)}}})
				}
			case 6: // a sum of nsteps subscripted terms
				var sum *gen.N
				for i := 0; i < nsteps; i++ {
					term := &gen.N{K: gen.KRoot, Next: idx(int64(i))}
					if sum == nil {
						sum = term
					} else {
						sum = &gen.N{K: gen.KBin, S: []string{"+", "-", "*"}[i%3], A: sum, B: term}
					}
				}
				ap.Root = sum
			}
			for rep := 0; rep < 4; rep++ {
				st := &gen.Style{R: rlong, Lexical: rep > 0, MinimalParens: rep%2 == 0}
				txt := gen.Spell(ap, st)
				c.Distinct(txt)
				checkSpelling(c, ap, txt, "tree")
			}
		}
	}
}

// decorate widens literal content beyond what the executor-oriented generator produces.
func decorate(r *rand.Rand, ap *gen.Path) {
	ap.Root.Walk(func(n *gen.N) {
		switch n.K {
		case gen.KInt:
			if r.IntN(6) == 0 {
				n.I = []int64{0, 1, 255, 4096, math.MaxInt32, math.MaxInt32 + 1, math.MaxInt64, 1 << 53, 1 << 62}[r.IntN(9)]
			}
		case gen.KAny:
			if r.IntN(3) == 0 {
				n.First = int64(r.IntN(40))
				n.Last = n.First + int64(r.IntN(300))
				if r.IntN(3) == 0 {
					n.Last = -1
				}
			}
		case gen.KDecimal:
			if n.A != nil && r.IntN(2) == 0 {
				n.A.I = int64(1 + r.IntN(1000))
				if n.B != nil {
					n.B.I = int64(r.IntN(2001) - 1000)
				}
			}
		case gen.KDatetime:
			if n.A != nil && n.A.K == gen.KInt {
				n.A.I = int64(r.IntN(300))
			}
		}
	})
}
