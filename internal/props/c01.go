package props

import (
	"fmt"
	"strings"

	"verif/internal/gen"
	"verif/internal/h"
	"verif/internal/model"
)

func init() {
	register(&Prop{
		ID:    "C01",
		Level: "exploration",
		Rule: "grammar-directed random (path, document, decoding, options) triples: paths of depth <= 3 over every node kind, documents correlated by key alphabet, float64 and json.Number decodings, " +
			"{vars, silent, tz, context zone} option sets, lax and strict; each real Query outcome is compared with the set of outcomes the reference evaluator allows over all object-member orders. " +
			"Non-trivial: path has >= 2 nodes and the outcome is not an empty error-free result; distinct by (path text, document, decoding, options)",
		Run:          runC01,
		Replay:       replayC01,
		MinExercised: map[string]int64{"items": 5000, "class": 5000, "predcheck": 200},
		Assumptions: []string{
			"the reference evaluator (internal/model) encodes the documented rules; outcomes it cannot pin (object member order beyond the enumeration cap, non-canonical numeric strings, numbers outside int64/float64) are skipped and counted",
			"quotients of integer operands may be truncated or exact; numbers are compared by exact value",
		},
	})
}

// devSwitches are the recorded deviations tried, one at a time, to attribute a disagreement.
var devSwitches = []struct {
	name string
	dev  model.Dev
}{
	{"subscript-skips-null", model.Dev{SubscriptSkipsNull: true}},
	{"unary-arith-exists-shortcut", model.Dev{UnaryExistsShortcut: true}},
	{"isunknown-swallows-hard-error", model.Dev{IsUnknownSwallowsHard: true}},
	{"datetime-vs-other-invalid", model.Dev{DatetimeVsOtherInvalid: true}},
}

type expect struct {
	class string
	items string // key of normalized items when class == ok
}

// expectations turns model outcomes into what Query must return.
func expectations(res model.Result, silent bool) []expect {
	var out []expect
	for _, o := range res.Outcomes {
		switch o.Class {
		case model.OK:
			out = append(out, expect{h.OK, itemsKey(o.Items)})
		case model.Soft:
			if silent {
				out = append(out, expect{h.OK, itemsKey(o.Items)})
			} else {
				out = append(out, expect{h.Soft, ""})
			}
		case model.Hard:
			out = append(out, expect{h.Hard, ""})
		default:
			out = append(out, expect{o.Class, ""})
		}
	}
	return out
}

func itemsKey(items []any) string {
	var sb strings.Builder
	for _, it := range model.NormalizeIDs(items) {
		sb.WriteString(model.Key(it))
		sb.WriteByte('|')
	}
	return sb.String()
}

func matchExpect(o *h.Out, exps []expect) bool {
	var ik string
	if o.Class == h.OK {
		ik = itemsKey(o.Items)
	}
	for _, e := range exps {
		if e.class != o.Class {
			continue
		}
		if o.Class != h.OK || e.items == ik {
			return true
		}
	}
	return false
}

func expSummary(exps []expect) string {
	var parts []string
	for i, e := range exps {
		if i >= 4 {
			parts = append(parts, "…")
			break
		}
		if e.class == h.OK {
			parts = append(parts, "ok["+e.items+"]")
		} else {
			parts = append(parts, e.class)
		}
	}
	return strings.Join(parts, " or ")
}

// modelVerdict compares one real Query outcome with the reference model.
// It returns "held", "skip:<reason>", or "violated" with features filled in.
func modelVerdict(ec *ExecCase, o *h.Out) (verdict string, feat map[string]string, detail string) {
	if o.Class == h.Panic {
		return "skip:panic-is-C05", nil, ""
	}
	res := model.Eval(ec.P.AST, ec.DocValue(), ec.ModelOpts(model.Dev{}))
	if res.Unspec != "" {
		return "skip:unspecified", nil, res.Unspec
	}
	exps := expectations(res, ec.Silent)
	if matchExpect(o, exps) {
		return "held", nil, ""
	}
	if res.Capped {
		return "skip:member-order-cap", nil, ""
	}
	// open alternative: exact quotient of integer operands
	// ... and the representation of .number() of an integer
	for _, a := range [][2]bool{{true, false}, {false, true}, {true, true}} {
		model.ExactIntQuotient, model.NumberAsDouble = a[0], a[1]
		alt := model.Eval(ec.P.AST, ec.DocValue(), ec.ModelOpts(model.Dev{}))
		model.ExactIntQuotient, model.NumberAsDouble = false, false
		if alt.Unspec == "" && matchExpect(o, expectations(alt, ec.Silent)) {
			return "held", nil, ""
		}
	}
	// Attribute the disagreement to recorded deviations: the smallest set of
	// deviation switches under which the model reproduces the observed outcome.
	var causes []string
	devUnspec := false
	nsw := len(devSwitches)
	for size := 1; size <= nsw && causes == nil; size++ {
		for mask := 1; mask < 1<<nsw; mask++ {
			if popcount(mask) != size {
				continue
			}
			var d model.Dev
			var names []string
			for i, sw := range devSwitches {
				if mask&(1<<i) != 0 {
					d = mergeDev(d, sw.dev)
					names = append(names, sw.name)
				}
			}
			dr := model.Eval(ec.P.AST, ec.DocValue(), ec.ModelOpts(d))
			if dr.Unspec != "" || dr.Capped {
				devUnspec = true
				continue
			}
			if matchExpect(o, expectations(dr, ec.Silent)) {
				causes = names
				break
			}
		}
	}
	if causes == nil && devUnspec {
		// a recorded deviation leads the evaluation into territory the rules
		// do not pin (e.g. address-derived ids):
		// the outcome cannot be judged either way.
		return "skip:known-deviation-then-unspecified", nil, ""
	}
	cause := "unexplained"
	if causes != nil {
		cause = strings.Join(causes, "+")
	}
	feat = h.F("cause", cause)
	if cause == "unexplained" {
		feat["mode"] = modeName(ec.P.IsLax())
		feat["impl"] = o.Class
		cls := map[string]bool{}
		for _, e := range exps {
			cls[e.class] = true
		}
		var cs []string
		for k := range cls {
			cs = append(cs, k)
		}
		feat["model"] = strings.Join(sortedStrings(cs), ",")
		feat["silent"] = fmt.Sprint(ec.Silent)
	}
	detail = fmt.Sprintf("Query returned %s; the documented rules allow %s", o.Summary(), expSummary(exps))
	return "violated", feat, detail
}

func sortedStrings(s []string) []string {
	for i := 1; i < len(s); i++ {
		for j := i; j > 0 && s[j] < s[j-1]; j-- {
			s[j], s[j-1] = s[j-1], s[j]
		}
	}
	return s
}

func checkC01(c *h.Ctx, ec *ExecCase) {
	o := h.Call("query", ec.P, ec.DocValue(), ec.Opts())
	c.Eval(1)
	nontrivial := ec.Abs.Root.Count() >= 2 && !(o.Class == h.OK && len(o.Items) == 0)
	if nontrivial {
		c.Distinct(ec.Text, ec.Doc, fmt.Sprint(ec.UseNum, ec.Silent, ec.TZ), ec.Zone)
	}
	c.Count("outcome."+o.Class, 1)
	verdict, feat, detail := modelVerdict(ec, o)
	clause := "items"
	if ec.P.IsPredicate() {
		clause = "predcheck"
	}
	switch {
	case verdict == "held":
		c.Held(clause)
		c.Held("class")
		if c.WantSample(clause + "." + o.Class) {
			c.Sample(clause+"."+o.Class, map[string]any{"path": ec.Text, "doc": ec.Doc, "usenum": ec.UseNum, "silent": ec.Silent, "result": o.Summary()})
		}
	case strings.HasPrefix(verdict, "skip:"):
		c.Skip(clause, strings.TrimPrefix(verdict, "skip:"))
	default:
		if feat["cause"] == "unexplained" && feat["impl"] != "ok" || (feat["cause"] == "unexplained" && !strings.Contains(feat["model"], "ok")) {
			clause = "class"
		}
		if cs := strings.Split(feat["cause"], "+"); len(cs) > 1 {
			// several recorded deviations act together: report each under its own cause
			for _, one := range cs {
				c.Violate(clause, h.F("cause", one), detail+" (together with: "+feat["cause"]+")", ec.Case())
			}
		} else {
			c.Violate(clause, feat, detail, ec.Case())
		}
	}
}

func replayC01(c *h.Ctx, cs h.Case) {
	ec, err := CaseFrom(cs)
	if err != nil {
		c.Note("replay: " + err.Error())
		return
	}
	checkC01(c, ec)
}

func runC01(c *h.Ctx) {
	eg := NewExecGen(c.Rand("c01"))
	eg.G.C.Datetime = true
	// numerals as strings, in spellings only some number parsers take
	eg.DC.Strs = append(append([]string{}, eg.DC.Strs...), "010", "-0017", "08", "0x10", "1_000", "0b101", "0o17", "1e2", " 1", "1.50")
	// ... and numbers at the edges of the integer types, halves included
	eg.DC.Nums = append(append([]string{}, eg.DC.Nums...), "2147483647.4", "-2147483648.4", "2147483647.5", "2147483648", "-2147483649", "9007199254740993", "9223372036854775807", "2.5", "-0.5", "1e19", "0.49999999999999994")
	n := c.PerShard(c.N(4000000, 40000000))
	for i := 0; i < n; i++ {
		checkC01(c, eg.Next())
		if i%24 == 13 {
			// a condition whose operand is anchored at $ or at a variable but
			// subscripted by a member of the current item: it looks the same
			// for every item and is not
			pre, cond, cdoc := crossRef(eg.R, false)
			root := pre.Clone().Append(&gen.N{K: gen.KFilter, A: cond})
			if eg.R.IntN(3) == 0 {
				root.Append(&gen.N{K: gen.KKey, S: "b"})
			}
			txt := gen.Spell(&gen.Path{Lax: eg.R.IntN(2) == 0, Root: root}, nil)
			if ec, err := CaseFrom(h.Case{Path: txt, Doc: cdoc, UseNum: eg.R.IntN(2) == 0, Vars: stdVars, Silent: eg.R.IntN(4) == 0}); err == nil {
				checkC01(c, ec)
			} else {
				eg.Bad++
			}
		}
		if i%24 == 7 {
			// inside a filter: a nested filter or subscript followed by steps
			// that mention @ again, on documents whose levels carry the same keys
			oc := outerCurrentChain(eg.G)
			root := &gen.N{K: gen.KRoot, Next: &gen.N{K: gen.KFilter, A: &gen.N{K: gen.KUn, S: "exists", A: oc}}}
			if eg.R.IntN(3) == 0 {
				root = &gen.N{K: gen.KRoot, Next: &gen.N{K: gen.KKey, S: "a", Next: &gen.N{K: gen.KAnyArray, Next: root.Next}}}
			}
			txt := gen.Spell(&gen.Path{Lax: eg.R.IntN(2) == 0, Root: root}, nil)
			ec, err := CaseFrom(h.Case{Path: txt, Doc: outerCurrentDoc(eg.R, eg.G.C.Keys), UseNum: eg.R.IntN(2) == 0, Vars: stdVars, Silent: eg.R.IntN(4) == 0})
			if err != nil {
				eg.Bad++
				continue
			}
			checkC01(c, ec)
		}
	}
	// maintainer-written paths harvested from the library's tests and README x generated documents
	nh := c.PerShard(c.N(200000, 2000000))
	for i := 0; i < nh; i++ {
		checkC01(c, eg.harvestCase(i*c.NShards+c.Shard))
	}
	// boundary numbers in every representation (integer / decimal literal,
	// float64 or json.Number document value) on either side of every
	// comparison and arithmetic operator, as predicate check, filter and value
	bn := []string{"0", "1", "-1", "2147483647", "2147483648", "9007199254740992", "9007199254740993", "9007199254740992.0", "9223372036854775807", "-9223372036854775808",
		"9223372036854775806", "9.223372036854775807e18", "1e19", "0.5", "1.5", "4611686018427387904", "123456789012345678901234567890", "18446744073709551616", "1e308", "1.7976931348623157e308", "1e-320"}
	k := 0
	for _, a := range bn {
		for _, b := range bn {
			for _, op := range []string{"==", "!=", "<", "<=", ">", ">=", "+", "-", "*", "/", "%"} {
				for form := 0; form < 8; form++ {
					k++
					if !c.Mine(k) {
						continue
					}
					var txt string
					switch form {
					case 0:
						txt = fmt.Sprintf("%s %s $.b", a, op)
					case 1:
						txt = fmt.Sprintf("$.a %s %s", op, b)
					case 2:
						txt = fmt.Sprintf("$.a %s $.b", op)
					case 3:
						txt = fmt.Sprintf("$.a.double() %s $.b", op)
					case 4:
						txt = fmt.Sprintf("strict $.a %s $.b.number()", op)
					case 6:
						txt = fmt.Sprintf("$ ? (exists(@.a %s @.b))", op)
					case 7:
						txt = fmt.Sprintf("exists($.a %s $.b) || exists(-$.a) && exists(($.a %s $.b).abs())", op, op)
					case 5:
						txt = fmt.Sprintf("$ ? (@.a %s @.b || @.b %s %s)", map[bool]string{true: op, false: "=="}[len(op) == 2 || op == "<" || op == ">"], map[bool]string{true: op, false: "<"}[len(op) == 2 || op == "<" || op == ">"], a)
					}
					if len(a) > 19 && (form == 0 || form == 5) || len(b) > 19 && form == 1 {
						continue // not a path literal
					}
					doc := fmt.Sprintf(`{"a":%s,"b":%s}`, a, b)
					for _, useNum := range []bool{false, true} {
						ec, err := CaseFrom(h.Case{Path: txt, Doc: doc, UseNum: useNum, Vars: stdVars})
						if err != nil {
							c.Count("gen.unparsable", 1)
							continue
						}
						checkC01(c, ec)
					}
				}
			}
		}
	}
	// triples of triples: which triples share an id and which do not (the id
	// numbers themselves are left open; equal and distinct is what counts)
	for _, pt := range []string{"$.keyvalue().keyvalue()", "$.keyvalue().keyvalue().keyvalue()", "$.o.keyvalue().keyvalue().keyvalue()", "$.keyvalue().keyvalue().keyvalue().keyvalue()",
		"$.keyvalue().keyvalue().keyvalue() ? (@.key == \"id\")", "$.o.keyvalue().keyvalue() ? (@.key != \"key\").keyvalue()", "$[*].keyvalue().keyvalue().keyvalue()", "strict $.o.keyvalue().keyvalue().keyvalue()"} {
		for _, d := range []string{`{"a":1}`, `{"a":1,"o":{"x":1,"y":[2]}}`, `{"o":{"x":1,"y":2}}`, `[{"a":1},{"b":2}]`} {
			k++
			if !c.Mine(k) {
				continue
			}
			for _, useNum := range []bool{false, true} {
				ec, err := CaseFrom(h.Case{Path: pt, Doc: d, UseNum: useNum, Vars: stdVars})
				if err != nil {
					c.Count("gen.unparsable", 1)
					continue
				}
				checkC01(c, ec)
			}
		}
	}
	// $ is the document wherever it is written: what $.keyvalue() says about
	// the document's objects (their ids) is the same inside a filter on a
	// variable, on a pair of another .keyvalue(), or in a subscript
	{
		docv := map[string]any{"a": 1.0, "b": map[string]any{"c": 2.0}}
		vars := map[string]any{"v": 5.0, "arr": []any{7.0, 8.0}}
		idOf := func(pt string) (string, bool) {
			o := h.Call("query", cachedPath(pt), docv, h.Opts{Vars: vars})
			c.Eval(1)
			if o.Class != h.OK || len(o.Items) == 0 {
				return "", false
			}
			return strings.TrimPrefix(h.Canon(o.Items[0]), "#"), true
		}
		id0, ok0 := idOf(`$.keyvalue().id`)
		id1, ok1 := idOf(`$.b.keyvalue().id`)
		if ok0 && ok1 && c.Mine(3) {
			for _, tc := range [][2]string{
				{`$v ? ($.keyvalue().id == ` + id0 + `)`, "[#5]"},
				{`$.keyvalue() ? ($.keyvalue().id == ` + id0 + `).key`, `["a" | "b"]`},
				{`$arr[0 to 1] ? ($.b.keyvalue().id == ` + id1 + `)`, "[#7 | #8]"},
				{`$.b.keyvalue() ? ($.keyvalue().id == ` + id0 + `).key`, `["c"]`},
				{`$.b.keyvalue() ? ($.b.keyvalue().id == ` + id1 + ` && $.keyvalue().id == ` + id0 + `).value`, "[#2]"},
				{`$arr ? (exists($ ? (@.keyvalue().id == ` + id0 + `)))`, "[#7 | #8]"},
				{`strict $v ? ($.b.keyvalue().id == ` + id1 + `)`, "[#5]"},
			} {
				p := cachedPath(tc[0])
				if p == nil {
					c.Count("gen.unparsable", 1)
					continue
				}
				o := h.Call("query", p, docv, h.Opts{Vars: vars})
				c.Eval(1)
				got := o.Summary()
				if o.Class == h.OK {
					gs := make([]string, len(o.Items))
					for i, it := range o.Items {
						gs[i] = h.Canon(it)
					}
					got = "[" + strings.Join(gs, " | ") + "]"
				}
				if got != tc[1] {
					c.Violate("items", h.F("cause", "unexplained", "kind", "root-ids-in-nested-context"), fmt.Sprintf("$.keyvalue().id = %s and $.b.keyvalue().id = %s at the top level, but Query(%s) = %s; with $ the document there too: %s", id0, id1, tc[0], got, tc[1]), h.Case{Kind: "root-ids", Path: tc[0]})
				} else {
					c.Held("items")
				}
			}
		}
	}
	// an operand that is not a single number (nothing, several items, a
	// non-number) next to an operand that raises a non-suppressible error
	for _, l := range []string{"$.nokey", "$.a[*]", "$.s", "$.a", "$.n", "$.a[0]", "$.e[*]", `"x"`, "null", "$.a[5]"} {
		for _, rgt := range []string{"$missing", "$.d.timestamp_tz()", "$.n.decimal(0)", `$.d.datetime("HH24")`, "$.n", "$.s.double()", "$.n / 0", "$arr"} {
			for _, op := range []string{"+", "-", "*", "/", "%", "==", "<"} {
				for form := 0; form < 4; form++ {
					k++
					if !c.Mine(k) {
						continue
					}
					a, b := l, rgt
					if form%2 == 1 {
						a, b = rgt, l
					}
					txt := a + " " + op + " " + b
					if form >= 2 {
						txt = "$ ? ((" + strings.ReplaceAll(a, "$.", "@.") + " " + op + " " + strings.ReplaceAll(b, "$.", "@.") + ") " + map[bool]string{true: "== 1", false: "is unknown"}[op != "==" && op != "<"] + ")"
					}
					for v := 0; v < 4; v++ {
						mode := map[bool]string{true: "strict ", false: ""}[v&1 != 0]
						ec, err := CaseFrom(h.Case{Path: mode + txt, Doc: `{"a":[1,2],"n":3,"s":"x","d":"2024-06-14","e":[]}`, UseNum: v&2 != 0, Vars: stdVars, Silent: (k+v)%3 == 0})
						if err != nil {
							c.Count("gen.unparsable", 1)
							continue
						}
						checkC01(c, ec)
					}
				}
			}
		}
	}
	// datetime items of different types compared in both orders under WithTZ
	// in several context zones: instants within a zone offset of a midnight
	dts := []string{"2024-06-14", "2024-06-13", "2024-06-14T00:00:00", "2024-06-13T20:00:00+00:00", "2024-06-14T03:00:00+00:00", "2024-06-13T14:30:00+00:00", "2024-06-14T07:59:59-08:00", "2024-06-13T18:30:00+00:00",
		"2024-06-14T00:00:00+13:45", "12:00:00", "12:00:00+05:30", "2024-06-13T23:59:59.5"}
	for ai, a := range dts {
		for bi, b := range dts {
			for zi, zone := range []string{"", "UTC", "+05:30", "-08:00", "+13:45"} {
				k++
				if !c.Mine(k) {
					continue
				}
				doc := fmt.Sprintf(`[%q,%q]`, a, b)
				for oi, op := range []string{"==", "<", ">=", "!="} {
					forms := []string{"$[0].datetime() " + op + " $[1].datetime()", "$ ? (@[0].datetime() " + op + " @[1].datetime())", "($[0].datetime() " + op + " $[1].datetime()) is unknown"}
					txt := forms[(ai+bi+zi+oi)%3]
					ec, err := CaseFrom(h.Case{Path: txt, Doc: doc, Vars: stdVars, TZ: zone != "" || (ai+bi)%2 == 0, Zone: zone, Silent: (ai+oi)%5 == 0})
					if err != nil {
						c.Count("gen.unparsable", 1)
						continue
					}
					checkC01(c, ec)
				}
			}
		}
	}
	c.Count("harvested.paths", int64(len(harvestedPaths())))
	c.Count("gen.rejected-by-parser", int64(eg.Bad))
}

func popcount(x int) int {
	n := 0
	for ; x != 0; x &= x - 1 {
		n++
	}
	return n
}

func mergeDev(a, b model.Dev) model.Dev {
	return model.Dev{
		SubscriptSkipsNull:     a.SubscriptSkipsNull || b.SubscriptSkipsNull,
		UnaryExistsShortcut:    a.UnaryExistsShortcut || b.UnaryExistsShortcut,
		IsUnknownSwallowsHard:  a.IsUnknownSwallowsHard || b.IsUnknownSwallowsHard,
		DatetimeVsOtherInvalid: a.DatetimeVsOtherInvalid || b.DatetimeVsOtherInvalid,
	}
}
