package props

import (
	"context"
	"errors"
	"fmt"
	"strings"

	"verif/internal/gen"
	"verif/internal/h"
)

func init() {
	register(&Prop{
		ID:    "C10",
		Level: "exploration",
		Rule: "prefix paths P x conditions C of every predicate kind (six comparisons, exists, starts with, like_regex, && || !, is unknown, nested filters, conditions that raise suppressible errors) x documents x modes: " +
			"Query(P ?(C)) is compared with Query(P) (after one level of lax unwrapping) filtered by Query of the predicate check expression C[@:=$] on each item; strict P ?(C1) ?(C2) is compared with P ?(C1 && C2). " +
			"Non-trivial: P yields at least one item; distinct by (P, C, document, decoding)",
		Run:          runC10,
		Replay:       replayC10,
		MinExercised: map[string]int64{"model": 5000, "kept-iff-true": 5000, "subsequence": 5000, "hard-aborts": 100, "conjunction": 1000},
		Assumptions: []string{
			"C[@:=$] is produced on the abstract tree: @ at filter depth 0 becomes $, and $ becomes the variable $root bound to the document",
			"items are compared by value; paths that expand object members get single-member objects (member order is open)",
		},
	})
}

// rewriteCond returns C[@:=$] as a predicate check expression.
func rewriteCond(n *gen.N, depth int) *gen.N {
	if n == nil {
		return nil
	}
	c := *n
	switch n.K {
	case gen.KCurrent:
		if depth == 0 {
			c.K = gen.KRoot
		}
	case gen.KRoot:
		c.K = gen.KVar
		c.S = "root"
	}
	d := depth
	if n.K == gen.KFilter {
		d = depth + 1
	}
	c.A = rewriteCond(n.A, d)
	c.B = rewriteCond(n.B, depth)
	if n.K == gen.KFilter {
		c.B = rewriteCond(n.B, d)
	}
	if n.Subs != nil {
		c.Subs = make([][2]*gen.N, len(n.Subs))
		for i, s := range n.Subs {
			c.Subs[i] = [2]*gen.N{rewriteCond(s[0], depth), rewriteCond(s[1], depth)}
		}
	}
	c.Next = rewriteCond(n.Next, depth)
	return &c
}

type c10Case struct {
	lax    bool
	prefix *gen.N // chain from $
	cond   *gen.N
	cond2  *gen.N // optional second condition (conjunction clause)
	doc    string
	useNum bool
	tz     bool
	vars   string
	// modelOnly: only the comparison with the reference evaluator (the
	// stand-alone per-item check would not run under the same conditions)
	modelOnly bool
}

func unwrap1(items []any, lax bool) []any {
	if !lax {
		return items
	}
	var out []any
	for _, it := range items {
		if arr, ok := it.([]any); ok {
			out = append(out, arr...)
		} else {
			out = append(out, it)
		}
	}
	return out
}

func checkFilter(c *h.Ctx, k *c10Case) {
	ptxt := gen.Spell(&gen.Path{Lax: k.lax, Root: k.prefix}, nil)
	fchain := k.prefix.Clone().Append(&gen.N{K: gen.KFilter, A: k.cond.Clone()})
	ftxt := gen.Spell(&gen.Path{Lax: k.lax, Root: fchain}, nil)
	pc := rewriteCond(k.cond, 0)
	pctxt := gen.Spell(&gen.Path{Lax: k.lax, Pred: true, Root: pc}, nil)
	cs := h.Case{Kind: "filter", Path: ftxt, Doc: k.doc, UseNum: k.useNum, Vars: k.vars, TZ: k.tz, Extra: map[string]string{"P": ptxt, "check": pctxt}}
	pf, e1, p1 := h.ParseSafe(ftxt)
	pp, e2, p2 := h.ParseSafe(ptxt)
	pcp, e3, p3 := h.ParseSafe(pctxt)
	if e1 != nil || e2 != nil || e3 != nil || p1+p2+p3 != "" {
		c.Count("gen.unparsable", 1)
		return
	}
	doc := h.Decode(k.doc, k.useNum)
	vars := h.DecodeVars(k.vars, k.useNum)
	opts := h.Opts{Vars: vars, TZ: k.tz}
	of := h.Call("query", pf, doc, opts)
	op := h.Call("query", pp, doc, opts)
	c.Eval(2)
	if of.Class == h.Panic || op.Class == h.Panic || op.Class == h.Invalid || of.Class == h.Invalid {
		c.Skip("kept-iff-true", "panic-or-invalid-is-C05")
		return
	}
	if op.Class != h.OK {
		c.Skip("kept-iff-true", "P-fails")
		return
	}
	// independent reference: the per-item checks below run the same predicate code as the
	// filter, so the filter's result is also compared with the reference evaluator
	{
		ec := &ExecCase{Text: ftxt, P: pf, Doc: k.doc, UseNum: k.useNum, Vars: k.vars, TZ: k.tz}
		verdict, mfeat, detail := modelVerdict(ec, of)
		switch {
		case verdict == "held":
			c.Held("model")
		case strings.HasPrefix(verdict, "skip:"):
			c.Skip("model", strings.TrimPrefix(verdict, "skip:"))
		default:
			for _, one := range strings.Split(mfeat["cause"], "+") {
				f := h.F("cause", one)
				if one == "unexplained" {
					f = mfeat
				}
				c.Violate("model", f, "Query(P ?(C)): "+detail, cs)
			}
		}
	}
	if k.modelOnly {
		return
	}
	items := unwrap1(op.Items, k.lax)
	if len(items) > 0 {
		c.Distinct(ftxt, k.doc, fmt.Sprint(k.useNum, k.tz))
	}
	// per-item verdict through the predicate check expression
	vars2 := map[string]any{}
	for kk, v := range vars {
		vars2[kk] = v
	}
	vars2["root"] = doc
	var want []any
	var hardErr *h.Out
	for _, x := range items {
		ox := h.Call("query", pcp, x, h.Opts{Vars: vars2, TZ: k.tz})
		c.Eval(1)
		if ox.Class == h.Panic || ox.Class == h.Invalid {
			c.Skip("kept-iff-true", "panic-or-invalid-is-C05")
			return
		}
		if ox.Class != h.OK {
			if ox.Class == h.Hard {
				hardErr = ox
				break
			}
			// a predicate check never raises a suppressible error: its operands' errors are unknown
			c.Violate("kept-iff-true", h.F("kind", "check-errs", "mode", modeName(k.lax)), fmt.Sprintf("predicate check %s on item %s returned %s", pctxt, h.Canon(x), ox.Summary()), cs)
			return
		}
		if len(ox.Items) == 1 && ox.Items[0] == true {
			want = append(want, x)
		}
	}
	feat := h.F("mode", modeName(k.lax), "cause", "unexplained")
	if hardErr != nil {
		if of.Class != h.Hard {
			// known deviation: is unknown swallows hard errors consistently in both paths, so only a real mismatch lands here
			c.Violate("hard-aborts", feat, fmt.Sprintf("the condition raises %s on a reached item but Query(P ?(C)) returned %s", hardErr.Summary(), of.Summary()), cs)
		} else {
			c.Held("hard-aborts")
		}
		return
	}
	if of.Class != h.OK {
		feat["got"] = of.Class
		c.Violate("kept-iff-true", feat, fmt.Sprintf("every per-item check succeeds but Query(P ?(C)) returned %s (a false or unknown condition must not abort the query)", of.Summary()), cs)
		return
	}
	if maskedList(of.Items) != maskedList(want) {
		// distinguish: not a subsequence at all vs wrong membership
		cl := "kept-iff-true"
		if !isSubsequence(of.Items, items) {
			cl = "subsequence"
		}
		c.Violate(cl, feat, fmt.Sprintf("Query(P ?(C)) = %s; items of P: %s; items whose check is true: %s", maskedList(of.Items), maskedList(items), maskedList(want)), cs)
	} else {
		c.Held("kept-iff-true")
		c.Held("subsequence")
		// the entry point that wants one item keeps the first of them, and the
		// one that wants none says whether there is one: the condition sees
		// all the items of its operands there too
		if !exposesOrder(&gen.Path{Root: fchain}) {
			ofi := h.Call("first", pf, doc, opts)
			oex := h.Call("exists", pf, doc, opts)
			c.Eval(2)
			var wantFirst any
			if len(want) > 0 {
				wantFirst = want[0]
			}
			switch {
			case ofi.Class == h.Panic || oex.Class == h.Panic:
			case ofi.Class != h.OK || maskedList([]any{ofi.Val}) != maskedList([]any{wantFirst}):
				c.Violate("kept-iff-true", h.F("mode", modeName(k.lax), "entry", "first"), fmt.Sprintf("First(P ?(C)) = %s; the items whose check is true: %s", ofi.Summary(), maskedList(want)), cs)
			case k.lax && (oex.Class != h.OK || oex.Bool != (len(want) > 0)):
				c.Violate("kept-iff-true", h.F("mode", modeName(k.lax), "entry", "exists"), fmt.Sprintf("Exists(P ?(C)) = %s; the items whose check is true: %s", oex.Summary(), maskedList(want)), cs)
			default:
				c.Held("kept-iff-true")
			}
		}
		if c.WantSample("filter") {
			c.Sample("filter", map[string]any{"path": ftxt, "check": pctxt, "doc": k.doc, "P-items": maskedList(items), "kept": maskedList(of.Items)})
		}
	}
	// conjunction (strict only)
	if !k.lax && k.cond2 != nil {
		two := k.prefix.Clone().Append(&gen.N{K: gen.KFilter, A: k.cond.Clone()}).Append(&gen.N{K: gen.KFilter, A: k.cond2.Clone()})
		and := k.prefix.Clone().Append(&gen.N{K: gen.KFilter, A: &gen.N{K: gen.KBin, S: "&&", A: k.cond.Clone(), B: k.cond2.Clone()}})
		t2 := gen.Spell(&gen.Path{Lax: false, Root: two}, nil)
		ta := gen.Spell(&gen.Path{Lax: false, Root: and}, nil)
		p2, e1, x1 := h.ParseSafe(t2)
		pa, e2, x2 := h.ParseSafe(ta)
		if e1 != nil || e2 != nil || x1+x2 != "" {
			return
		}
		o2 := h.Call("query", p2, doc, opts)
		oa := h.Call("query", pa, doc, opts)
		c.Eval(2)
		if o2.Class == h.Hard || oa.Class == h.Hard || o2.Class == h.Panic || oa.Class == h.Panic || o2.Class == h.Invalid || oa.Class == h.Invalid {
			c.Skip("conjunction", "non-suppressible-error")
			return
		}
		if o2.Class != oa.Class || (o2.Class == h.OK && maskedList(o2.Items) != maskedList(oa.Items)) {
			ccs := cs
			ccs.Path = t2
			ccs.Extra = map[string]string{"conjunction": ta}
			ccs.Kind = "conjunction"
			c.Violate("conjunction", h.F("mode", "strict"), fmt.Sprintf("%s = %s but %s = %s", t2, o2.Summary(), ta, oa.Summary()), ccs)
		} else {
			c.Held("conjunction")
		}
	}
}

func isSubsequence(sub, full []any) bool {
	i := 0
	for _, x := range full {
		if i < len(sub) && h.Canon(maskIDs(sub[i])) == h.Canon(maskIDs(x)) {
			i++
		}
	}
	return i == len(sub)
}

func replayC10(c *h.Ctx, cs h.Case) {
	p, err, pan := h.ParseSafe(cs.Path)
	if err != nil || pan != "" {
		c.Note("replay: path does not parse")
		return
	}
	ap := gen.FromAST(p.AST)
	// last filter(s) of the top-level chain
	chain := ap.Root
	var prev, last *gen.N
	for x := chain; x != nil; x = x.Next {
		if x.Next != nil && x.Next.Next == nil {
			prev = x
		}
		last = x
	}
	if last == nil || last.K != gen.KFilter || prev == nil {
		c.Note("replay: path does not end in a filter")
		return
	}
	k := &c10Case{lax: ap.Lax, doc: cs.Doc, useNum: cs.UseNum, tz: cs.TZ, vars: cs.Vars}
	if cs.Kind == "conjunction" && prev.K == gen.KFilter {
		// P ?(C1) ?(C2)
		var pp *gen.N
		for x := chain; x != nil; x = x.Next {
			if x.Next == prev {
				pp = x
			}
		}
		if pp == nil {
			return
		}
		k.cond, k.cond2 = prev.A, last.A
		pp.Next = nil
		k.prefix = chain
	} else {
		k.cond = last.A
		prev.Next = nil
		k.prefix = chain
	}
	checkFilter(c, k)
}

var docPrefixHeads = []string{"-", "+"}

// c10Interrupted: a context that becomes done while a condition is being
// evaluated (after any poll, whichever way it ended) is no truth value: the
// filter fails with that error, or - done too late to be seen - keeps what the
// undisturbed run keeps.
func c10Interrupted(c *h.Ctx) {
	k := 0
	for _, pt := range []string{`$[*] ? ((@ > 1) is unknown)`, `$[*] ? (!(@ > 1))`, `$[*] ? (exists(@ ? (@ > 1)))`, `$[*] ? (@ > 6 || (@ == "x") is unknown)`, `strict $[*] ? ((@.a > 1) is unknown)`, `$ ? ((@[*] > 1) is unknown)`,
		`$[*] ? (((@ > 1) is unknown) is unknown)`, `$[*] ? (!((@ > 1) is unknown))`, `$[*] ? ((@ > 1) is unknown && @ > 0)`, `$[*] ? (@ > 1) ? ((@ < 9) is unknown)`} {
		for _, d := range []string{`[5,7]`, `[1,"x",7]`, `[{"a":2},{"b":1}]`} {
			for _, entry := range []string{"query", "first", "exists"} {
				k++
				if !c.Mine(k) {
					continue
				}
				p := cachedPath(pt)
				if p == nil {
					continue
				}
				for _, silent := range []bool{false, true} {
					opts := h.Opts{Silent: silent}
					base := h.Call(entry, p, h.Decode(d, false), opts)
					c.Eval(1)
					for n := 1; n <= base.Polls; n++ {
						for _, cause := range []error{context.Canceled, context.DeadlineExceeded} {
							m := &h.CallMon{CancelAt: -1, CancelAfterPoll: n, Cause: cause}
							o := h.CallMonitored(entry, p, h.Decode(d, false), opts, m)
							c.Eval(1)
							cs := h.Case{Kind: "interrupted", Path: pt, Doc: d, Entry: entry, Silent: silent, Extra: map[string]string{"after-poll": fmt.Sprint(n), "cause": cause.Error()}}
							switch {
							case o.Class == h.Panic:
								c.Skip("hard-aborts", "panic-is-C05")
							case errors.Is(o.Err, cause):
								c.Held("hard-aborts")
							case m.PollsAfter == 0 && o.Summary() == base.Summary():
								c.Held("hard-aborts") // done after the last poll
							default:
								c.Violate("hard-aborts", h.F("kind", "interrupted", "entry", entry, "cause", cause.Error()), fmt.Sprintf("%s(%s) on %s: the context was done (%v) after poll %d of %d, %d later polls saw it, yet the call returned %s (undisturbed: %s)", entry, pt, d, cause, n, base.Polls, m.PollsAfter, o.Summary(), base.Summary()), cs)
							}
						}
					}
				}
			}
		}
	}
}

func runC10(c *h.Ctx) {
	c10Interrupted(c)
	r := c.Rand("c10")
	g := &gen.G{R: r, C: gen.DefaultCfg()}
	g.C.Datetime = true
	dc := gen.DefaultDocCfg()
	n := c.PerShard(c.N(600000, 6000000))
	for i := 0; i < n; i++ {
		lax := r.IntN(2) == 0
		prefix := &gen.N{K: gen.KRoot}
		for j := r.IntN(4); j > 0; j-- {
			prefix.Append(g.Step(1, false, false))
		}
		cond := g.Pred(2, true, false)
		if r.IntN(4) == 0 {
			// sequence operands: a comparison between item sequences of several, possibly
			// incomparable, items (existential in lax mode, all-pairs in strict mode)
			seqs := []func() *gen.N{
				func() *gen.N { return &gen.N{K: gen.KCurrent, Next: &gen.N{K: gen.KAnyArray}} },
				func() *gen.N {
					return &gen.N{K: gen.KRoot, Next: &gen.N{K: gen.KKey, S: g.C.Keys[r.IntN(len(g.C.Keys))], Next: &gen.N{K: gen.KAnyArray}}}
				},
				func() *gen.N { return &gen.N{K: gen.KVar, S: "arr", Next: &gen.N{K: gen.KAnyArray}} },
				func() *gen.N {
					return &gen.N{K: gen.KCurrent, Next: &gen.N{K: gen.KKey, S: g.C.Keys[r.IntN(len(g.C.Keys))]}}
				},
				func() *gen.N { return gen.NumFromText(g.C.Nums[r.IntN(len(g.C.Nums))], false) },
				func() *gen.N { return &gen.N{K: gen.KRoot, Next: &gen.N{K: gen.KAnyArray}} },
			}
			cond = &gen.N{K: gen.KBin, S: cmpOpsAll[r.IntN(len(cmpOpsAll))], A: seqs[r.IntN(len(seqs))](), B: seqs[r.IntN(len(seqs))]()}
			if r.IntN(3) == 0 {
				cond = &gen.N{K: gen.KUn, S: "isunknown", A: cond}
			}
		}
		var cond2 *gen.N
		if !lax && r.IntN(2) == 0 {
			cond2 = g.Pred(1, true, false)
		}
		if r.IntN(12) == 0 && len(docPrefixHeads) > 0 {
			// the filter applied to what a parenthesised expression yields:
			// (-$.a[*]) ? (...), ($.a[*] + 0)... - every item reaches the filter
			inner := &gen.N{K: gen.KRoot}
			for j := 1 + r.IntN(2); j > 0; j-- {
				inner.Append(g.Step(0, false, false))
			}
			prefix = &gen.N{K: gen.KUn, S: []string{"-", "+"}[r.IntN(2)], A: inner}
		}
		crossDoc := ""
		if r.IntN(6) == 0 {
			// a condition with an operand that is anchored outside the item
			// but subscripted with a member of it: $.b[@.a], $arr[@.a] ...
			prefix, cond, crossDoc = crossRef(r, false)
			if r.IntN(3) == 0 {
				// (the items have several members: nothing that expands them)
				if extra := g.Pred(1, true, false); !exposesOrder(&gen.Path{Root: extra}) && !hasMethod(extra, "keyvalue") {
					cond = &gen.N{K: gen.KBin, S: []string{"&&", "||"}[r.IntN(2)], A: cond, B: extra}
				}
			}
			cond2 = nil
		}
		whole := &gen.N{K: gen.KFilter, A: cond, B: cond2}
		d := dc
		vars := stdVars
		if exposesOrder(&gen.Path{Root: prefix}) || exposesOrder(&gen.Path{Root: whole}) {
			d.MaxMembers = 1
			vars = stdVars1
		}
		modelOnly := false
		if !lax && containsTopLevelAny(prefix) {
			// below .** the condition runs with structural errors ignored; the
			// stand-alone check does not: the reference evaluator decides alone
			c.Skip("kept-iff-true", "strict-prefix-has-recursive-descent")
			modelOnly = true
		}
		if (exposesOrder(&gen.Path{Root: prefix}) || exposesOrder(&gen.Path{Root: whole})) && (hasMethod(prefix, "keyvalue") || hasMethod(whole, "keyvalue")) {
			// the triples generated by .keyvalue() have three members: expanding them is order-dependent
			c.Skip("kept-iff-true", "member-order-open")
			continue
		}
		if idsFlow(prefix) || idExposed(whole) {
			// ids are address-derived and the per-item check runs on another base object
			c.Skip("kept-iff-true", "keyvalue-ids-flow")
			continue
		}
		docTxt := gen.Doc(r, d)
		if crossDoc != "" {
			docTxt = crossDoc
		}
		useNum := r.IntN(2) == 0
		if useNum && r.IntN(6) == 0 {
			// a number only a UseNumber decode can hold (beyond float64)
			docTxt = gen.InjectHuge(r, docTxt)
		}
		checkFilter(c, &c10Case{lax: lax, prefix: prefix, cond: cond, cond2: cond2, doc: docTxt, useNum: useNum, tz: r.IntN(3) == 0, vars: vars, modelOnly: modelOnly})
	}
	// directed: conditions whose exists() operand keeps an earlier item and
	// rejects the one visited last (subscript lists, ranges, .keyvalue(), .**)
	dirDocs := []string{`[{"a":[5,0],"o":{"p":5,"q":0},"k":1},{"a":[0,5],"o":{"p":0,"q":5},"k":2},{"a":[0,0],"o":{"p":0,"q":0},"k":3},{"a":[5,5],"o":{},"k":4},{"a":7,"o":{"z":{"p":9}},"k":5}]`}
	kk := 0
	for _, cond := range []string{"exists(@.a[0,1] ? (@ > 1))", "exists(@.a[0 to 1] ? (@ > 1))", "exists(@.a[0 to last] ? (@ > 1))", "exists(@.o.keyvalue() ? (@.value > 1))", "exists(@.o.keyvalue().value ? (@ > 1))",
		"exists(@.o.** ? (@ > 1))", "exists(@.k.** ? (@ > 1))", "exists(@.o.**{0} ? (@.type() == \"object\"))", "exists(@.a[last, 0] ? (@ > 1))", "!(exists(@.a[0,1] ? (@ > 1)))", "exists(@.a[0,1] ? (@ > 1)) && @.k > 0",
		"exists(@.a[*] ? (@ > 1))", "exists(@.o.* ? (@ > 1))", "(exists(@.a[0,1] ? (@ > 1))) is unknown"} {
		for _, lax := range []bool{true, false} {
			for _, d := range dirDocs {
				kk++
				if !c.Mine(kk) {
					continue
				}
				mode := ""
				if !lax {
					mode = "strict "
				}
				p, err, pan := h.ParseSafe(mode + "$[*] ? (" + cond + ")")
				if err != nil || pan != "" {
					c.Count("gen.unparsable", 1)
					continue
				}
				root := gen.FromAST(p.AST).Root
				x := root
				for x.Next != nil && x.Next.K != gen.KFilter {
					x = x.Next
				}
				cn := x.Next.A
				x.Next = nil
				for _, useNum := range []bool{false, true} {
					checkFilter(c, &c10Case{lax: lax, prefix: root.Clone(), cond: cn, doc: d, useNum: useNum, vars: stdVars1})
				}
			}
		}
	}
	// directed: like_regex conditions under i / q / iq over strings that differ
	// by case in the ways Unicode folds case (which is not lower-casing both
	// sides: final sigma, long s, micro sign, dotted capital I, Kelvin sign)
	foldDoc := `["ΛΟΓΟΣ.","λογος.","Λογος. Α.Ε.","λογοσ.","ſ.","s.","S.","µm","μm","Μm","İstanbul","istanbul","i̇stanbul","K","k","K","ß","ss","a.c","abc","A.C"]`
	for _, pat := range []string{"ΛΟΓΟΣ.", "λογος.", "s.", "ſ.", "µm", "μm", "İ", "i", "k", "K", "ss", "a.c", "Σ", "ς"} {
		for _, fl := range []string{"iq", "i", "q", "", "qi", "iqs"} {
			for _, lax := range []bool{true, false} {
				kk++
				if !c.Mine(kk) {
					continue
				}
				cn := &gen.N{K: gen.KRegex, A: &gen.N{K: gen.KCurrent}, S: pat, Flags: fl}
				if kk%3 == 0 {
					cn = &gen.N{K: gen.KUn, S: "!", A: cn}
				}
				root := &gen.N{K: gen.KRoot, Next: &gen.N{K: gen.KAnyArray}}
				checkFilter(c, &c10Case{lax: lax, prefix: root, cond: cn, doc: foldDoc, vars: stdVars1})
			}
		}
	}
	// directed: conditions over operands of many items (64 and more item
	// pairs), of one type and of mixed types, very large integers among them
	{
		mk := func(n int, f func(i int) string) string {
			el := make([]string, n)
			for i := range el {
				el[i] = f(i)
			}
			return "[" + strings.Join(el, ",") + "]"
		}
		longDocs := []string{
			fmt.Sprintf(`[{"l":%s,"r":%s,"k":1},{"l":%s,"r":%s,"k":2},{"l":%s,"r":%s,"k":3}]`,
				mk(8, func(i int) string { return fmt.Sprint(i) }), mk(8, func(i int) string { return fmt.Sprint(100 + i) }),
				mk(10, func(i int) string { return fmt.Sprint(i) }), mk(10, func(i int) string { return fmt.Sprintf("%q", fmt.Sprint(i)) }),
				mk(9, func(i int) string { return fmt.Sprint(9007199254740993 + int64(i)*2) }), mk(9, func(i int) string { return fmt.Sprint(9007199254740992 + int64(i)*2) })),
			fmt.Sprintf(`[{"l":%s,"r":%s,"k":1},{"l":%s,"r":%s,"k":2}]`,
				mk(64, func(i int) string { return fmt.Sprint(i) }), mk(3, func(i int) string { return []string{`"x"`, "63", "null"}[i] }),
				mk(70, func(i int) string { return fmt.Sprintf(`"s%d"`, i) }), mk(2, func(i int) string { return []string{"1", `"s69"`}[i] })),
		}
		for _, cond := range []string{"@.l[*] == @.r[*]", "!(@.l[*] == @.r[*])", "(@.l[*] == @.r[*]) is unknown", "@.l[*] != @.r[*]", "@.l[*] == @.r[*] || @.k == 2", "@.r[*] == @.l[*]", "@.l == @.r", "exists(@.l[*] ? (@ == $root[0].r[*]))"} {
			for _, lax := range []bool{true, false} {
				for _, d := range longDocs {
					kk++
					if !c.Mine(kk) {
						continue
					}
					mode := ""
					if !lax {
						mode = "strict "
					}
					p, err, pan := h.ParseSafe(mode + "$[*] ? (" + strings.ReplaceAll(cond, "$root", "$") + ")")
					if err != nil || pan != "" {
						c.Count("gen.unparsable", 1)
						continue
					}
					root := gen.FromAST(p.AST).Root
					x := root
					for x.Next != nil && x.Next.K != gen.KFilter {
						x = x.Next
					}
					cn := x.Next.A
					x.Next = nil
					for _, useNum := range []bool{false, true} {
						checkFilter(c, &c10Case{lax: lax, prefix: root.Clone(), cond: cn, doc: d, useNum: useNum, vars: stdVars1})
					}
				}
			}
		}
	}
	_ = strings.Join
}
