package props

import (
	"context"
	"errors"
	"fmt"
	"strings"

	"github.com/theory/sqljson/path"
	"github.com/theory/sqljson/path/exec"

	"verif/internal/gen"
	"verif/internal/h"
)

func init() {
	register(&Prop{
		ID:    "C20",
		Level: "fault_enumeration",
		Rule: "for every (path, document) of a hand-written pool covering every node kind and error consumer plus generated pairs, x 5 entry points x {verbose, silent} x {Canceled, DeadlineExceeded}: " +
			"the context becomes done at the entry of evaluation step k (H1 step clock) for EVERY k = 0..K (K = steps of the uncancelled run); " +
			"a case is non-trivial when K >= 2; distinct by (path, doc, entry, silent, cause, k)",
		Run:          runC20,
		Replay:       func(c *h.Ctx, cs h.Case) { replayC20(c, cs) },
		MinExercised: map[string]int64{"outcome": 2000, "between-polls": 5000, "further-steps": 2000, "done-before-call": 100},
		Assumptions: []string{
			"cancellation is injected through a context.Context whose Done/Err flip is driven by the H1 step hook (logical clock), never by wall time",
			"bound on further evaluation steps after the flip: number of nodes of the path + 2 (independent of document size)",
		},
	})
}

type pd struct{ p, d string }

var c20Vars = `{"v":1,"w":"ab","arr":[1,2,{"a":3}],"sarr":["ab","b",1],"obj":{"a":1,"b":[1,2]},"nul":null}`

var c20Pool = []pd{
	{`$`, `1`}, {`$.a`, `{"a":1}`}, {`$.a.b.c`, `{"a":{"b":{"c":1}}}`}, {`$.*`, `{"a":1,"b":2}`}, {`$[*]`, `[1,2,3]`},
	{`$[0]`, `[1,2]`}, {`$[0,1]`, `[1,2]`}, {`$[0 to 1]`, `[1,2,3]`}, {`$[last]`, `[1,2,3]`}, {`$[last - 1 to last]`, `[1,2,3]`},
	{`$[$.i]`, `{"i":0,"a":[5]}`}, {`$.a[$.i]`, `{"i":1,"a":[5,6]}`}, {`$.a[$.a.size() - 1]`, `{"a":[5,6]}`},
	{`$.**`, `{"a":[1,{"b":2}]}`}, {`$.**{1}`, `{"a":[1,{"b":2}]}`}, {`$.**{1 to last}.b`, `{"a":[1,{"b":2}]}`}, {`$.**{last}`, `{"a":[1,{"b":2}]}`},
	{`$.a ? (@ > 1)`, `{"a":[1,2,3]}`}, {`$ ? (@.a == 1)`, `{"a":1}`}, {`$[*] ? (@.a == 1).b`, `[{"a":1,"b":2},{"a":2,"b":3}]`},
	{`$[*] ? (@.a ? (@ > 1) > 0)`, `[{"a":1},{"a":2}]`}, {`$[*] ? (@[*] ? (@ > 1).size() > 0)`, `[[1,2],[3]]`},
	{`$[*] ? (exists(@.a))`, `[{"a":1},{"b":2}]`}, {`$[*] ? (!(@.a == 1))`, `[{"a":1},{"a":2}]`},
	{`$[*] ? ((@.a == 1) is unknown)`, `[{"a":1},{"a":"x"}]`}, {`$[*] ? (@.a == 1 && @.b == 2)`, `[{"a":1,"b":2},{"a":1,"b":3}]`},
	{`$[*] ? (@.a == 1 || @.b == 2)`, `[{"a":0,"b":2},{"a":1,"b":3}]`}, {`$[*] ? (@ starts with "a")`, `["ab","b"]`},
	{`$[*] ? (@ like_regex "^a" flag "i")`, `["Ab","b"]`}, {`$[*] ? (@ starts with $w)`, `["ab","abc"]`},
	{`$.a == 1`, `{"a":1}`}, {`$.a < $.b`, `{"a":1,"b":[0,2]}`}, {`($.a == 1) is unknown`, `{"a":"x"}`}, {`($.a == 1) is unknown`, `{"a":1}`},
	{`exists($.a)`, `{"a":1}`}, {`exists($.a ? (@ > 0))`, `{"a":[0,1]}`}, {`!($.a == 1)`, `{"a":2}`}, {`!exists($.a.b)`, `{"a":{"b":1}}`},
	{`$.a == 1 && $.b == 2`, `{"a":1,"b":2}`}, {`$.a == 1 || $.b == 2`, `{"a":0,"b":2}`}, {`($.a == 1 || $.b == 2) && !($.c == 3)`, `{"a":0,"b":2,"c":4}`},
	{`(($.a == 1) is unknown) is unknown`, `{"a":1}`}, {`(exists($.a)) is unknown`, `{"a":1}`}, {`(!($.a == 1)) is unknown`, `{"a":1}`},
	{`($.a == 1 && $.b == 2) is unknown`, `{"a":1,"b":2}`}, {`exists($ ? ((@.a == 1) is unknown))`, `{"a":1}`},
	{`$.a + 1`, `{"a":1}`}, {`$.a + $.b * 2`, `{"a":1,"b":2}`}, {`-$.a`, `{"a":[1,2]}`}, {`+$.a`, `{"a":[1,2]}`}, {`-$[*].a`, `[{"a":1},{"a":2}]`},
	{`($.a + 1).abs()`, `{"a":-3}`}, {`$.a / $.b`, `{"a":6,"b":3}`}, {`$.a % 2`, `{"a":5}`}, {`2 * $.a - 1`, `{"a":5}`},
	{`$.a.abs()`, `{"a":[-1,2]}`}, {`$.a.floor()`, `{"a":1.5}`}, {`$.a.ceiling()`, `{"a":1.5}`}, {`$.a.double()`, `{"a":"1.5"}`}, {`$.a.number()`, `{"a":"1.5"}`},
	{`$.a.integer()`, `{"a":"12"}`}, {`$.a.bigint()`, `{"a":"12"}`}, {`$.a.boolean()`, `{"a":["t",1]}`}, {`$.a.string()`, `{"a":[1,true]}`},
	{`$.a.decimal(5,2)`, `{"a":1.234}`}, {`$.a.type()`, `{"a":[1]}`}, {`$.a.size()`, `{"a":[1,2]}`}, {`$.a[*].type()`, `{"a":[1,"x"]}`},
	{`$.keyvalue()`, `{"a":1,"b":2}`}, {`$.keyvalue().value`, `{"a":1,"b":2}`}, {`$[*].keyvalue().key`, `[{"a":1},{"b":2}]`}, {`$.keyvalue().keyvalue().id`, `{"a":1}`},
	{`$.a.datetime()`, `{"a":"2023-08-15"}`}, {`$.a.date()`, `{"a":"2023-08-15"}`}, {`$.a.time()`, `{"a":"12:34:56"}`}, {`$.a.time_tz()`, `{"a":"12:34:56+01"}`},
	{`$.a.timestamp()`, `{"a":"2023-08-15T12:34:56"}`}, {`$.a.timestamp_tz()`, `{"a":"2023-08-15T12:34:56+01:00"}`}, {`$.a.timestamp(2).string()`, `{"a":"2023-08-15T12:34:56.789"}`},
	{`$[*].datetime() ? (@ < "2023-08-16".datetime())`, `["2023-08-15","2023-08-17"]`}, {`$.a.datetime() < $.b.datetime()`, `{"a":"2023-08-15","b":"2023-08-16"}`},
	{`$v`, `1`}, {`$arr[*]`, `1`}, {`$obj.b[last]`, `1`}, {`$.a == $v`, `{"a":1}`}, {`$arr[2].a + $v`, `1`}, {`$obj.keyvalue().id`, `1`},
	{`"a"`, `1`}, {`1`, `1`}, {`1.5`, `1`}, {`null`, `1`}, {`true`, `1`}, {`(1 + 2) * 3`, `1`}, {`"abc".type()`, `1`}, {`(1).abs()`, `1`}, {`true.type()`, `1`}, {`null.string()`, `1`},
	{`strict $.a`, `{"a":1}`}, {`strict $.a[*]`, `{"a":[1,2]}`}, {`strict $[*].a`, `[{"a":1},{"a":2}]`}, {`strict $.a ? (@ > 1)`, `{"a":2}`},
	{`strict $[*] ? (@.a == 1)`, `[{"a":1},{"a":2}]`}, {`strict $[*] ? ((@.a == 1) is unknown)`, `[{"a":1},{"b":2}]`}, {`strict exists($.a)`, `{"a":1}`},
	{`strict $.**.a`, `{"a":{"a":1}}`}, {`strict $.**{1}.a`, `{"x":{"a":1}}`}, {`strict ($.a == 1) is unknown`, `{"b":1}`}, {`strict $.a == 1 && $.b == 2`, `{"a":1,"b":2}`},
	{`strict $[0 to last].size()`, `[[1],[2,3]]`}, {`strict -$.a`, `{"a":1}`}, {`strict $.a + $.b`, `{"a":1,"b":2}`}, {`strict $[*] ? (exists(@.a))`, `[{"a":1}]`},
	{`strict !($.a == 1)`, `{"a":1}`}, {`strict $ ? (@.a == $v)`, `{"a":1}`}, {`strict $.a.keyvalue().value`, `{"a":{"b":1}}`}, {`strict $[*].a.type()`, `[{"a":1}]`},
	{`$.a ? (@.b ? (@.c ? (@ > 0) > 0).c > 0)`, `{"a":{"b":{"c":1}}}`}, {`$[*][*][*]`, `[[[1,2],[3]],[[4]]]`}, {`$.a[*] ? (@ > $.b[last])`, `{"a":[1,5],"b":[2,3]}`},
	{`$[*] ? (@.x > 1).y ? (@ < 9).z`, `[{"x":2,"y":{"z":1}}]`}, {`$ ? (exists(@.a ? (@ == 1)))`, `{"a":[0,1]}`}, {`$ ? (@.a[*] > 1 && exists(@.b))`, `{"a":[1,2],"b":1}`},
	{`($.a == 1).type()`, `{"a":1}`}, {`(exists($.a)).string()`, `{"a":1}`}, {`($.a like_regex "x").type()`, `{"a":"x"}`}, {`(($.a == 1) is unknown).type()`, `{"a":1}`},
	{`$.a ? (@ == 1 || @ == 2 || @ == 3)`, `{"a":[1,2,3,4]}`}, {`$.* ? (@.size() > 1)`, `{"a":[1,2],"b":[1]}`}, {`$.**{0 to 2} ? (@.type() == "number")`, `{"a":{"b":1},"c":2}`},
}

func init() {
	// long operand sequences: thousands of item pairs compared after the last
	// poll of the operands (no pair is equal, so nothing short-circuits)
	var a, b []string
	for i := 0; i < 40; i++ {
		a = append(a, fmt.Sprint(i))
		b = append(b, fmt.Sprint(100+i))
	}
	big := fmt.Sprintf(`{"a":[%s],"b":[%s],"t":["12:00:00","13:00:00"],"z":"12:00:00+01"}`, strings.Join(a, ","), strings.Join(b, ","))
	for _, pd := range [][2]string{{`strict $[1 to 2]`, `[1,2,3]`}, {`strict $[2 to last]`, `[1,2,3]`}, {`strict $.a[1 to $.n]`, `{"a":[1,2,3],"n":2}`}, {`strict $ ? (@[1 to 2] > 0)`, `[1,2,3]`},
		{`strict $[1 to 2, 0 to 1]`, `[1,2,3]`}, {`$[1 to $.x]`, `[1,2,3]`}, {`strict $[$[0] to $[1]]`, `[1,2,3]`}, {`strict $[last - 1 to last].type()`, `[1,2,3]`},
		{`$.**{3}.double()`, `[[["1"]],2]`}, {`$.**{2 to 3}.a`, `[[{"a":1},[{"a":2}]],3,[4]]`}, {`strict $.**{2}.type()`, `{"a":{"b":1},"c":2,"d":{"e":3}}`}, {`$.**{3 to last} ? (@ > 0)`, `[[[1,[2]]],0,[[3]]]`}} {
		c20Pool = append(c20Pool, struct{ p, d string }{pd[0], pd[1]})
	}
	// wide containers under every step that fans out: after the step at which
	// the context became done, the remaining members / elements are not visited
	var mem, el []string
	for i := 0; i < 30; i++ {
		mem = append(mem, fmt.Sprintf(`"k%02d":{"x":%d}`, i, i))
		el = append(el, fmt.Sprintf(`{"x":%d}`, i))
	}
	wide := fmt.Sprintf(`{"o":{%s},"a":[%s]}`, strings.Join(mem, ","), strings.Join(el, ","))
	for _, p := range []string{`$.o.keyvalue().value`, `$.o.keyvalue().key`, `$.o.keyvalue().value.x`, `$.o.keyvalue() ? (@.value.x > 1).key`, `$.o.*.x`, `$.a[*].x`, `$.a[0 to last].x`, `$.**.x`, `$.o.*.keyvalue().key`,
		`-$.a[*].x`, `$.a[*].x.abs()`, `$.a[*] ? (@.x > 3).x`, `strict $.o.keyvalue().value.x`, `strict $.a[*].x.type()`, `$.o.** ? (@.x > 1).x`, `$.a[*].keyvalue().value`} {
		c20Pool = append(c20Pool, struct{ p, d string }{p, wide})
	}
	// arrays of thousands of elements that are copied as a whole (an operand
	// that lax mode unwraps): whatever polls the context in there reports it
	var many []string
	for i := 0; i < 2100; i++ {
		many = append(many, fmt.Sprint(i))
	}
	huge := fmt.Sprintf(`{"n":[%s],"last":2099,"s":["a","b"]}`, strings.Join(many, ","))
	// (only paths that take the array as a whole: few evaluation steps, so
	// the number of cancellation points stays small)
	for _, p := range []string{`-$.n`, `$.last == $.n`, `$ ? (3000 == @.n)`, `$.n like_regex "x"`, `$ ? (@.n == 2099).last`, `+$.n.size()`} {
		c20Pool = append(c20Pool, struct{ p, d string }{p, huge})
	}
	// ... and a subscript range over them with nothing after it, alone and as an
	// operand: the elements are handed over without a step in between
	for _, p := range []string{`$.n[0 to last]`, `$.n[1 to 2098]`, `strict $.n[0 to last]`, `$.last == $.n[0 to last]`, `-$.n[0 to last]`, `exists($.n[0 to 2000])`, `$ ? (exists(@.n[5 to last]))`, `$.n[0 to last, 0 to last]`} {
		c20Pool = append(c20Pool, struct{ p, d string }{p, huge})
	}
	// a string of 70000 characters under like_regex, the match being the last
	// thing evaluated: a context that is done by then is not a truth value
	long := fmt.Sprintf(`{"s":"%sneedle","t":["%s","x"]}`, strings.Repeat("ab", 35000), strings.Repeat("c", 66000))
	for _, p := range []string{`$.s like_regex "needle$"`, `$ ? (@.s like_regex "needle")`, `!($.s like_regex "^b")`, `$.s ? (@ like_regex "a+b")`, `$.t[*] ? (@ like_regex "^c+$")`, `($.s like_regex "zz") is unknown`, `$.s like_regex "NEEDLE" flag "i"`, `exists($.t[*] ? (@ like_regex "x"))`} {
		c20Pool = append(c20Pool, struct{ p, d string }{p, long})
	}
	for _, p := range []string{`$.a[*] == $.b[*]`, `$ ? (@.a[*] == @.b[*])`, `($.a[*] > $.b[*]) is unknown`, `strict $.a[*] == $.b[*]`, `$.a[*] == $.b[*] || $.a[0] == 0`,
		`$.t[*].time() < $.z.time_tz()`, `$.a[*] ? (@ == $.b[*])`} {
		c20Pool = append(c20Pool, struct{ p, d string }{p, big})
	}
}

type c20Combo struct {
	entry  string
	silent bool
	cause  error
}

func causeName(e error) string {
	if errors.Is(e, context.Canceled) {
		return "canceled"
	}
	return "deadline"
}

// checkCancelPoints enumerates every cancellation point of one case.
func checkCancelPoints(c *h.Ctx, p *path.Path, nodes int, ptxt, dtxt string, useNum bool, combo c20Combo) {
	doc := h.Decode(dtxt, useNum)
	opts := h.Opts{Vars: h.DecodeVars(c20Vars, useNum), Silent: combo.silent, TZ: true}
	zone := ""
	if (len(ptxt)+len(dtxt))%2 == 0 {
		// a non-UTC zone in the context (the datetime casts read it)
		zone = []string{"America/New_York", "+05:30"}[len(ptxt)%2]
		opts.Zone = h.ParseZone(zone)
	}
	base := h.Call(combo.entry, p, doc, opts)
	c.Eval(1)
	K := base.Steps
	cs := h.Case{Kind: "cancel", Path: ptxt, Doc: dtxt, UseNum: useNum, Vars: c20Vars, Silent: combo.silent, TZ: true, Zone: zone, Entry: combo.entry,
		Extra: map[string]string{"cause": causeName(combo.cause)}}
	if base.Class == h.Panic {
		c.Skip("outcome", "baseline-panics")
		return
	}
	c.Count(fmt.Sprintf("steps.K.sum"), int64(K))
	c.Count("polls.baseline.sum", int64(base.Polls))
	bound := nodes + 2
	for k := 0; k <= K; k++ {
		cs.Extra = map[string]string{"cause": causeName(combo.cause), "k": fmt.Sprint(k), "K": fmt.Sprint(K)}
		doc := h.Decode(dtxt, useNum) // fresh document each time (purity not assumed)
		// (k = 0, cancelled by its owner: half of these contexts also had a deadline, which has passed since)
		m := &h.CallMon{CancelAt: k, Cause: combo.cause, PastDeadline: k == 0 && combo.cause == context.Canceled && len(ptxt)%2 == 0}
		o := h.CallMonitored(combo.entry, p, doc, opts, m)
		c.Eval(1)
		if K >= 2 {
			c.Distinct(ptxt, dtxt, fmt.Sprint(useNum), combo.entry, fmt.Sprint(combo.silent), causeName(combo.cause), fmt.Sprint(k))
		}
		reached := k == 0 || m.Steps >= k
		if !reached {
			// nondeterministic step count (object member order): the flip was never reached
			c.Skip("outcome", "flip-not-reached")
			continue
		}
		clause := "outcome"
		if k == 0 {
			clause = "done-before-call"
		}
		feat := func(kind string) map[string]string {
			f := h.F("kind", kind, "entry", combo.entry, "silent", fmt.Sprint(combo.silent), "mode", modeOf(p))
			return f
		}
		hasResult := len(o.Items) > 0 || o.Val != nil || o.Bool
		switch {
		case o.Class == h.Panic:
			c.Violate(clause, feat("panic"), fmt.Sprintf("cancelled at step %d/%d: panic %s", k, K, o.Panic), cs)
		case o.Err == nil:
			c.Violate(clause, feat("normal-outcome"), fmt.Sprintf("cancelled (%s) at step %d/%d but %s returned %s with a nil error (uncancelled: %s)", causeName(combo.cause), k, K, combo.entry, o.Summary(), base.Summary()), cs)
		case o.Class == h.Null:
			c.Violate(clause, feat("NULL"), fmt.Sprintf("cancelled at step %d/%d but %s returned NULL", k, K, combo.entry), cs)
		case !errors.Is(o.Err, exec.ErrExecution) || !errors.Is(o.Err, combo.cause):
			c.Violate("wrap", feat("not-wrapping"), fmt.Sprintf("cancelled at step %d/%d: error %q does not wrap ErrExecution and %v", k, K, o.Err, combo.cause), cs)
		case errors.Is(o.Err, exec.ErrVerbose):
			c.Violate("wrap", feat("suppressible"), fmt.Sprintf("cancelled at step %d/%d: error %q is suppressible (wraps ErrVerbose)", k, K, o.Err), cs)
		case hasResult:
			c.Violate("items", feat("items-with-error"), fmt.Sprintf("cancelled at step %d/%d: result %s returned together with the error", k, K, o.Summary()), cs)
		default:
			c.Held(clause)
			c.Held("wrap")
			c.Held("items")
		}
		if k > 0 {
			if m.StepsAfter > bound {
				c.Violate("further-steps", feat("unbounded"), fmt.Sprintf("cancelled at step %d/%d: %d further evaluation steps were entered (bound %d = path nodes + 2)", k, K, m.StepsAfter, bound), cs)
			} else {
				c.Held("further-steps")
			}
			c.Count("max:steps-after-flip", 0)
			if int64(m.StepsAfter) > 0 {
				c.Count(fmt.Sprintf("steps-after-flip=%d", min(m.StepsAfter, 6)), 1)
			}
		}
	}
	if base.Polls <= 64 || len(ptxt)%4 == 0 {
		checkBetweenPolls(c, p, func() any { return h.Decode(dtxt, useNum) }, opts, combo, min(base.Polls, 400), cs, base)
	}
}

// checkBetweenPolls: the context becomes done right after its n-th poll (as a
// timer or another goroutine would make it), for every n. Whatever notices it
// - the next poll or any other look at the context - must report it as an
// error wrapping ErrExecution and the context's error; a normal outcome is
// acceptable only if no poll saw the context done.
func checkBetweenPolls(c *h.Ctx, p *path.Path, doc func() any, opts h.Opts, combo c20Combo, polls int, cs h.Case, base *h.Out) {
	for n := 1; n <= polls; n++ {
		m := &h.CallMon{CancelAt: -1, CancelAfterPoll: n, Cause: combo.cause}
		o := h.CallMonitored(combo.entry, p, doc(), opts, m)
		c.Eval(1)
		cs.Extra = map[string]string{"cause": causeName(combo.cause), "after-poll": fmt.Sprint(n), "polls": fmt.Sprint(polls)}
		feat := h.F("entry", combo.entry, "silent", fmt.Sprint(combo.silent), "mode", modeOf(p))
		hasResult := len(o.Items) > 0 || o.Val != nil || o.Bool
		switch {
		case o.Class == h.Panic:
			c.Skip("between-polls", "panic-is-C05")
		case o.Err == nil && m.PollsAfter > 0:
			feat["kind"] = "normal-outcome"
			c.Violate("between-polls", feat, fmt.Sprintf("the context became done after poll %d/%d, %d later polls saw it, but %s returned %s with a nil error", n, polls, m.PollsAfter, combo.entry, o.Summary()), cs)
		case o.Err == nil && base != nil && !exposesOrderText(cs.Path) && o.Summary() != base.Summary():
			// nothing polled the context again, yet the outcome is not that of
			// the undisturbed run: something else looked at the context
			// (ctx.Err()) and made a result of what it saw
			feat["kind"] = "other-outcome"
			c.Violate("between-polls", feat, fmt.Sprintf("the context became done after poll %d/%d; no later poll saw it, and %s returned %s with a nil error - the undisturbed run returns %s", n, polls, combo.entry, o.Summary(), base.Summary()), cs)
		case o.Err == nil:
			c.Held("between-polls") // completed without looking at the context again
		case o.Class == h.Null && m.PollsAfter == 0 && !errors.Is(o.Err, combo.cause):
			c.Held("between-polls") // the NULL of an unaffected run
		case !errors.Is(o.Err, combo.cause) && m.PollsAfter == 0:
			c.Held("between-polls") // an ordinary error of an unaffected run
		case !errors.Is(o.Err, exec.ErrExecution) || !errors.Is(o.Err, combo.cause) || errors.Is(o.Err, exec.ErrVerbose):
			feat["kind"] = "not-wrapping"
			c.Violate("between-polls", feat, fmt.Sprintf("the context became done after poll %d/%d: error %q does not wrap ErrExecution and %v (or is suppressible)", n, polls, o.Err, combo.cause), cs)
		case hasResult:
			feat["kind"] = "items-with-error"
			c.Violate("between-polls", feat, fmt.Sprintf("the context became done after poll %d/%d: result %s returned together with the error", n, polls, o.Summary()), cs)
		default:
			c.Held("between-polls")
		}
	}
}

// exposesOrderText: the path expands object members (their order is open, so
// two runs may differ in the order of their items).
func exposesOrderText(ptxt string) bool {
	return strings.Contains(ptxt, ".*") || strings.Contains(ptxt, "keyvalue")
}

func modeOf(p *path.Path) string {
	if p.IsLax() {
		return "lax"
	}
	return "strict"
}

func replayC20(c *h.Ctx, cs h.Case) {
	p, err, pan := h.ParseSafe(cs.Path)
	if err != nil || pan != "" {
		c.Note("replay: path no longer parses: " + cs.Path)
		return
	}
	h.RequireMonitoredCtx = true
	cause := context.Canceled
	if cs.Extra["cause"] == "deadline" {
		cause = context.DeadlineExceeded
	}
	nodes := gen.FromAST(p.AST).Root.Count()
	checkCancelPoints(c, p, nodes, cs.Path, cs.Doc, cs.UseNum, c20Combo{cs.Entry, cs.Silent, cause})
}

func runC20(c *h.Ctx) {
	h.RequireMonitoredCtx = true
	var combos []c20Combo
	for _, e := range h.Entries {
		for _, s := range []bool{false, true} {
			for _, cause := range []error{context.Canceled, context.DeadlineExceeded} {
				combos = append(combos, c20Combo{e, s, cause})
			}
		}
	}
	idx := 0
	for _, pdv := range c20Pool {
		p, err, pan := h.ParseSafe(pdv.p)
		if err != nil || pan != "" {
			c.Note("pool path does not parse: " + pdv.p)
			continue
		}
		nodes := gen.FromAST(p.AST).Root.Count()
		for _, useNum := range []bool{false, true} {
			for _, combo := range combos {
				idx++
				if !c.Mine(idx) {
					continue
				}
				checkCancelPoints(c, p, nodes, pdv.p, pdv.d, useNum, combo)
			}
		}
	}
	c.SetExhaustive("every cancellation point k=0..K of every pool case x 5 entry points x silent x 2 causes x 2 decodings")
	c.Sample("pool", map[string]string{"path": c20Pool[20].p, "doc": c20Pool[20].d})
	c.Sample("pool", map[string]string{"path": c20Pool[24].p, "doc": c20Pool[24].d})
	// generated pairs
	r := c.Rand("c20-gen")
	g := &gen.G{R: r, C: gen.DefaultCfg()}
	g.C.Datetime = true
	g.C.HardErrs = false
	dc := gen.DefaultDocCfg()
	n := c.PerShard(c.N(600000, 6000000))
	for i := 0; i < n; i++ {
		ap := g.Path()
		txt := gen.Spell(ap, nil)
		p, err, pan := h.ParseSafe(txt)
		if err != nil || pan != "" {
			c.Count("gen.unparsable", 1)
			continue
		}
		d := gen.Doc(r, dc)
		combo := combos[r.IntN(len(combos))]
		checkCancelPoints(c, p, ap.Root.Count(), txt, d, r.IntN(2) == 0, combo)
		if i == 0 {
			c.Sample("generated", map[string]string{"path": txt, "doc": d})
		}
	}
}
