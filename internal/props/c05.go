package props

import (
	"context"
	"encoding/json"
	"fmt"
	"math"
	"strings"

	"github.com/theory/sqljson/path"
	"github.com/theory/sqljson/path/types"

	"verif/internal/h"
)

func init() {
	register(&Prop{
		ID:    "C05",
		Level: "exploration",
		Rule: "operand-type matrix: every binary operator, unary operator, predicate and method applied to every pair/single from a kind corpus (null, booleans, float64, each json.Number class incl. 1e400/-1e400/1e-400/40-digit integers/-0, string classes, empty/non-empty arrays and objects, each datetime type obtained through .datetime()) passed as variables, both modes, silent and verbose, with and without WithTZ, through all five entry points; " +
			"the generic random (path, document, options) workload through all five entry points; deep (2000+ levels) and long (10^5 elements) documents. On every call: recover(), error taxonomy, deep before/after comparison of document and variables, finiteness and sub-value membership of results. " +
			"Non-trivial: the call returns an error or a non-empty result; distinct by (path, values, options, entry point)",
		Run:          runC05,
		Replay:       replayC05,
		MinExercised: map[string]int64{"panic": 100000, "class": 100000, "invalid": 100000, "input-mutated": 50000, "vars-mutated": 50000, "nonfinite": 20000, "foreign-container": 5000, "null-misuse": 50000},
		Assumptions: []string{
			"sub-value membership is by canonical value (a correct implementation that copies a container is not flagged)",
			"values passed are of the documented Go types (nil, bool, float64, json.Number, string, []any, map[string]any)",
		},
	})
}

// subValueSet collects the canonical form of every container inside v.
func subValueSet(v any, set map[string]bool) {
	switch x := v.(type) {
	case []any:
		set[h.Canon(x)] = true
		for _, e := range x {
			subValueSet(e, set)
		}
	case map[string]any:
		set[h.Canon(x)] = true
		for _, e := range x {
			subValueSet(e, set)
		}
	}
}

func isTriple(m map[string]any) bool {
	if len(m) != 3 {
		return false
	}
	_, a := m["id"].(int64)
	_, b := m["key"].(string)
	_, cc := m["value"]
	return a && b && cc
}

// universal applies the C05 monitors to one call.
func universal(c *h.Ctx, entry string, p *path.Path, ptxt string, doc any, opts h.Opts, cs h.Case, subvals map[string]bool) *h.Out {
	var beforeDoc, beforeVars string
	snapshot := subvals != nil
	if snapshot {
		beforeDoc = h.CanonTyped(doc)
		beforeVars = h.CanonTyped(map[string]any(opts.Vars))
	}
	o := h.Call(entry, p, doc, opts)
	c.Eval(1)
	cs.Entry = entry
	feat := func(kv ...string) map[string]string {
		return h.F(append([]string{"entry", entry}, kv...)...)
	}
	if o.Class != h.OK || len(o.Items) > 0 || o.Val != nil || o.Bool {
		c.Distinct(ptxt, cs.Doc, cs.Vars, fmt.Sprint(opts.Silent, opts.TZ), entry)
	}
	// panic
	if o.Class == h.Panic {
		site := o.Panic
		if len(site) > 60 {
			site = site[:60]
		}
		c.Violate("panic", feat("site", stackSite(o.Stack)), fmt.Sprintf("%s(%s) panicked: %s", entry, ptxt, o.Panic), cs)
		return o
	}
	c.Held("panic")
	// error taxonomy
	switch o.Class {
	case h.Other:
		c.Violate("class", feat("kind", "not-ErrExecution"), fmt.Sprintf("%s(%s) returned an error that wraps neither ErrExecution nor is NULL: %v", entry, ptxt, o.Err), cs)
	case h.Null:
		if entry == "query" || entry == "first" {
			c.Violate("null-misuse", feat(), fmt.Sprintf("%s(%s) returned NULL", entry, ptxt), cs)
		} else {
			c.Held("null-misuse")
		}
		c.Held("class")
	default:
		c.Held("class")
		c.Held("null-misuse")
	}
	if o.Class == h.Invalid {
		cause := "unexplained"
		if strings.Contains(o.ErrText(), "unrecognized SQL/JSON datetime type") {
			cause = "datetime-vs-other-invalid"
		}
		c.Violate("invalid", feat("cause", cause), fmt.Sprintf("%s(%s) returned ErrInvalid for a parser-produced path: %v", entry, ptxt, o.Err), cs)
	} else {
		c.Held("invalid")
	}
	// purity
	if snapshot {
		if h.CanonTyped(doc) != beforeDoc {
			c.Violate("input-mutated", feat(), fmt.Sprintf("%s(%s) modified the queried value", entry, ptxt), cs)
		} else {
			c.Held("input-mutated")
		}
		if h.CanonTyped(map[string]any(opts.Vars)) != beforeVars {
			c.Violate("vars-mutated", feat(), fmt.Sprintf("%s(%s) modified the variables map", entry, ptxt), cs)
		} else {
			c.Held("vars-mutated")
		}
	}
	// results: finite numbers, containers are sub-values
	var items []any
	switch entry {
	case "query":
		items = o.Items
	case "first":
		if o.Class == h.OK {
			items = []any{o.Val}
		}
	}
	for _, it := range items {
		if bad := nonFinite(it); bad != "" {
			c.Violate("nonfinite", feat("kind", bad), fmt.Sprintf("%s(%s) returned %s", entry, ptxt, o.Summary()), cs)
		} else {
			c.Held("nonfinite")
		}
		if snapshot {
			checkForeign(c, it, subvals, feat, entry, ptxt, o, cs)
		}
	}
	return o
}

func stackSite(stack string) string {
	for _, ln := range strings.Split(stack, "\n") {
		if strings.Contains(ln, "github.com/theory/sqljson/path") && strings.Contains(ln, "(") && !strings.Contains(ln, "Path).") {
			ln = strings.TrimSpace(ln)
			if i := strings.Index(ln, "("); i > 0 {
				ln = ln[:i]
			}
			return strings.TrimPrefix(ln, "github.com/theory/sqljson/")
		}
	}
	return "?"
}

func nonFinite(v any) string {
	switch x := v.(type) {
	case float64:
		if math.IsNaN(x) {
			return "NaN"
		}
		if math.IsInf(x, 0) {
			return "Inf"
		}
	case []any:
		for _, e := range x {
			if b := nonFinite(e); b != "" {
				return b
			}
		}
	case map[string]any:
		for _, e := range x {
			if b := nonFinite(e); b != "" {
				return b
			}
		}
	}
	return ""
}

func checkForeign(c *h.Ctx, it any, subvals map[string]bool, feat func(...string) map[string]string, entry, ptxt string, o *h.Out, cs h.Case) {
	switch x := it.(type) {
	case map[string]any:
		if isTriple(x) {
			// value of a triple must itself be a sub-value (or a triple, for nested keyvalue)
			switch v := x["value"].(type) {
			case []any, map[string]any:
				if m, ok := v.(map[string]any); ok && isTriple(m) {
					return
				}
				if !subvals[h.Canon(v)] {
					c.Violate("foreign-container", feat("kind", "triple-value"), fmt.Sprintf("%s(%s) returned a keyvalue triple whose value %s is not a sub-value of the input", entry, ptxt, h.Canon(v)), cs)
					return
				}
			}
			c.Held("foreign-container")
			return
		}
		if !subvals[h.Canon(x)] {
			c.Violate("foreign-container", feat("kind", "object"), fmt.Sprintf("%s(%s) returned an object %s that is not a sub-value of the input or of a variable", entry, ptxt, h.Canon(x)), cs)
		} else {
			c.Held("foreign-container")
		}
	case []any:
		if !subvals[h.Canon(x)] {
			c.Violate("foreign-container", feat("kind", "array"), fmt.Sprintf("%s(%s) returned an array %s that is not a sub-value of the input or of a variable", entry, ptxt, h.Canon(x)), cs)
		} else {
			c.Held("foreign-container")
		}
	}
}

type kindVal struct {
	name string
	v    any
	dt   bool // apply .datetime() to obtain a datetime item
}

func c05Kinds() []kindVal {
	return []kindVal{
		{"null", nil, false}, {"true", true, false}, {"false", false, false},
		{"f:1", 1.0, false}, {"f:1.5", 1.5, false}, {"f:-0", math.Copysign(0, -1), false}, {"f:1e308", 1e308, false}, {"f:2^63", 9223372036854775808.0, false},
		{"n:1", json.Number("1"), false}, {"n:1.5", json.Number("1.5"), false}, {"n:1e400", json.Number("1e400"), false}, {"n:-1e400", json.Number("-1e400"), false}, {"n:1e-400", json.Number("1e-400"), false},
		{"n:40digits", json.Number("1234567890123456789012345678901234567890"), false}, {"n:-0", json.Number("-0"), false}, {"n:maxint", json.Number("9223372036854775807"), false}, {"n:minint", json.Number("-9223372036854775808"), false},
		// outside the float64 range by sheer length (no exponent), and tiny with many digits
		{"n:400digits", json.Number("1" + strings.Repeat("0", 400)), false}, {"n:-400digits", json.Number("-" + strings.Repeat("9", 400)), false},
		{"n:400digits.0", json.Number(strings.Repeat("9", 400) + ".0"), false}, {"n:309digits", json.Number("2" + strings.Repeat("0", 308)), false},
		{"n:10", json.Number("10"), false}, {"n:1e308", json.Number("1e308"), false}, {"n:1e-320", json.Number("1e-320"), false}, {"n:-1.7e308", json.Number("-1.7e308"), false},
		{"n:tiny400", json.Number("0." + strings.Repeat("0", 400) + "1"), false}, {"n:1E+400", json.Number("1E+400"), false}, {"n:-1.5e999", json.Number("-1.5e999"), false},
		// exponents at the edge of what arbitrary-precision parsers take
		{"n:1e999999999", json.Number("1e999999999"), false}, {"n:-2.5E+1000000000", json.Number("-2.5E+1000000000"), false}, {"n:1e2147483647", json.Number("1e2147483647"), false}, {"n:1e-999999999", json.Number("1e-999999999"), false}, {"n:1e99999999999", json.Number("1e99999999999"), false},
		{"s:empty", "", false}, {"s:a", "a", false}, {"s:1", "1", false}, {"s:true", "true", false}, {"s:1e400", "1e400", false}, {"s:nan", "NaN", false}, {"s:+inf", "+inf", false}, {"s:+Infinity", "+Infinity", false}, {"s:-Inf", "-Inf", false}, {"s:inf", "inf", false}, {"s:+nan", "+nan", false},
		{"s:1e999", "1e999", false}, {"s:hexfloat", "0x1p1023", false}, {"s:-1e999", "-1e999", false}, {"s:infinity", "infinity", false},
		{"arr:empty", []any{}, false}, {"arr:1a", []any{1.0, "a"}, false}, {"arr:nested", []any{[]any{1.0}, map[string]any{"a": nil}}, false},
		{"arr:20strings", func() any {
			var a []any
			for i := 0; i < 20; i++ {
				a = append(a, fmt.Sprintf("s%d", i))
			}
			return a
		}(), false},
		{"arr:20mixed", func() any {
			var a []any
			for i := 0; i < 20; i++ {
				a = append(a, []any{fmt.Sprintf("s%d", i), i%2 == 0, float64(i), nil}[i%4])
			}
			return a
		}(), false},
		{"arr:containers", []any{map[string]any{"a": 1.0}, []any{"s1"}, "s3", true, []any{[]any{1.0}}}, false},
		{"obj:empty", map[string]any{}, false}, {"obj:a", map[string]any{"a": 1.0, "b": []any{2.0}}, false},
		{"date", "2023-08-15", true}, {"time", "12:34:56", true}, {"timetz", "12:34:56+01:00", true}, {"timestamp", "2023-08-15T12:34:56", true}, {"timestamptz", "2023-08-15T12:34:56+01:00", true},
	}
}

func kindJSON(v any) string {
	switch x := v.(type) {
	case json.Number:
		return string(x)
	case float64:
		if x == 0 && math.Signbit(x) {
			return "-0.0"
		}
	}
	b, err := json.Marshal(v)
	if err != nil {
		return fmt.Sprint(v)
	}
	return string(b)
}

var c05Binary = []string{"+", "-", "*", "/", "%", "==", "!=", "<", "<=", ">", ">=", "starts with", "&&cmp", "||cmp"}
var c05Methods = []string{"type()", "size()", "double()", "number()", "decimal()", "decimal(5,2)", "decimal(1000,1000)", "decimal(1,-1000)", "integer()", "bigint()", "boolean()", "string()", "abs()", "floor()", "ceiling()", "keyvalue()",
	"datetime()", "date()", "time()", "time(3)", "time_tz()", "timestamp()", "timestamp_tz()", "timestamp_tz(0)"}

// like_regex patterns that are hostile to whatever turns a pattern into a Go
// regular expression: under the q flag every string is a valid pattern.
var c05QPatterns = []string{`a\E(`, `\E`, `\Q`, `\Qa\E(`, `a\Eb`, `(`, `[a`, `*`, `a{2,1}`, `\`, `\E\E[`, `(?i`, `100%`, `a\E\Q(`, `\E|(`, `.`, ``}

// datetime texts at and beyond the edges of what the documentation describes
// (time.Parse takes zone offsets of up to 24 hours; years 0..9999)
var c05HostileTimes = []string{"12:00:00+16", "12:00:00-16:00", "12:00:00+23:59", "12:00:00+24", "12:00:00-24:00", "12:00:00+15:59", "2024-02-29 10:00:00-20:00", "2024-02-29T10:00:00+18",
	"2024-02-29T23:59:59.999999999-23:59", "0001-01-01", "9999-12-31", "9999-12-31T23:59:59.999999999-00:01", "0000-01-01", "0000-01-01T00:00:00+15:59", "0001-01-01T00:00:00+15:59", "24:00:00", "23:59:60", "2024-02-30",
	"12:00:00+1", "12:00:00+0:30", "12:00:00Z", "12:00:00+00:00:30", "10000-01-01", "12:00:00-00:00", "2024-01-01T00:00:00.0000000001Z", "00:00:00+17:30", "9999-12-31 23:59:59+24:00", "0000-01-01 00:00:00-24"}

func operandExprK(k kindVal, name string) string {
	if k.dt {
		return "$" + name + ".datetime()"
	}
	return "$" + name
}

func runMatrixCase(c *h.Ctx, ptxt string, vars map[string]any, varsText string) {
	doc := map[string]any{"a": []any{1.0, nil, "x"}, "b": map[string]any{"c": 2.0}}
	subvals := map[string]bool{}
	subValueSet(doc, subvals)
	for _, v := range vars {
		subValueSet(v, subvals)
	}
	for _, mode := range []string{"", "strict "} {
		p := cachedPath(mode + ptxt)
		if p == nil {
			c.Count("gen.unparsable", 1)
			return
		}
		for _, silent := range []bool{false, true} {
			for _, tz := range []bool{false, true} {
				opts := h.Opts{Vars: vars, Silent: silent, TZ: tz}
				cs := h.Case{Kind: "matrix", Path: mode + ptxt, Doc: `{"a":[1,null,"x"],"b":{"c":2}}`, Vars: varsText, Silent: silent, TZ: tz}
				for _, e := range h.Entries {
					c.Journal(cs.Path + " " + varsText)
					universal(c, e, p, mode+ptxt, doc, opts, cs, subvals)
				}
			}
		}
	}
}

func replayC05(c *h.Ctx, cs h.Case) {
	p, err, pan := h.ParseSafe(cs.Path)
	if err != nil || pan != "" {
		c.Note("replay: path does not parse")
		return
	}
	var vars map[string]any
	if cs.Vars != "" {
		vars = h.DecodeVars(cs.Vars, true)
		// floats were given as float64 in the matrix: decode number-looking values both ways
	}
	doc := h.Decode(orDefault(cs.Doc, "null"), cs.UseNum)
	if cs.Kind == "shared" {
		doc, vars = c05SharedDoc(cs.Extra["doc"])
	}
	if cs.Kind == "static" {
		doc, vars = any(c05StaticDoc), map[string]any{"s": c05StaticVar}
	}
	subvals := map[string]bool{}
	subValueSet(doc, subvals)
	for _, v := range vars {
		subValueSet(v, subvals)
	}
	for _, useFloat := range []bool{false, true} {
		if useFloat && cs.Vars != "" {
			func() {
				defer func() { _ = recover() }()
				vars = h.DecodeVars(cs.Vars, false)
			}()
		}
		for _, e := range h.Entries {
			universal(c, e, p, cs.Path, doc, h.Opts{Vars: vars, Silent: cs.Silent, TZ: cs.TZ, Zone: h.ParseZone(cs.Zone)}, cs, subvals)
		}
	}
}

// c05StaticDoc, c05StaticVar: values written as package-level composite literals.
var c05StaticDoc = []any{
	map[string]any{"a": 1.0, "b": "x", "o": map[string]any{"k": true}},
	map[string]any{"c": nil, "o": map[string]any{"m": 2.5, "n": []any{1.0}}},
	[]any{map[string]any{"d": "y"}, map[string]any{"e": 3.0, "f": 4.0}},
}

var c05StaticVar = []any{map[string]any{"p": 1.0, "q": 2.0}, []any{map[string]any{"r": "z"}}}

var c05SharedNames = []string{"people", "table", "rows", "var-and-doc", "tree"}

var c05SharedPaths = []string{"$.**", "$.**{2 to last}", "$.**{1 to 3}", "$.**{last}", `$.** ? (@.city == "x")`, "$.**.city", "$.**.keyvalue()", "$.*.**", "$[*].**", "$.**[*]", "$.** == 1", "exists($.**.zip)", "$x.**", "$x.**{2 to last}.city", "$.**{1 to 2}.**{1 to 2}", "$.** ? (exists(@.** ? (@ == 1)))", "$.**.type()", "$.**.size()", "-$.**.zip", `$.** like_regex "^x"`, "($.** == $x.**)", "$.**{0 to last}.*"}

// c05SharedDoc builds, by name, a value with shared sub-values and the
// variables that go with it.
func c05SharedDoc(name string) (any, map[string]any) {
	addr := map[string]any{"city": "x", "zip": 1.0, "geo": []any{1.0, 2.0}}
	row := []any{1.0, map[string]any{"city": "x"}, []any{2.0, 3.0}, "x"}
	switch name {
	case "people":
		return map[string]any{"home": addr, "work": addr, "all": []any{addr, addr}, "n": map[string]any{"deep": addr}}, map[string]any{"x": []any{addr, addr}}
	case "table":
		return []any{row, row[:2], row[1:3], row}, map[string]any{"x": row[:3]}
	case "rows":
		inner := []any{addr, row}
		return map[string]any{"a": inner, "b": inner, "c": []any{inner, inner}}, map[string]any{"x": map[string]any{"p": inner, "q": inner}}
	case "var-and-doc":
		return map[string]any{"a": addr, "b": []any{row}}, map[string]any{"x": map[string]any{"a": addr, "r": row, "again": addr}}
	}
	// the control: the same shape without any sharing
	a2 := map[string]any{"city": "x", "zip": 1.0, "geo": []any{1.0, 2.0}}
	return map[string]any{"home": addr, "work": a2}, map[string]any{"x": []any{map[string]any{"city": "x"}}}
}

func orDefault(s, d string) string {
	if s == "" {
		return d
	}
	return s
}

func runC05(c *h.Ctx) {
	kinds := c05Kinds()
	idx := 0
	// (a) operand-type matrix
	for _, x := range kinds {
		for _, y := range kinds {
			idx++
			if !c.Mine(idx) {
				continue
			}
			vars := map[string]any{"x": x.v, "y": y.v}
			vt := fmt.Sprintf(`{"x":%s,"y":%s}`, kindJSON(x.v), kindJSON(y.v))
			xe, ye := operandExprK(x, "x"), operandExprK(y, "y")
			for _, op := range c05Binary {
				switch op {
				case "&&cmp":
					runMatrixCase(c, xe+" == "+ye+" && "+ye+" > "+xe, vars, vt)
				case "||cmp":
					runMatrixCase(c, xe+" < "+ye+" || !("+ye+" == "+xe+")", vars, vt)
				case "starts with":
					runMatrixCase(c, xe+" starts with $y", vars, vt)
				default:
					runMatrixCase(c, xe+" "+op+" "+ye, vars, vt)
					if op == "==" {
						runMatrixCase(c, "$.a[*] ? (@ "+op+" "+ye+" || "+xe+" "+op+" @)", vars, vt)
					}
				}
			}
			runMatrixCase(c, "$.a["+xe+" to "+ye+"]", vars, vt)
			runMatrixCase(c, "("+xe+" == "+ye+") is unknown", vars, vt)
		}
		// unary, methods, subscripts
		idx++
		if !c.Mine(idx) {
			continue
		}
		vars := map[string]any{"x": x.v}
		vt := fmt.Sprintf(`{"x":%s}`, kindJSON(x.v))
		xe := operandExprK(x, "x")
		for _, u := range []string{"-", "+"} {
			runMatrixCase(c, u+xe, vars, vt)
			runMatrixCase(c, "exists("+u+xe+")", vars, vt)
		}
		for _, m := range c05Methods {
			runMatrixCase(c, xe+"."+m, vars, vt)
			runMatrixCase(c, xe+"."+m+".type()", vars, vt)
		}
		for _, form := range []string{"$.a[%s]", "%s[0]", "%s[*]", "%s.*", "%s.**", "%s.**{last}", "%s.a", `%s like_regex "a"`, `%s like_regex "" flag "q"`, "%s ? (@ == 1)", "%s ? (exists(@.a))", "exists(%s)", "!(%s == 1)", "%s.keyvalue().value", "%s.keyvalue().keyvalue().id", "%s.size().size()",
			// a predicate in parentheses with steps after it
			`(%s like_regex "a").type()`, `(%s like_regex "^a" flag "i").string()`, "(%s == 1).type()", "(exists(%s)).string()", "(!(%s == 1)).type()", "((%s == 1) is unknown).string()", `(%s starts with "a").type()`,
			`$.a[*] ? ((@ like_regex "a").type() == "boolean" || (%s == @).string() == "true")`, `$.a[(%s like_regex "1").string().size()]`} {
			runMatrixCase(c, fmt.Sprintf(form, xe), vars, vt)
		}
	}
	// (a2) like_regex: hostile patterns x flag sets x operand kinds
	for i, pat := range c05QPatterns {
		for j, fl := range []string{"q", "iq", "qs", "mq", "qi", "", "i", "s"} {
			if !c.Mine(i*8 + j) {
				continue
			}
			ptxt := "$x like_regex " + quoteForPath(pat)
			if fl != "" {
				ptxt += ` flag "` + fl + `"`
			}
			if cachedPath(ptxt) == nil {
				continue // as a regular expression the pattern is rejected by Parse
			}
			for _, xv := range []any{pat, "a" + pat + "z", "", "a", 1.0, nil, []any{pat, "x", 2.0}, map[string]any{"a": pat}} {
				vars := map[string]any{"x": xv}
				vt := fmt.Sprintf(`{"x":%s}`, kindJSON(xv))
				runMatrixCase(c, ptxt, vars, vt)
				runMatrixCase(c, "$x[*] ? (@ like_regex "+quoteForPath(pat)+` flag "q")`, vars, vt)
			}
		}
	}
	// (a2b) many like_regex conditions in one evaluation (all of them reached)
	for n := 1; n <= 12; n++ {
		if !c.Mine(n) {
			continue
		}
		var or, and, ex []string
		for i := 0; i < n; i++ {
			or = append(or, fmt.Sprintf(`@ like_regex "^z%d"`, i))
			and = append(and, fmt.Sprintf(`@ like_regex "a" flag "%s"`, []string{"", "i", "s", "m", "q", "iq"}[i%6]))
			ex = append(ex, fmt.Sprintf(`exists($x[*] ? (@ like_regex "b%d|a"))`, i))
		}
		vars := map[string]any{"x": []any{"abc", "xyz", "a"}}
		vt := `{"x":["abc","xyz","a"]}`
		runMatrixCase(c, "$x[*] ? ("+strings.Join(or, " || ")+")", vars, vt)
		runMatrixCase(c, "$x[*] ? ("+strings.Join(and, " && ")+")", vars, vt)
		runMatrixCase(c, strings.Join(ex, " && "), vars, vt)
	}
	// (a2c) .decimal(p,s) of numbers next to the largest double, with scales that
	// round them up to a multiple of a large power of ten
	{
		k := 0
		for _, xv := range []any{math.MaxFloat64, -math.MaxFloat64, json.Number("1.7976931348623157e308"), "1.7976931348623157e308", 1.75e308, json.Number("-1.79e308"), 9.99e307, json.Number("1e308")} {
			for _, args := range []string{"1000,-308", "5,-304", "400,-306", "1000,-300", "10,-308", "310,-1", "1000,-307", "309,-308", "1,-308", "1000,-1000"} {
				k++
				if !c.Mine(k) {
					continue
				}
				vars := map[string]any{"x": xv}
				vt := fmt.Sprintf(`{"x":%s}`, kindJSON(xv))
				runMatrixCase(c, "$x.decimal("+args+")", vars, vt)
				runMatrixCase(c, "$x.decimal("+args+").type()", vars, vt)
				runMatrixCase(c, "-$x.decimal("+args+")", vars, vt)
			}
		}
	}
	// (a3) datetime texts at the edges: every datetime method, printing, and
	// comparison of every pair
	for i, x := range c05HostileTimes {
		for j, y := range c05HostileTimes {
			if !c.Mine(i*len(c05HostileTimes) + j) {
				continue
			}
			vars := map[string]any{"x": x, "y": y}
			vt := fmt.Sprintf(`{"x":%q,"y":%q}`, x, y)
			if j == 0 {
				for _, m := range c05Methods[16:] {
					runMatrixCase(c, "$x."+m, vars, vt)
					runMatrixCase(c, "$x."+m+".string()", vars, vt)
					runMatrixCase(c, "$x."+m+".type()", vars, vt)
					runMatrixCase(c, "$x.datetime()."+m, vars, vt)
				}
			}
			for _, op := range []string{"==", "<", ">="} {
				runMatrixCase(c, "$x.datetime() "+op+" $y.datetime()", vars, vt)
			}
			runMatrixCase(c, "$x.time_tz() <= $y.timestamp_tz()", vars, vt)
			runMatrixCase(c, "$x.timestamp_tz().date() != $y.timestamp().time_tz()", vars, vt)
		}
	}
	// (a4) every prefix and every suffix of well-formed datetime texts, and a
	// few with their separators doubled or dangling, through every datetime method
	{
		var cut []string
		for _, full := range []string{"2024-04-29T10:00:00.123456789+05:30", "12:34:56.5-08", "2024-04-29 10:00:00Z", "23:59:59+00:00:30"} {
			for k := 0; k <= len(full); k++ {
				cut = append(cut, full[:k], full[k:])
			}
		}
		cut = append(cut, "a:-", ":+", ":", "12:00:00+:", "12:00:00+1:", "12:00:00 +", "12:00:00Z+", "12:00:00++01", "12::00", "--", "2024--01", "T", "TZ", "+:", "-:-", "12:00:00.", "12:00:00.+01", "2024-04-29T", "2024-04-29T+01")
		for i, x := range cut {
			if !c.Mine(i) {
				continue
			}
			vars := map[string]any{"x": x}
			vt := fmt.Sprintf(`{"x":%q}`, x)
			for _, m := range c05Methods[16:] {
				runMatrixCase(c, "$x."+m, vars, vt)
			}
			runMatrixCase(c, "$x.datetime() == $x.datetime()", vars, vt)
		}
	}
	c.SetExhaustive(fmt.Sprintf("%d value kinds squared x %d binary forms + unary/method/accessor forms x lax/strict x silent x WithTZ x 5 entry points", len(kinds), len(c05Binary)+3))
	c.Sample("matrix", map[string]any{"path": "$x.datetime() == $y", "vars": `{"x":"2023-08-15","y":1e400 (json.Number)}`})

	// (b) the generic random workload through all five entry points
	eg := NewExecGen(c.Rand("c05"))
	eg.G.C.Datetime = true
	eg.G.C.QPatterns = c05QPatterns
	eg.DC.Strs = append(append([]string{}, eg.DC.Strs...), c05HostileTimes...)
	eg.DC.Strs = append(eg.DC.Strs, c05QPatterns[:6]...)
	n := c.PerShard(c.N(400000, 4000000))
	for i := 0; i < n; i++ {
		ec := eg.Next()
		if ec.TZ && i%8 == 0 {
			// a session zone at the edge of what a fixed zone can be
			ec.Zone = []string{"+16:00", "-23:59", "+24:00", "-18:30"}[i/8%4]
		}
		doc := ec.DocValue()
		if i%2 == 1 {
			// arrays cut out of one backing array, with spare capacity
			doc = h.SpareCap(doc)
		}
		opts := ec.Opts()
		subvals := map[string]bool{}
		subValueSet(doc, subvals)
		for _, v := range opts.Vars {
			subValueSet(v, subvals)
		}
		for _, e := range h.Entries {
			universal(c, e, ec.P, ec.Text, doc, opts, ec.Case(), subvals)
		}
		if i%4 == 3 {
			// nothing of a call outlives it: the same Path called next without
			// any option answers as a freshly parsed copy that has never been
			// called does (no variables, no WithTZ, no WithSilent left over)
			orderOpen := (exposesOrder(ec.Abs) || strings.Contains(ec.Text, "keyvalue")) && (hasMultiMemberObject(doc) || varsHaveMultiMember(opts.Vars) || strings.Contains(ec.Text, "keyvalue"))
			if fresh, err, pan := h.ParseSafe(ec.Text); err == nil && pan == "" && !orderOpen {
				e := h.Entries[(i/4)%len(h.Entries)]
				used := h.Call(e, ec.P, doc, h.Opts{})
				clean := h.Call(e, fresh, doc, h.Opts{})
				c.Eval(2)
				same := used.Class == clean.Class && used.Bool == clean.Bool && (used.Class == h.OK || used.ErrText() == clean.ErrText())
				if used.Class == h.OK && clean.Class == h.OK && !exposesOrder(ec.Abs) && !strings.Contains(ec.Text, "keyvalue") {
					same = same && h.CanonListTyped(used.Items) == h.CanonListTyped(clean.Items) && h.CanonTyped(used.Val) == h.CanonTyped(clean.Val)
				}
				if used.Class != h.Panic && clean.Class != h.Panic && !same {
					ccs := ec.Case()
					ccs.Vars, ccs.Silent, ccs.TZ, ccs.Zone, ccs.Entry = "", false, false, "", e
					c.Violate("context", h.F("kind", "left-over-of-an-earlier-call", "entry", e), fmt.Sprintf("%s(%s) without options, on a Path that was called with options before: %s; on a freshly parsed copy: %s", e, ec.Text, used.Summary(), clean.Summary()), ccs)
				} else {
					c.Held("context")
				}
			}
		}
		if i == 0 {
			c.Sample("random", map[string]any{"path": ec.Text, "doc": ec.Doc})
		}
	}

	// (b2) classification of what a cancellation turns into, when the context
	// becomes done between two polls - in particular after the last poll of the
	// operands of a predicate over thousands of item pairs
	{
		var a, b []string
		for i := 0; i < 40; i++ {
			a = append(a, fmt.Sprint(i))
			b = append(b, fmt.Sprint(100+i))
		}
		bigDoc := fmt.Sprintf(`{"a":[%s],"b":[%s],"t":["12:00:00","13:00:00"],"z":"12:00:00+01"}`, strings.Join(a, ","), strings.Join(b, ","))
		k := 0
		for _, pt := range []string{"$.a[*] == $.b[*]", "$ ? (@.a[*] < @.b[*] && @.a[*] == @.b[*])", "strict ($.a[*] == $.b[*]) is unknown", "$.a[*] ? (@ == $.b[*])", "$.t[*].time() < $.z.time_tz()", "exists($.a[*] ? (@ >= $.b[*]))"} {
			p := cachedPath(pt)
			for _, entry := range h.Entries {
				for _, silent := range []bool{false, true} {
					k++
					if p == nil || !c.Mine(k) {
						continue
					}
					opts := h.Opts{Silent: silent, TZ: true, Zone: h.ParseZone("+05:30")}
					base := h.Call(entry, p, h.Decode(bigDoc, false), opts)
					for n := 1; n <= base.Polls; n++ {
						for _, cause := range []error{context.Canceled, context.DeadlineExceeded} {
							m := &h.CallMon{CancelAt: -1, CancelAfterPoll: n, Cause: cause}
							o := h.CallMonitored(entry, p, h.Decode(bigDoc, n%2 == 0), opts, m)
							c.Eval(1)
							cs := h.Case{Kind: "cancel-class", Path: pt, Doc: bigDoc, Entry: entry, Silent: silent, TZ: true, Zone: "+05:30", Extra: map[string]string{"after-poll": fmt.Sprint(n)}}
							switch o.Class {
							case h.Panic:
								c.Violate("panic", h.F("entry", entry, "site", stackSite(o.Stack)), fmt.Sprintf("%s(%s), context done after poll %d: panic %s", entry, pt, n, o.Panic), cs)
							case h.Invalid:
								c.Violate("invalid", h.F("entry", entry, "when", "context-done-between-polls"), fmt.Sprintf("%s(%s), context done after poll %d of %d: %q is exec.ErrInvalid", entry, pt, n, base.Polls, o.Err), cs)
							case h.Other:
								c.Violate("class", h.F("entry", entry, "kind", "not-ErrExecution", "when", "context-done-between-polls"), fmt.Sprintf("%s(%s), context done after poll %d of %d: error %q wraps neither ErrExecution nor is NULL", entry, pt, n, base.Polls, o.Err), cs)
							default:
								c.Held("class")
							}
						}
					}
				}
			}
		}
	}
	// (b3) values in which one container is a member of two containers (the
	// same map under two keys, the same array twice in an array, two slices of
	// one backing array): ordinary values of the documented types, which
	// json.Unmarshal never produces
	{
		k := 0
		for _, name := range c05SharedNames {
			doc, vars := c05SharedDoc(name)
			subvals := map[string]bool{}
			subValueSet(doc, subvals)
			for _, v := range vars {
				subValueSet(v, subvals)
			}
			for _, pt := range c05SharedPaths {
				for _, mode := range []string{"", "strict "} {
					k++
					if !c.Mine(k) {
						continue
					}
					p := cachedPath(mode + pt)
					if p == nil {
						c.Count("gen.unparsable", 1)
						continue
					}
					for _, silent := range []bool{false, true} {
						cs := h.Case{Kind: "shared", Path: mode + pt, Silent: silent, Extra: map[string]string{"doc": name}}
						for _, e := range h.Entries {
							c.Journal("shared " + name + " " + cs.Path)
							universal(c, e, p, mode+pt, doc, h.Opts{Vars: vars, Silent: silent}, cs, subvals)
						}
					}
				}
			}
		}
	}
	// (b4) a document that is a package-level composite literal: its arrays lie
	// in the program's data segment, its maps on the heap, far apart
	{
		k := 0
		subvals := map[string]bool{}
		subValueSet(c05StaticDoc, subvals)
		for _, pt := range []string{"$[*].keyvalue()", "$[*].keyvalue().id", "$[0].keyvalue().value", "$[*].o.keyvalue().key", "$[2][*].keyvalue()", "strict $[*].keyvalue().id", "$.**.keyvalue().id", "$[*] ? (@.keyvalue().id > 0)", "$[*].keyvalue().value.keyvalue()", "$s[*].keyvalue().id", "$s[1][*].keyvalue().key"} {
			k++
			if !c.Mine(k) {
				continue
			}
			p := cachedPath(pt)
			if p == nil {
				c.Count("gen.unparsable", 1)
				continue
			}
			for _, silent := range []bool{false, true} {
				for _, e := range h.Entries {
					c.Journal("static document " + pt)
					universal(c, e, p, pt, any(c05StaticDoc), h.Opts{Silent: silent, Vars: map[string]any{"s": c05StaticVar}}, h.Case{Kind: "static", Path: pt, Silent: silent}, subvals)
				}
			}
		}
	}
	// (c) deep and long documents (own journal entries: a fatal stack overflow kills the worker)
	depths := []int{2000, 10050}
	if c.Thorough() {
		depths = append(depths, 20000)
	}
	long := 100000
	for di, d := range depths {
		if !c.Mine(di) {
			continue
		}
		var deepArr any = 1.0
		var deepObj any = 1.0
		for i := 0; i < d; i++ {
			deepArr = []any{deepArr}
			deepObj = map[string]any{"a": deepObj}
		}
		for _, pt := range []string{"$.**", "strict $.**", "$.** ? (@ == 1)", "$.**.a", "$.**{last}", "$.**.type()", "-$.**", "$.**.keyvalue()", "$.** == 1", "exists($.** ? (@ > 0))", "$.**.size()"} {
			p := cachedPath(pt)
			for _, doc := range []any{deepArr, deepObj} {
				for _, e := range []string{"query", "exists"} {
					c.Journal(fmt.Sprintf("deep document depth=%d path=%s", d, pt))
					universal(c, e, p, pt, doc, h.Opts{Silent: true}, h.Case{Kind: "deep", Path: pt, Extra: map[string]string{"depth": fmt.Sprint(d)}}, nil)
				}
			}
		}
	}
	if c.Mine(7) {
		arr := make([]any, long)
		for i := range arr {
			arr[i] = float64(i % 7)
		}
		for _, pt := range []string{"$[*] ? (@ > 1)", "$[0 to last]", "-$[*]", "$.size()", "$[*] == 3", "$[last]", "$[*].type()", "strict $[*] < 10", "$.**{1}", "$[*] ? (@ == $[0])"} {
			p := cachedPath(pt)
			if pt == "$[*] ? (@ == $[0])" {
				arr2 := arr[:2000] // quadratic
				universal(c, "query", p, pt, arr2, h.Opts{}, h.Case{Kind: "long", Path: pt}, nil)
				continue
			}
			for _, e := range []string{"query", "first", "exists"} {
				c.Journal("long array path=" + pt)
				universal(c, e, p, pt, arr, h.Opts{}, h.Case{Kind: "long", Path: pt, Extra: map[string]string{"len": fmt.Sprint(long)}}, nil)
			}
		}
	}
	_ = types.ErrSQLType
}
