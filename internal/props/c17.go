package props

import (
	"fmt"
	"strings"

	"verif/internal/h"
	"verif/internal/model"
)

func init() {
	register(&Prop{
		ID:    "C17",
		Level: "exploration",
		Rule: "grid of datetime strings built from components (five types x offsets -12..+14 incl. :30/:45 x day/year boundaries x 0..9 fractional digits, 'T' and space separators, 'Z'/+hh/+hh:mm zones) x 6 methods x precisions absent/0..7 x {WithTZ, not} x context zones {none, UTC, fixed offsets, named zones}; " +
			"all pairs of a sub-grid x 6 operators x zones: direct comparison vs the time-arithmetic model, vs the same comparison after explicit casts of both sides to the common type (two executions of the real code), antisymmetry and transitivity on observed outcomes; every half hour around the daylight-saving transitions of two named zones as timestamp and as timestamptz, all pairs; dates in the local-mean-time eras of three zones (offsets with seconds); zones sharing an abbreviation visited one after the other in one process. " +
			"Non-trivial: the string is accepted by some method; distinct by (string(s), method/operator, precision, tz, zone)",
		Run:    runC17,
		Replay: replayC17,
		MinExercised: map[string]int64{"parse.type": 2000, "cast.value": 10000, "cast.precision": 5000, "cast.tzrequired": 1000, "cmp.model": 10000, "cmp.tzrequired": 500,
			"cmp.coherent": 5000, "cmp.antisym": 5000, "cmp.transitive": 1, "cmp.incomparable": 500},
		Assumptions: []string{
			"values are built from components, so the intended type, wall time and offset are known without parsing; casts are computed with Go's time arithmetic (time.Date / In / Round)",
			"time -> time_tz uses today's date inside the library, so named zones are used only for date/timestamp casts and comparisons (fixed offsets elsewhere): no wall-clock dependence in the oracle",
		},
	})
}

type dtStr struct {
	s    string
	kind string
}

func c17Grid(full bool) []dtStr {
	var out []dtStr
	// (2023-03-26 / 2023-11-05 / 2024-03-10: daylight-saving transitions in Europe/Berlin and America/New_York)
	dates := []string{"2023-08-15", "2024-02-29", "0001-01-01", "2023-03-26", "2023-11-05", "2024-03-10", "1999-12-31", "2000-01-01", "9999-12-31", "1970-01-01"}
	times := []string{"00:00:00", "12:34:56", "23:59:59", "01:30:00", "03:30:00", "06:00:00", "23:59:59.999999", "12:34:56.789", "00:00:00.5", "12:34:56.1234567", "23:59:59.9999995", "12:34:56.123456789", "02:30:00", "12:34:56.4999995", "23:59:59.9499996", "00:00:00.0049999995"}
	zones := []string{"Z", "+00", "+01", "-05", "+05:30", "-03:30", "+14:00", "-12:00", "+13:45", "+00:00", "-08", "+09:00"}
	if !full {
		dates = dates[:7]
		zones = zones[:8]
	}
	for _, d := range dates {
		out = append(out, dtStr{d, "date"})
	}
	for _, t := range times {
		out = append(out, dtStr{t, "time"})
		for zi, z := range zones {
			if full || zi%2 == 0 {
				out = append(out, dtStr{t + z, "timetz"})
			}
		}
	}
	for di, d := range dates {
		for ti, t := range times {
			if !full && (di+ti)%2 == 1 {
				continue
			}
			sep := "T"
			if (di+ti)%3 == 0 {
				sep = " "
			}
			out = append(out, dtStr{d + sep + t, "timestamp"})
			for zi, z := range zones {
				if (di+ti+zi)%3 == 0 || full && (di+zi)%2 == 0 {
					out = append(out, dtStr{d + sep + t + z, "timestamptz"})
				}
			}
		}
	}
	// equal instants with different offsets (time-with-zone tie-break by offset)
	for _, s := range []string{"12:34:56+01", "11:34:56Z", "13:34:56+02:00", "06:04:56-05:30", "11:34:56+00:00", "00:04:56+12:30", "23:34:56-12:00",
		// ... also where the offsets are less than an hour apart
		"13:04:56+01:30", "12:19:56+00:45", "11:49:56+00:15", "12:49:56+01:15"} {
		out = append(out, dtStr{s, "timetz"})
	}
	for _, s := range []string{"2023-08-15T12:34:56+01:00", "2023-08-15T11:34:56Z", "2023-08-15T17:04:56+05:30", "2023-08-14T23:34:56-12:00"} {
		out = append(out, dtStr{s, "timestamptz"})
	}
	// the spelling other software writes: 'T', fractional seconds, 'Z'
	for _, s := range []string{"2023-08-15T12:34:56.789Z", "2024-05-05T20:59:19.791423Z", "2023-03-26T01:30:00.4999995Z", "1999-12-31T23:59:59.9999995Z", "2024-02-29T23:59:59.95Z", "2023-11-05T05:59:59.123456789Z"} {
		out = append(out, dtStr{s, "timestamptz"})
	}
	// instants centuries away from now, on either side of what fits a count of
	// nanoseconds in 64 bits (1677-09-21 .. 2262-04-11)
	for _, d := range []string{"1500-06-15", "2300-01-01", "1677-09-20", "1677-09-22", "2262-04-11", "2262-04-12", "1000-01-01", "3000-01-01", "5000-06-15", "0800-12-25"} {
		out = append(out, dtStr{d, "date"}, dtStr{d + "T12:00:00", "timestamp"}, dtStr{d + "T12:00:00+00:00", "timestamptz"})
	}
	// fractions that lie exactly half-way at a precision (p+1 digits ending in
	// 5), most of them not exact in binary floating point
	for _, f := range []string{".145", ".285", ".565", ".575", ".15", ".25", ".35", ".45", ".5005", ".0005", ".1234565", ".00005", ".999995", ".5", ".05", ".005", ".123455", ".12345", ".1235"} {
		out = append(out, dtStr{"12:00:00" + f, "time"}, dtStr{"2024-06-14T23:59:59" + f, "timestamp"}, dtStr{"23:59:59" + f + "+05:30", "timetz"}, dtStr{"2023-12-31T23:59:59" + f + "-08:00", "timestamptz"})
	}
	// non-datetime inputs
	for _, s := range []string{"", "abc", "2023-13-01", "2023-02-30", "24:00:00", "12:60:00", "12:34:60", "2023-08-15T", "2023-08-15 12:34", "12:34", "2023-8-15", "2023-08-15T12:34:56+1", "2023-08-15T12:34:56 +01", "15/08/2023", "12:34:56+25"} {
		out = append(out, dtStr{s, "bad"})
	}
	return out
}

var c17Methods = []string{"datetime", "date", "time", "time_tz", "timestamp", "timestamp_tz"}
var c17Zones = []string{"", "UTC", "+05:30", "-08:00", "+13:45", "America/New_York", "Europe/Berlin", "Asia/Kolkata", "Australia/Lord_Howe"}

func isNamedZone(z string) bool { return z != "" && z != "UTC" && z[0] != '+' && z[0] != '-' }

func checkCast(c *h.Ctx, s dtStr, method string, prec int, tz bool, zone string) {
	arg := ""
	if prec >= 0 {
		arg = fmt.Sprint(prec)
	}
	for _, tail := range []string{"", ".type()", ".string()"} {
		ptxt := "$." + method + "(" + arg + ")" + tail
		p := cachedPath(ptxt)
		if p == nil {
			return // e.g. .date(3), .datetime(3): rejected by the grammar
		}
		ec := &ExecCase{Text: ptxt, P: p, Doc: `"` + s.s + `"`, TZ: tz, Zone: zone}
		o := h.Call("query", p, s.s, ec.Opts())
		c.Eval(1)
		if s.kind != "bad" {
			c.Distinct(ptxt, s.s, fmt.Sprint(tz), zone)
		}
		verdict, feat, detail := modelVerdict(ec, o)
		clause := "cast.value"
		switch {
		case method == "datetime" && tail == ".type()":
			clause = "parse.type"
		case prec >= 0:
			clause = "cast.precision"
		case o.Class == h.Hard || strings.Contains(detail, "allow hard"):
			clause = "cast.tzrequired"
		}
		switch {
		case verdict == "held":
			c.Held(clause)
			if o.Class == h.Hard {
				c.Held("cast.tzrequired")
			}
			if c.WantSample(clause) {
				c.Sample(clause, map[string]any{"path": ptxt, "doc": s.s, "tz": tz, "zone": zone, "result": o.Summary()})
			}
			// the cast is the same cast through every entry point, with the same
			// options: a value where Query has one, the time-zone error where
			// Query raises it
			if tail == "" && (o.Class == h.OK || o.Class == h.Hard) {
				for _, e := range []string{"first", "exists", "existsormatch"} {
					oe := h.Call(e, p, s.s, ec.Opts())
					c.Eval(1)
					good := oe.Class == o.Class
					if good && o.Class == h.OK && e != "first" {
						good = oe.Bool == (len(o.Items) > 0)
					}
					if good && o.Class == h.Hard {
						good = oe.ErrText() == o.ErrText()
					}
					if oe.Class == h.Panic {
						continue
					}
					if !good {
						ecs := ec.Case()
						ecs.Entry = e
						c.Violate(clause, h.F("method", method, "entry", e, "tz", fmt.Sprint(tz)), fmt.Sprintf("Query(%s) on %q (WithTZ=%v, zone=%q) = %s but %s = %s", ptxt, s.s, tz, zone, o.Summary(), e, oe.Summary()), ecs)
					} else {
						c.Held(clause)
					}
				}
			}
		case strings.HasPrefix(verdict, "skip:"):
			c.Skip(clause, strings.TrimPrefix(verdict, "skip:"))
		default:
			feat["method"] = method
			feat["from"] = s.kind
			feat["tz"] = fmt.Sprint(tz)
			feat["named-zone"] = fmt.Sprint(isNamedZone(zone))
			c.Violate(clause, feat, fmt.Sprintf("%s on %q (WithTZ=%v, zone=%q): %s", ptxt, s.s, tz, zone, detail), ec.Case())
		}
	}
}

func methodOf(kind string) string {
	return map[string]string{"date": "date", "time": "time", "timetz": "time_tz", "timestamp": "timestamp", "timestamptz": "timestamp_tz"}[kind]
}

// commonKind is the type both sides are cast to for the coherence relation.
func commonKind(a, b string) string {
	rank := map[string]int{"date": 0, "timestamp": 1, "timestamptz": 2, "time": 0, "timetz": 2}
	timeLike := func(k string) bool { return k == "time" || k == "timetz" }
	if timeLike(a) != timeLike(b) {
		return ""
	}
	if rank[b] > rank[a] {
		return b
	}
	return a
}

func obsCmp(c *h.Ctx, ptxt string, a, b string, tz bool, zone string) *h.Out {
	p := cachedPath(ptxt)
	if p == nil {
		return nil
	}
	o := h.Call("query", p, []any{a, b}, h.Opts{TZ: tz, Zone: h.ParseZone(zone)})
	c.Eval(1)
	return o
}

func checkCompare(c *h.Ctx, a, b dtStr, tz bool, zone string, rel map[[2]string]int) {
	common := commonKind(a.kind, b.kind)
	needsTimeTZCast := (a.kind == "time" && b.kind == "timetz") || (a.kind == "timetz" && b.kind == "time")
	if needsTimeTZCast && isNamedZone(zone) {
		return // time -> timetz in a named zone depends on today's date
	}
	for _, op := range cmpOpsAll {
		ptxt := "$[0].datetime() " + op + " $[1].datetime()"
		o := obsCmp(c, ptxt, a.s, b.s, tz, zone)
		if o == nil || o.Class == h.Panic || o.Class == h.Invalid {
			c.Skip("cmp.model", "panic-or-invalid-is-C05")
			continue
		}
		cs := h.Case{Kind: "dtcompare", Path: ptxt, Doc: fmt.Sprintf("[%q,%q]", a.s, b.s), TZ: tz, Zone: zone}
		c.Distinct(ptxt, a.s, b.s, fmt.Sprint(tz), zone)
		// model
		da, oka, _ := model.ParseISO(a.s)
		db, okb, _ := model.ParseISO(b.s)
		if !oka || !okb {
			continue
		}
		want, err := model.CompareDatetime(op, model.Build(da), model.Build(db), tz, h.ParseZone(zone))
		feat := h.F("a", a.kind, "b", b.kind, "tz", fmt.Sprint(tz), "zone-is-utc", fmt.Sprint(zone == "" || zone == "UTC"))
		switch {
		case err != nil && strings.HasPrefix(err.Error(), model.Unspec):
			c.Skip("cmp.model", "unspecified")
		case err != nil:
			// zone-crossing comparison without WithTZ: non-suppressible error
			if o.Class != h.Hard {
				c.Violate("cmp.tzrequired", feat, fmt.Sprintf("%s on %s: %s; a comparison between zone-less and zone-aware values without WithTZ must raise the non-suppressible error", ptxt, cs.Doc, o.Summary()), cs)
			} else {
				c.Held("cmp.tzrequired")
			}
			// ... also under WithSilent and inside exists() / a filter (suppression must not swallow it)
			if op == "<" {
				for _, form := range []string{"$[0].datetime() < $[1].datetime()", "exists($ ? (@[0].datetime() < @[1].datetime()))", "$ ? (exists(@ ? (@[0].datetime() < @[1].datetime())))"} {
					pf := cachedPath("strict " + form)
					for _, entry := range []string{"query", "exists"} {
						for _, silent := range []bool{true, false} {
							if pf == nil || (!silent && form == ptxt) {
								continue
							}
							os := h.Call(entry, pf, []any{a.s, b.s}, h.Opts{Silent: silent, Zone: h.ParseZone(zone)})
							c.Eval(1)
							scs := cs
							scs.Path, scs.Silent, scs.Entry = "strict "+form, silent, entry
							if os.Class != h.Hard {
								f2 := h.F("a", a.kind, "b", b.kind, "silent", fmt.Sprint(silent), "form", form)
								c.Violate("cmp.tzrequired", f2, fmt.Sprintf("%s(strict %s) on %s (silent=%v): %s; the time-zone error must not be suppressed", entry, form, cs.Doc, silent, os.Summary()), scs)
							} else {
								c.Held("cmp.tzrequired")
							}
						}
					}
				}
			}
		default:
			got, isErr, ok := triOf(o)
			clause := "cmp.model"
			if common == "" {
				clause = "cmp.incomparable"
			}
			if !ok || isErr || got != want {
				c.Violate(clause, feat, fmt.Sprintf("%s on %s (WithTZ=%v zone=%q) = %s; the zone rules give %v", ptxt, cs.Doc, tz, zone, o.Summary(), want), cs)
			} else {
				c.Held(clause)
			}
			if ok && !isErr && op == "<" && got == model.True {
				rel[[2]string{a.s, b.s}] = -1
			}
			if ok && !isErr && op == "==" && got == model.True {
				rel[[2]string{a.s, b.s}] = 0
			}
		}
		// coherence: the same comparison after explicit casts of both sides to the common type
		if common != "" {
			m := methodOf(common)
			ctxt := "$[0]." + m + "() " + op + " $[1]." + m + "()"
			oc := obsCmp(c, ctxt, a.s, b.s, tz, zone)
			if oc != nil && oc.Class != h.Panic && oc.Class != h.Invalid {
				same := o.Class == oc.Class && (o.Class != h.OK || h.CanonList(o.Items) == h.CanonList(oc.Items))
				if o.Class == h.Hard && oc.Class == h.Hard {
					same = true // both refuse without WithTZ (messages name different casts)
				}
				if !same {
					c.Violate("cmp.coherent", feat, fmt.Sprintf("%s = %s but after explicit casts %s = %s (doc %s, WithTZ=%v, zone=%q)", ptxt, o.Summary(), ctxt, oc.Summary(), cs.Doc, tz, zone), cs)
				} else {
					c.Held("cmp.coherent")
				}
			}
		}
		// antisymmetry: a < b  <=>  b > a ; a <= b <=> b >= a
		if op == "<" || op == "<=" {
			rev := map[string]string{"<": ">", "<=": ">="}[op]
			rtxt := "$[1].datetime() " + rev + " $[0].datetime()"
			or := obsCmp(c, rtxt, a.s, b.s, tz, zone)
			if or != nil && or.Class != h.Panic && or.Class != h.Invalid {
				if o.Class != or.Class || (o.Class == h.OK && h.CanonList(o.Items) != h.CanonList(or.Items)) {
					c.Violate("cmp.antisym", feat, fmt.Sprintf("%s = %s but %s = %s (doc %s)", ptxt, o.Summary(), rtxt, or.Summary(), cs.Doc), cs)
				} else {
					c.Held("cmp.antisym")
				}
			}
		}
	}
}

func replayC17(c *h.Ctx, cs h.Case) {
	if cs.Kind == "dtcompare" {
		arr, _ := h.Decode(cs.Doc, false).([]any)
		if len(arr) == 2 {
			a, b := arr[0].(string), arr[1].(string)
			da, _, _ := model.ParseISO(a)
			db, _, _ := model.ParseISO(b)
			checkCompare(c, dtStr{a, da.Kind}, dtStr{b, db.Kind}, cs.TZ, cs.Zone, map[[2]string]int{})
		}
		return
	}
	ec, err := CaseFrom(cs)
	if err != nil {
		return
	}
	o := h.Call("query", ec.P, ec.DocValue(), ec.Opts())
	verdict, feat, detail := modelVerdict(ec, o)
	if verdict == "violated" {
		c.Violate("cast.value", feat, detail, cs)
	}
}

func runC17(c *h.Ctx) {
	grid := c17Grid(c.Thorough())
	c.Count("grid.strings", int64(len(grid)))
	idx := 0
	precs := []int{-1, 0, 1, 2, 3, 5, 6, 7}
	for _, s := range grid {
		for _, m := range c17Methods {
			for _, tz := range []bool{false, true} {
				for zi, zone := range c17Zones {
					idx++
					if !c.Mine(idx) {
						continue
					}
					if isNamedZone(zone) && (m == "time_tz" || m == "time") && (s.kind == "time" || s.kind == "timetz") {
						continue
					}
					for pi, prec := range precs {
						if !c.Thorough() && prec >= 0 && (pi+zi)%3 != 0 {
							continue
						}
						checkCast(c, s, m, prec, tz, zone)
					}
				}
			}
		}
	}
	// the other ISO 8601 decimal sign: where a text with a comma before the
	// fraction is read at all, it is read - and rounded to the precision asked
	// for - as the same text with a full stop
	{
		k := 0
		for _, tx := range []string{"12:34:56.789", "23:59:59.9999996", "12:34:56.5", "2023-12-31T23:59:59.5+01:00", "2020-01-01T00:00:00.6", "12:34:56.123456789+05:30", "2024-02-29 23:59:59.95", "00:00:00.000001"} {
			comma := strings.Replace(tx, ".", ",", 1)
			for _, m := range c17Methods {
				for _, prec := range []int{-1, 0, 1, 2, 3, 6, 7} {
					k++
					if !c.Mine(k) {
						continue
					}
					arg := ""
					if prec >= 0 {
						arg = fmt.Sprint(prec)
					}
					for _, tail := range []string{"", ".string()"} {
						p := cachedPath("$." + m + "(" + arg + ")" + tail)
						if p == nil {
							continue
						}
						od := h.Call("query", p, tx, h.Opts{TZ: true, Zone: h.ParseZone("+05:30")})
						oc := h.Call("query", p, comma, h.Opts{TZ: true, Zone: h.ParseZone("+05:30")})
						c.Eval(2)
						if od.Class == h.Panic || oc.Class == h.Panic || oc.Class != h.OK {
							continue // (not read at all: nothing to compare)
						}
						if od.Class != h.OK || h.CanonListTyped(od.Items) != h.CanonListTyped(oc.Items) {
							c.Violate("cast.precision", h.F("method", m, "kind", "comma-fraction"), fmt.Sprintf("$.%s(%s)%s on %q = %s; on %q = %s", m, arg, tail, comma, oc.Summary(), tx, od.Summary()), h.Case{Kind: "exec", Path: "$." + m + "(" + arg + ")" + tail, Doc: fmt.Sprintf("%q", comma), TZ: true, Zone: "+05:30"})
						} else {
							c.Held("cast.precision")
						}
					}
				}
			}
		}
	}
	// sequences of datetimes of mixed zone-awareness as operands: the pairs are
	// examined in order, and a pair that needs a time zone (without WithTZ) is
	// a non-suppressible error where it is met - not something a later
	// satisfying pair makes up for
	{
		ts, tz1, tz0, d, tm, tmz := `"2024-06-14T10:00:00"`, `"2024-06-14T10:00:00+00:00"`, `"2024-06-14T09:00:00+00:00"`, `"2024-06-14"`, `"10:00:00"`, `"10:00:00+00:00"`
		docs := []string{
			`{"a":[` + ts + `,` + tz1 + `],"b":` + tz0 + `}`, `{"a":[` + tz1 + `,` + ts + `],"b":` + tz0 + `}`, `{"a":[` + d + `,` + tz1 + `],"b":` + tz0 + `}`, `{"a":[` + tz1 + `,` + d + `,` + ts + `],"b":` + tz0 + `}`,
			`{"a":[` + tm + `,` + tmz + `],"b":"09:00:00+00:00"}`, `{"a":[` + tmz + `,` + tm + `],"b":"09:00:00+00:00"}`, `{"a":[` + ts + `,` + ts + `],"b":` + tz0 + `}`, `{"a":[` + tz1 + `,` + tz1 + `],"b":"2024-06-14T09:00:00"}`,
		}
		forms := []string{"$.a[*].datetime() > $.b.datetime()", "$.a.datetime() > $.b.datetime()", "$.b.datetime() < $.a[*].datetime()", "$ ? (@.a[*].datetime() > @.b.datetime())", "$.a[*].datetime() == $.b.datetime() || $.a[*].datetime() > $.b.datetime()",
			"$.a[*] ? (@.datetime() > $.b.datetime())", "strict $.a[*].datetime() > $.b.datetime()", "!($.a[*].datetime() <= $.b.datetime())"}
		for di, d := range docs {
			for fi, f := range forms {
				idx++
				if !c.Mine(idx) {
					continue
				}
				p := cachedPath(f)
				if p == nil {
					continue
				}
				for v := 0; v < 4; v++ {
					ec := &ExecCase{Text: f, P: p, Doc: d, TZ: v&1 != 0, Silent: v&2 != 0, Zone: []string{"", "+05:30"}[(di+fi)%2]}
					o := h.Call("query", p, ec.DocValue(), ec.Opts())
					c.Eval(1)
					c.Distinct(f, d, fmt.Sprint(v))
					verdict, feat, detail := modelVerdict(ec, o)
					switch {
					case verdict == "held":
						c.Held("cast.tzrequired")
					case strings.HasPrefix(verdict, "skip:"):
						c.Skip("cast.tzrequired", strings.TrimPrefix(verdict, "skip:"))
					default:
						feat["form"] = "operand-sequence"
						c.Violate("cast.tzrequired", feat, fmt.Sprintf("%s on %s (WithTZ=%v, silent=%v): %s", f, d, ec.TZ, ec.Silent, detail), ec.Case())
					}
				}
			}
		}
	}
	// the same string through two casts in one execution - first without, then
	// with a precision, and the other way round: each cast is what it is alone
	for _, s := range grid {
		if s.kind == "bad" || !strings.Contains(s.s, ".") {
			continue
		}
		for _, m := range []string{"time", "time_tz", "timestamp", "timestamp_tz"} {
			for _, prec := range []int{0, 1, 3, 7} {
				idx++
				if !c.Mine(idx) {
					continue
				}
				for fi, form := range []string{"$ ? (exists(@.%[1]s())).%[1]s(%[2]d).string()", "$.%[1]s().string() == $.%[1]s(%[2]d).string()", "$ ? (@.datetime().type() != \"x\").%[1]s(%[2]d).string()",
					"$.%[1]s(%[2]d) == $.%[1]s()", "$ ? (exists(@.%[1]s(%[2]d))).%[1]s().string()", "$.%[1]s(%[2]d).string() == $.datetime().string()", "$ ? (@.%[1]s() == @.%[1]s()).%[1]s(%[2]d)"} {
					ptxt := fmt.Sprintf(form, m, prec)
					p := cachedPath(ptxt)
					if p == nil {
						continue
					}
					tz := (fi+prec)%2 == 0
					ec := &ExecCase{Text: ptxt, P: p, Doc: `"` + s.s + `"`, TZ: tz, Zone: "+05:30"}
					o := h.Call("query", p, s.s, ec.Opts())
					c.Eval(1)
					c.Distinct(ptxt, s.s, fmt.Sprint(tz))
					verdict, feat, detail := modelVerdict(ec, o)
					switch {
					case verdict == "held":
						c.Held("cast.precision")
					case strings.HasPrefix(verdict, "skip:"):
						c.Skip("cast.precision", strings.TrimPrefix(verdict, "skip:"))
					default:
						feat["method"] = m
						feat["form"] = "two-casts"
						c.Violate("cast.precision", feat, fmt.Sprintf("%s on %q (WithTZ=%v): %s", ptxt, s.s, tz, detail), ec.Case())
					}
				}
			}
		}
	}
	c.SetExhaustive("datetime string grid x 6 methods x precisions x WithTZ x context zones; all pairs of the comparison sub-grid x 6 operators x zones")
	// comparison sub-grid: all pairs
	var sub []dtStr
	step := 3
	if c.Thorough() {
		step = 2
	}
	for i, s := range grid {
		if s.kind != "bad" && i%step == 0 {
			sub = append(sub, s)
		}
	}
	c.Count("grid.compare-strings", int64(len(sub)))
	czones := []string{"", "UTC", "+05:30", "-08:00", "America/New_York", "Asia/Kolkata"}
	for zi, zone := range czones {
		for _, tz := range []bool{true, false} {
			rel := map[[2]string]int{}
			for ai, a := range sub {
				if !c.Mine(ai + zi) {
					continue
				}
				for _, b := range sub {
					checkCompare(c, a, b, tz, zone, rel)
				}
			}
		}
	}
	// context zones at the far ends (+13:00 ... +14:00, -12:00): zone-less values
	// against instants that lie between twelve hours and the zone's offset away
	{
		far := []dtStr{{"2024-01-01", "date"}, {"2023-12-31", "date"}, {"2024-01-01T00:00:00", "timestamp"}, {"2023-12-31T23:00:00", "timestamp"}, {"2024-01-01T01:30:00", "timestamp"},
			{"2023-12-31T11:00:00+00:00", "timestamptz"}, {"2023-12-31T10:00:00Z", "timestamptz"}, {"2023-12-31T12:30:00+00:00", "timestamptz"}, {"2024-01-01T11:30:00+00:00", "timestamptz"}, {"2023-12-31T09:59:59Z", "timestamptz"},
			{"2024-01-01T12:00:00-12:00", "timestamptz"}, {"2023-12-31T10:15:00+00:00", "timestamptz"}, {"2024-01-01T13:00:00+00:00", "timestamptz"}, {"0001-01-01T00:00:00Z", "timestamptz"}, {"0001-01-01", "date"}}
		for zi, zone := range []string{"+14:00", "+13:00", "-12:00", "+13:45", "Pacific/Kiritimati", "Pacific/Chatham", "+12:00"} {
			rel := map[[2]string]int{}
			for ai, a := range far {
				if !c.Mine(ai + zi) {
					continue
				}
				for _, b := range far {
					checkCompare(c, a, b, true, zone, rel)
				}
			}
		}
	}
	// daylight-saving transitions of named context zones: every half hour of
	// local time around the skipped / repeated hour as timestamp, the same
	// span as timestamptz instants, and the date, all pairs in both orders
	idx = 0
	for _, tr := range []struct{ zone, date string }{
		{"America/New_York", "2023-11-05"}, {"America/New_York", "2024-03-10"},
		{"Europe/Berlin", "2023-03-26"}, {"Europe/Berlin", "2023-10-29"},
	} {
		var vals []dtStr
		vals = append(vals, dtStr{tr.date, "date"})
		for hh := 0; hh <= 4; hh++ {
			for _, mm := range []string{"00", "30"} {
				vals = append(vals, dtStr{fmt.Sprintf("%sT%02d:%s:00", tr.date, hh, mm), "timestamp"})
			}
		}
		for hh := 0; hh <= 10; hh++ {
			for _, mm := range []string{"00", "30"} {
				vals = append(vals, dtStr{fmt.Sprintf("%sT%02d:%s:00+00", tr.date, hh, mm), "timestamptz"})
			}
		}
		for _, off := range []string{"-04", "-05", "+01", "+02"} {
			vals = append(vals, dtStr{tr.date + "T01:30:00" + off, "timestamptz"}, dtStr{tr.date + "T02:30:00" + off, "timestamptz"}, dtStr{tr.date + "T03:30:00" + off, "timestamptz"})
		}
		rel := map[[2]string]int{}
		for _, a := range vals {
			for _, b := range vals {
				idx++
				if c.Mine(idx) {
					checkCompare(c, a, b, true, tr.zone, rel)
				}
			}
		}
	}
	// local-mean-time eras of named zones: the offset of the context zone is
	// not a whole number of minutes (New York -4:56:02 before 1883, Amsterdam
	// +0:19:32 before 1937, Monrovia -0:44:30 until 1972)
	for _, lm := range []struct {
		zone, date string
		tstz       []string
	}{
		{"America/New_York", "1850-01-01", []string{"1850-01-01T04:56:02+00", "1850-01-01T04:56:00+00", "1850-01-01T04:57:00+00", "1850-01-01T05:00:00+00", "1850-01-01T04:56:01+00", "1850-01-01T04:56:03+00"}},
		{"Europe/Amsterdam", "1900-06-01", []string{"1900-05-31T23:40:28+00", "1900-05-31T23:40:00+00", "1900-05-31T23:41:00+00", "1900-06-01T00:00:00+00", "1900-05-31T23:40:27+00", "1900-05-31T23:40:29+00"}},
		{"Africa/Monrovia", "1960-03-01", []string{"1960-03-01T00:44:30+00", "1960-03-01T00:44:00+00", "1960-03-01T00:45:00+00", "1960-03-01T00:00:00+00", "1960-03-01T00:44:29+00", "1960-03-01T00:44:31+00"}},
	} {
		vals := []dtStr{{lm.date, "date"}, {lm.date + "T00:00:00", "timestamp"}, {lm.date + "T00:00:01", "timestamp"}, {lm.date + "T12:00:00", "timestamp"}}
		for _, t := range lm.tstz {
			vals = append(vals, dtStr{t, "timestamptz"})
		}
		rel := map[[2]string]int{}
		for _, a := range vals {
			for _, b := range vals {
				idx++
				if c.Mine(idx) {
					checkCompare(c, a, b, true, lm.zone, rel)
				}
			}
			for _, m := range []string{"timestamp_tz", "datetime", "date", "timestamp"} {
				idx++
				if c.Mine(idx) {
					checkCast(c, a, m, -1, true, lm.zone)
				}
			}
		}
	}
	// zones that share an abbreviation but not an offset (CST: Chicago,
	// Shanghai, Havana; IST: Kolkata, Jerusalem, Dublin; PST: Los Angeles,
	// Manila), one after the other in the same process: the zone of THIS call's
	// context decides
	shared := []string{"America/Chicago", "Asia/Shanghai", "America/Havana", "Asia/Kolkata", "Asia/Jerusalem", "Europe/Dublin", "America/Los_Angeles", "Asia/Manila", "Asia/Shanghai", "America/Chicago"}
	for di, date := range []string{"2024-01-15", "2024-07-15", "1995-12-01", "2010-03-28"} {
		if !c.Mine(di) {
			continue
		}
		vals := []dtStr{{date, "date"}, {date + "T00:00:00", "timestamp"}, {date + "T06:00:00+00", "timestamptz"}, {date + "T00:00:00+08", "timestamptz"}, {date + "T00:00:00-06", "timestamptz"}, {date + "T00:00:00+05:30", "timestamptz"}}
		for round := 0; round < 2; round++ {
			for _, zone := range shared {
				rel := map[[2]string]int{}
				for _, a := range vals {
					checkCast(c, a, "timestamp_tz", -1, true, zone)
					checkCast(c, a, "datetime", -1, true, zone)
					for _, b := range vals {
						checkCompare(c, a, b, true, zone, rel)
					}
				}
			}
		}
	}
	// transitivity on observed outcomes (shard 0, WithTZ, two zones, same-family values)
	if c.Shard == 0 {
		for _, zone := range []string{"UTC", "+05:30"} {
			bad := 0
			var fam []dtStr
			for _, s := range sub {
				if s.kind == "date" || s.kind == "timestamp" || s.kind == "timestamptz" {
					fam = append(fam, s)
				}
			}
			if len(fam) > 60 {
				fam = fam[:60]
			}
			lt := map[[2]int]bool{}
			for i, a := range fam {
				for j, b := range fam {
					o := obsCmp(c, "$[0].datetime() < $[1].datetime()", a.s, b.s, true, zone)
					if o != nil {
						if t, isErr, ok := triOf(o); ok && !isErr && t == model.True {
							lt[[2]int{i, j}] = true
						}
					}
				}
			}
			checked := int64(0)
			for i := range fam {
				for j := range fam {
					if !lt[[2]int{i, j}] {
						continue
					}
					for k := range fam {
						if lt[[2]int{j, k}] {
							checked++
							if !lt[[2]int{i, k}] {
								bad++
								if bad <= 3 {
									c.Violate("cmp.transitive", h.F("zone", zone), fmt.Sprintf("%s < %s and %s < %s but not %s < %s", fam[i].s, fam[j].s, fam[j].s, fam[k].s, fam[i].s, fam[k].s), h.Case{Kind: "transitive", Zone: zone})
								}
							}
						}
					}
				}
			}
			if bad == 0 {
				c.Held("cmp.transitive")
			}
			c.Count("transitive.triples-checked", checked)
		}
	}
}
