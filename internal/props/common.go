package props

import (
	"fmt"
	"math/rand/v2"
	"os"
	"strings"

	"github.com/theory/sqljson/path"

	"verif/internal/gen"
	"verif/internal/h"
	"verif/internal/model"
)

const stdVars = `{"v":1,"w":"ab","arr":[1,2,{"a":3}],"sarr":["ab","b",1],"obj":{"a":1,"b":[1,2]},"nul":null}`

// stdVars1 has no object with more than one member (see ExecGen.Deterministic).
const stdVars1 = `{"v":1,"w":"ab","arr":[1,2,{"a":3}],"sarr":["ab","b",1],"obj":{"b":[1,2]},"nul":null}`

// ExecCase is one (path, document, options) triple.
type ExecCase struct {
	Text   string
	P      *path.Path
	Abs    *gen.Path
	Doc    string
	UseNum bool
	Vars   string
	Silent bool
	TZ     bool
	Zone   string
	// Spare: the arrays of the document are slices of one backing array, each
	// followed directly by the next one's elements (h.SpareCap), so that an
	// append to any of them writes into the document.
	Spare bool
}

func (e *ExecCase) Case() h.Case {
	cs := h.Case{Kind: "exec", Path: e.Text, Doc: e.Doc, UseNum: e.UseNum, Vars: e.Vars, Silent: e.Silent, TZ: e.TZ, Zone: e.Zone}
	if e.Spare {
		cs.Extra = map[string]string{"spare": "1"}
	}
	return cs
}

func (e *ExecCase) DocValue() any {
	if e.Spare {
		return h.SpareCap(h.Decode(e.Doc, e.UseNum))
	}
	return h.Decode(e.Doc, e.UseNum)
}

func (e *ExecCase) Opts() h.Opts {
	return h.Opts{Vars: h.DecodeVars(e.Vars, e.UseNum), Silent: e.Silent, TZ: e.TZ, Zone: h.ParseZone(e.Zone)}
}

func (e *ExecCase) ModelOpts(dev model.Dev) model.Options {
	return model.Options{Vars: h.DecodeVars(e.Vars, e.UseNum), UseTZ: e.TZ, Zone: h.ParseZone(e.Zone), Dev: dev}
}

// CaseFrom rebuilds an ExecCase from a recorded case.
func CaseFrom(cs h.Case) (*ExecCase, error) {
	p, err, pan := h.ParseSafe(cs.Path)
	if pan != "" {
		return nil, fmt.Errorf("parse panicked: %s", pan)
	}
	if err != nil {
		return nil, err
	}
	return &ExecCase{Text: cs.Path, P: p, Abs: gen.FromAST(p.AST), Doc: cs.Doc, UseNum: cs.UseNum, Vars: cs.Vars, Silent: cs.Silent, TZ: cs.TZ, Zone: cs.Zone, Spare: cs.Extra["spare"] == "1"}, nil
}

// ExecGen generates ExecCases.
type ExecGen struct {
	R   *rand.Rand
	G   *gen.G
	DC  gen.DocCfg
	Bad int // generated paths the parser rejected (reported, never silently dropped)
	// Deterministic: the order of an object's members is left open, and two
	// executions of the real code may expand them in different orders. For
	// checks that relate several executions with each other, paths that
	// expand object members (.*, .**) therefore get documents and variables
	// whose objects have at most one member, so that every execution is
	// deterministic. (Multi-member expansions are covered by the model-based
	// checks, which enumerate the member orders.)
	Deterministic bool
	seq           int
}

func NewExecGen(r *rand.Rand) *ExecGen {
	g := &gen.G{R: r, C: gen.DefaultCfg()}
	return &ExecGen{R: r, G: g, DC: gen.DefaultDocCfg()}
}

var zonesFixed = []string{"", "", "", "UTC", "+05:30", "-08:00", "+13:45"}

// Next returns a random case. Option sets: vars always; silent, tz, zone random.
func (eg *ExecGen) Next() *ExecCase {
	for {
		ap := eg.G.Path()
		txt := gen.Spell(ap, nil)
		p, err, pan := h.ParseSafe(txt)
		if err != nil || pan != "" {
			eg.Bad++
			continue
		}
		dc := eg.DC
		vars := stdVars
		if eg.Deterministic && exposesOrder(ap) {
			dc.MaxMembers = 1
			vars = stdVars1
		}
		ec := &ExecCase{Text: txt, P: p, Abs: ap, Doc: gen.Doc(eg.R, dc), UseNum: eg.R.IntN(2) == 0, Vars: vars,
			Silent: eg.R.IntN(3) == 0, TZ: eg.R.IntN(3) == 0}
		if eg.G.C.Datetime {
			ec.Zone = zonesFixed[eg.R.IntN(len(zonesFixed))]
		}
		if ec.UseNum && eg.R.IntN(16) == 0 {
			ec.Doc = gen.InjectHuge(eg.R, ec.Doc)
		}
		eg.seq++
		ec.Spare = eg.seq%2 == 0
		return ec
	}
}

// exposesOrder reports whether the path expands object members (.*, .**,
// keyvalue is sorted and does not count).
func exposesOrder(p *gen.Path) bool {
	found := false
	p.Root.Walk(func(n *gen.N) {
		if n.K == gen.KAnyKey || n.K == gen.KAny {
			found = true
		}
	})
	return found
}

// hasMultiMemberObject reports whether the JSON text contains an object with
// at least two members (cheap syntactic check on generated documents).
func hasMultiMemberObject(v any) bool {
	switch v := v.(type) {
	case map[string]any:
		if len(v) >= 2 {
			return true
		}
		for _, x := range v {
			if hasMultiMemberObject(x) {
				return true
			}
		}
	case []any:
		for _, x := range v {
			if hasMultiMemberObject(x) {
				return true
			}
		}
	}
	return false
}

// nodeKinds lists the distinct operator/step kinds of a path (for features).
func nodeKinds(p *gen.Path) string {
	seen := map[string]bool{}
	var out []string
	p.Root.Walk(func(n *gen.N) {
		var k string
		switch n.K {
		case gen.KBin, gen.KUn:
			k = n.S
		case gen.KMethod, gen.KDatetime:
			k = "." + n.S
		case gen.KDecimal:
			k = ".decimal"
		case gen.KIndex:
			k = "[i]"
		case gen.KAny:
			k = ".**"
		case gen.KAnyKey:
			k = ".*"
		case gen.KAnyArray:
			k = "[*]"
		case gen.KFilter:
			k = "?"
		case gen.KRegex:
			k = "like_regex"
		case gen.KVar:
			k = "$var"
		default:
			return
		}
		if !seen[k] {
			seen[k] = true
			out = append(out, k)
		}
	})
	return strings.Join(out, " ")
}

func modeName(lax bool) string {
	if lax {
		return "lax"
	}
	return "strict"
}

func varsHaveMultiMember(vars map[string]any) bool {
	for _, v := range vars {
		if hasMultiMemberObject(v) {
			return true
		}
	}
	return false
}

// deterministicCase reports whether every execution of the case visits the
// same items in the same order: false when the path expands object members
// (.*, .**) and some object reachable has several members - including the
// three-member triples generated by .keyvalue().
func deterministicCase(ec *ExecCase, doc any, vars map[string]any) bool {
	if unstableIDs(ec.Abs.Root) {
		return false
	}
	if !exposesOrder(ec.Abs) {
		return true
	}
	hasKV := false
	ec.Abs.Root.Walk(func(n *gen.N) {
		if n.K == gen.KMethod && n.S == "keyvalue" {
			hasKV = true
		}
	})
	return !(hasKV || hasMultiMemberObject(doc) || varsHaveMultiMember(vars))
}

var harvested []*ExecCase
var harvestDone bool

// harvestedPaths returns the maintainer-written paths found in the library's
// own tests and README (those that Parse accepts), as case templates.
func harvestedPaths() []*ExecCase {
	if harvestDone {
		return harvested
	}
	harvestDone = true
	dir := os.Getenv("VERIF_REPO")
	if dir == "" {
		dir = "/repo"
	}
	for _, txt := range gen.Harvest(dir) {
		p, err, pan := h.ParseSafe(txt)
		if err != nil || pan != "" {
			continue
		}
		if len(txt) > 200 {
			continue
		}
		harvested = append(harvested, &ExecCase{Text: txt, P: p, Abs: gen.FromAST(p.AST)})
	}
	return harvested
}

// harvestCase instantiates a harvested path with a random document and options.
func (eg *ExecGen) harvestCase(i int) *ExecCase {
	hp := harvestedPaths()
	if len(hp) == 0 {
		return eg.Next()
	}
	t := hp[i%len(hp)]
	dc := eg.DC
	vars := stdVars
	if eg.Deterministic && exposesOrder(t.Abs) {
		dc.MaxMembers = 1
		vars = stdVars1
	}
	ec := *t
	ec.Doc = gen.Doc(eg.R, dc)
	ec.UseNum = eg.R.IntN(2) == 0
	ec.Vars = vars
	ec.Silent = eg.R.IntN(3) == 0
	ec.TZ = eg.R.IntN(3) == 0
	return &ec
}

// crossRef builds a filter whose condition refers, besides @, to a lookup
// sequence anchored at $ or at a variable and subscripted with a member of the
// current item ($.b[@.a], $arr[@.a], (5)[@.a] ...): an operand that looks
// item-independent but is not. The document has 2-4 items with different
// subscripts so that the operand differs from item to item.
// Returned: the prefix chain ($.a[*] or $.a), the condition, the document.
func crossRef(r *rand.Rand, rootFree bool) (prefix, cond *gen.N, doc string) {
	anchors := []string{"$.b", "$.b", "$arr", "$sarr", "$.c"}
	if rootFree {
		anchors = []string{"$arr", "$sarr", "$arr"}
	}
	an := anchors[r.IntN(len(anchors))]
	sub := []string{"@.a", "@.a", "@.a", "last - @.a", "@.a to last", "@.a, 0", "@.a + 0", "@.a.floor()"}[r.IntN(8)]
	look := an + "[" + sub + "]"
	if !rootFree && r.IntN(8) == 0 {
		look = "(5)[" + sub + "]"
	}
	tmpl := []string{
		"@.b == %s", "%s == @.b", "%s > @.c", "%s != @.b", "@.b <= %s", "exists(%s ? (@ > 1))", "%s == true && @.c > 0", "@.c > 0 || %s == @.b",
		"!(%s == @.b)", "(%s == @.b) is unknown", "%s + 1 == @.b", "%s starts with \"a\"", "@.b starts with \"a\" && %s > 1", "%s.type() == \"number\"",
		"exists(%s)", "%s.size() == 1", "-%s < 0", "%s like_regex \"^a\"",
	}
	ctxt := fmt.Sprintf(tmpl[r.IntN(len(tmpl))], look)
	pre := "$.a[*]"
	if r.IntN(4) == 0 {
		pre = "$.a"
	}
	p, err, pan := h.ParseSafe(pre + " ? (" + ctxt + ")")
	if err != nil || pan != "" {
		panic("harness: crossRef template does not parse: " + ctxt)
	}
	root := gen.FromAST(p.AST).Root
	// cut the trailing filter off
	x := root
	for x.Next != nil && x.Next.K != gen.KFilter {
		x = x.Next
	}
	cond = x.Next.A
	x.Next = nil
	prefix = root
	vals := []string{"1", "2", "3", "\"a\"", "\"ab\"", "true", "null", "2", "1"}
	n := 2 + r.IntN(3)
	items := make([]string, n)
	for i := range items {
		items[i] = fmt.Sprintf(`{"a":%d,"b":%s,"c":%d}`, r.IntN(4), vals[r.IntN(len(vals))], r.IntN(3)-1)
	}
	lk := make([]string, 1+r.IntN(4))
	for i := range lk {
		lk[i] = vals[r.IntN(len(vals))]
	}
	fl := make([]string, 1+r.IntN(4))
	for i := range fl {
		fl[i] = []string{"true", "false", "true", "1"}[r.IntN(4)]
	}
	doc = fmt.Sprintf(`{"a":[%s],"b":[%s],"c":[%s]}`, strings.Join(items, ","), strings.Join(lk, ","), strings.Join(fl, ","))
	return prefix, cond, doc
}

// unstableIDs reports whether the path can return or test the id of a
// .keyvalue() applied to something reached through the triple of an earlier
// .keyvalue() (.keyvalue().value.keyvalue().id): that id is the distance
// between a document object and a triple allocated during the execution, so
// it differs from one execution to the next (recorded under C16,
// kv.id.stable). Over-approximated as "two .keyvalue() that do not follow one
// another directly, and an id in sight": .keyvalue().keyvalue() numbers the
// triples themselves (a per-execution counter, the same in every execution).
func unstableIDs(n *gen.N) bool {
	heads := 0
	n.Walk(func(x *gen.N) {
		isKV := func(y *gen.N) bool { return y != nil && y.K == gen.KMethod && y.S == "keyvalue" }
		if isKV(x.Next) && !isKV(x) {
			heads++
		}
	})
	return heads >= 2 && idExposed(n)
}
