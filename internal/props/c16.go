package props

import (
	"encoding/json"
	"fmt"
	"math"
	"math/big"
	"reflect"
	"runtime"
	"sort"
	"strconv"
	"strings"

	"verif/internal/h"
	"verif/internal/model"
)

func init() {
	register(&Prop{
		ID:    "C16",
		Level: "exploration",
		Rule: "exhaustive grid: 12 methods x every input kind x a numeric boundary grid (int32/int64 limits +-1, halves, 2^53, 2^63 as double, tiny/huge) in float64, json.Number and string form, lax and strict, silent and verbose; " +
			".decimal(p,s) for p in {1,2,3,15,16,17,38,1000} x s in {-1000,-2,-1,0,1,2,15,1000} plus out-of-range pairs; .string() round trips for every scalar; .keyvalue() on random objects and on slab-allocated documents whose objects lie on both sides of the base object in memory, with GC churn between executions. " +
			"Oracles: math/big leaf models per method. Non-trivial: the input is not null; distinct by (method, input, representation, mode)",
		Run:    runC16,
		Replay: replayC16,
		MinExercised: map[string]int64{"method.value": 5000, "method.reject": 1000, "decimal.value": 2000, "decimal.range": 2000, "decimal.args": 50, "string.roundtrip": 50,
			"method.exists": 2000, "kv.shape": 200, "kv.id.equal": 200, "kv.id.distinct": 100, "kv.id.stable": 100},
		Assumptions: []string{
			"rounding ties may be broken half-away-from-zero or half-even; .decimal(p,s) may round the decimal text or the binary value and is compared with a tolerance of 4 ulp (documented float64 caveat); it must satisfy |result| < 10^(p-s)",
			"string inputs are asserted only in canonical JSON-number form (integral strings for .integer()/.bigint()); inputs outside float64/int64 range are checked for totality only",
		},
	})
}

var c16Nums = []string{"0", "-0", "1", "-1", "2", "0.4", "0.5", "0.6", "1.5", "2.5", "-0.5", "-1.5", "-2.5", "99.4", "99.5", "100", "999.995", "1.005", "0.125", "12345", "1234567", "0.000123",
	"2147483647", "2147483646.5", "2147483647.4", "2147483647.5", "2147483648", "-2147483648", "-2147483648.4", "-2147483648.5", "-2147483649",
	"9007199254740992", "9007199254740993", "9223372036854775807", "9223372036854775808", "-9223372036854775808", "-9223372036854775809", "9223372036854774784", "9223372036854775296", "-9223372036854774784",
	"4503599627370497", "4503599627370497.0", "9007199254740991", "9007199254740991.0", "6755399441055745", "0.49999999999999994", "-0.49999999999999994", "1.4999999999999998", "2.5000000000000004",
	"1e18", "1e19", "1e308", "-1e308", "5e-324", "1e-7", "123456789012345678901234567890", "1e400", "-1e400", "1e-400",
	// whole numbers spelled with a fraction part or an exponent, integer parts that end in zeros
	"10.0", "1200.0", "-250.000", "100.00", "1000000.0", "12e2", "1.2e3", "1200.00e0", "120.0e1", "10.50", "100.50", "2147483640.0", "-2147483640.00", "20.0e-1", "5000e-3", "0.0", "-0.0", "0.00e5", "1e2", "30.0"}

var c16Other = []string{`null`, `true`, `false`, `""`, `"abc"`, `"true"`, `"false"`, `"t"`, `"F"`, `"yes"`, `"NO"`, `"on"`, `"off"`, `"1"`, `"0"`, `" 1"`, `"1 "`, `"+1"`, `"1e2"`, `"0x10"`, `"NaN"`, `"Infinity"`, `"-inf"`, `"1_0"`, `"tr"`, `"o"`, `"tree"`, `"truE"`, `"trux"`, `"falsy"`, `"fall"`, `"yess"`, `"nope"`, `"nn"`, `"onn"`, `"offf"`, `"11"`, `"00"`, `"01"`, `"2"`, `"-1"`, `"truee"`, `"ye s"`, `"ok"`,
	`[[1,2]]`, `[[[1]]]`, `[[]]`, `[1,[2]]`, `[["3"]]`, `[[true]]`,
	`"010"`, `"-010"`, `"0000000100"`, `"08"`, `"-009"`, `"02147483647"`, `"02147483648"`, `"00.50"`, `"007.5"`, `"0e0"`, `"00"`, `"-0"`, `"09223372036854775807"`, `"000000000042"`, `"0000000000002147483647"`, `"-0000000000002147483648"`, `"-009223372036854775808"`, `"000000000000000000000042"`, `"00000000000000000000009223372036854775807"`, `"0o17"`, `"0b11"`, `"1_000"`,
	`[]`, `[1]`, `[1,"2",[3]]`, `{}`, `{"a":1}`, `"2023-08-15"`, `"12:34:56"`, `"2023-08-15T12:34:56+01:00"`}

var c16Methods = []string{"type", "size", "double", "number", "decimal", "integer", "bigint", "boolean", "string", "abs", "floor", "ceiling", "keyvalue"}

// checkMethodGrid compares the real Query with the leaf model on one input.
// decodable: float64 decoding rejects numbers outside the float64 range.
func decodable(docText string, useNum bool) bool {
	if useNum {
		return true
	}
	var v any
	return json.Unmarshal([]byte(docText), &v) == nil
}

func checkMethodGrid(c *h.Ctx, method, docText string, useNum, lax bool) {
	if !decodable(docText, useNum) {
		return
	}
	mode := ""
	if !lax {
		mode = "strict "
	}
	ptxt := mode + "$." + method + "()"
	p := cachedPath(ptxt)
	if p == nil {
		c.Count("gen.unparsable", 1)
		return
	}
	for _, silent := range []bool{false, true} {
		ec := &ExecCase{Text: ptxt, P: p, Doc: docText, UseNum: useNum, Silent: silent}
		o := h.Call("query", p, ec.DocValue(), ec.Opts())
		c.Eval(1)
		if docText != "null" {
			c.Distinct(ptxt, docText, fmt.Sprint(useNum, silent))
		}
		verdict, feat, detail := modelVerdict(ec, o)
		clause := "method.value"
		if o.Class != h.OK {
			clause = "method.reject"
		}
		cs := ec.Case()
		switch {
		case verdict == "held":
			c.Held(clause)
			if c.WantSample(method) {
				c.Sample(method, map[string]any{"path": ptxt, "doc": docText, "usenum": useNum, "result": o.Summary()})
			}
		case strings.HasPrefix(verdict, "skip:"):
			c.Skip(clause, strings.TrimPrefix(verdict, "skip:"))
		default:
			feat["method"] = method
			feat["input"] = inputKind(docText, useNum)
			c.Violate(clause, feat, "."+method+"() on "+docText+": "+detail, cs)
		}
		// asked only for existence (Exists, exists() in a filter), a
		// scalar input is accepted or rejected exactly as by Query
		if docText[0] != '[' && !silent && o.Class != h.Panic && o.Class != h.Invalid {
			oe := h.Call("exists", p, ec.DocValue(), ec.Opts())
			of := h.Call("query", cachedPath(mode+"$ ? (exists(@."+method+"()))"), ec.DocValue(), ec.Opts())
			c.Eval(2)
			okE := oe.Class == o.Class && (o.Class != h.OK || oe.Bool == (len(o.Items) > 0))
			okF := of.Class == h.OK && (len(of.Items) == 1) == (o.Class == h.OK && len(o.Items) > 0)
			if !okE || !okF {
				c.Violate("method.exists", h.F("method", method, "input", inputKind(docText, useNum), "query", o.Class), fmt.Sprintf("%s on %s: Query %s, Exists %s, $ ? (exists(@.%s())) %s", ptxt, docText, o.Summary(), oe.Summary(), method, of.Summary()), cs)
			} else {
				c.Held("method.exists")
			}
		}
		// range: never a value outside the method's range
		if o.Class == h.OK {
			for _, it := range o.Items {
				bad := ""
				switch v := it.(type) {
				case float64:
					if math.IsNaN(v) || math.IsInf(v, 0) {
						bad = "non-finite"
					}
				case int64:
					if method == "integer" && (v > math.MaxInt32 || v < math.MinInt32) {
						bad = "outside-int32"
					}
				}
				if method == "integer" || method == "bigint" {
					if _, ok := it.(int64); !ok {
						bad = "not-an-integer"
					}
				}
				if bad != "" {
					c.Violate("method.range", h.F("method", method, "kind", bad), fmt.Sprintf("%s on %s returned %s", ptxt, docText, o.Summary()), cs)
				}
			}
		}
	}
}

func inputKind(docText string, useNum bool) string {
	switch docText[0] {
	case '"':
		return "string"
	case '[':
		return "array"
	case '{':
		return "object"
	case 't', 'f':
		return "boolean"
	case 'n':
		return "null"
	}
	if useNum {
		return "json.Number"
	}
	return "float64"
}

// decimalCheck: .decimal(p,s) on a numeric input against the exact oracle.
func decimalCheck(c *h.Ctx, valText string, repr string, p, s int64) {
	ptxt := fmt.Sprintf("$.decimal(%d,%d)", p, s)
	pp := cachedPath(ptxt)
	if pp == nil {
		c.Count("gen.unparsable", 1)
		return
	}
	var doc any
	docText := valText
	if !decodable(valText, repr == "num") {
		return
	}
	switch repr {
	case "f64":
		doc = h.Decode(valText, false)
	case "num":
		doc = h.Decode(valText, true)
	case "i64", "lit":
		// an int64 item: a Go int64 in the document, or an integer literal of the path
		iv, err := strconv.ParseInt(valText, 10, 64)
		if err != nil {
			return
		}
		doc = iv
		if repr == "lit" {
			ptxt = fmt.Sprintf("(%s).decimal(%d,%d)", valText, p, s)
			if pp = cachedPath(ptxt); pp == nil {
				c.Count("gen.unparsable", 1)
				return
			}
			doc = nil
		}
	default:
		doc = valText
		docText = strconv.Quote(valText)
	}
	o := h.Call("query", pp, doc, h.Opts{})
	c.Eval(1)
	c.Distinct(ptxt, valText, repr)
	cs := h.Case{Kind: "decimal", Path: ptxt, Doc: docText, UseNum: repr == "num", Extra: map[string]string{"val": valText, "repr": repr, "p": fmt.Sprint(p), "s": fmt.Sprint(s)}}
	if o.Class == h.Panic || o.Class == h.Invalid {
		c.Skip("decimal.value", "panic-or-invalid-is-C05")
		return
	}
	badArgs := p < 1 || p > 1000 || s < -1000 || s > 1000
	exact, okr := new(big.Rat).SetString(valText)
	var f float64
	if okr {
		f, _ = exact.Float64()
	}
	outOfRange := !okr || math.IsInf(f, 0)
	feat := h.F("repr", repr)
	if badArgs {
		if outOfRange {
			return
		}
		if o.Class != h.Hard {
			c.Violate("decimal.args", feat, fmt.Sprintf("%s on %s returned %s; precision/scale out of range must be a non-suppressible error", ptxt, docText, o.Summary()), cs)
		} else {
			c.Held("decimal.args")
		}
		return
	}
	if outOfRange {
		if o.Class == h.OK {
			if v, ok := o.Items[0].(float64); ok && (math.IsNaN(v) || math.IsInf(v, 0)) {
				c.Violate("decimal.range", feat, fmt.Sprintf("%s on %s returned %v", ptxt, docText, v), cs)
			}
		}
		return
	}
	// value as the implementation is documented to see it: the double
	bin := new(big.Rat).SetFloat64(f)
	pow := func(n int64) *big.Rat {
		e := new(big.Int).Exp(big.NewInt(10), big.NewInt(abs64i(n)), nil)
		r := new(big.Rat).SetInt(e)
		if n < 0 {
			r.Inv(r)
		}
		return r
	}
	limit := pow(p - s) // |result| < 10^(p-s)
	var cands []*big.Rat
	for _, src := range []*big.Rat{exact, bin} {
		scaled := new(big.Rat).Mul(src, pow(s))
		for _, q := range roundInts(scaled) {
			cands = append(cands, new(big.Rat).Mul(new(big.Rat).SetInt(q), pow(-s)))
		}
	}
	anyFits, anyOver := false, false
	for _, cd := range cands {
		if new(big.Rat).Abs(cd).Cmp(limit) < 0 {
			anyFits = true
		} else {
			anyOver = true
		}
	}
	switch o.Class {
	case h.Soft:
		if anyOver || !anyFits {
			c.Held("decimal.range")
		} else {
			feat["kind"] = "rejected-fitting-value"
			c.Violate("decimal.range", feat, fmt.Sprintf("%s on %s returned %s but the rounded value %s fits precision %d scale %d", ptxt, docText, o.Summary(), ratText(cands[0]), p, s), cs)
		}
	case h.Hard:
		feat["kind"] = "hard-error"
		c.Violate("decimal.range", feat, fmt.Sprintf("%s on %s returned a non-suppressible error %s", ptxt, docText, o.Summary()), cs)
	case h.OK:
		if len(o.Items) != 1 {
			c.Violate("decimal.value", feat, fmt.Sprintf("%s on %s returned %s", ptxt, docText, o.Summary()), cs)
			return
		}
		v, ok := o.Items[0].(float64)
		if !ok {
			if iv, ok2 := o.Items[0].(int64); ok2 {
				v, ok = float64(iv), true
			}
		}
		if !ok || math.IsNaN(v) || math.IsInf(v, 0) {
			feat["kind"] = "non-finite"
			c.Violate("decimal.range", feat, fmt.Sprintf("%s on %s returned %s", ptxt, docText, o.Summary()), cs)
			return
		}
		got := new(big.Rat).SetFloat64(v)
		if new(big.Rat).Abs(got).Cmp(limit) >= 0 && !anyFitsNear(cands, limit, v) {
			feat["kind"] = "exceeds-precision"
			c.Violate("decimal.range", feat, fmt.Sprintf("%s on %s returned %v, which needs more than precision %d with scale %d (limit 10^%d)", ptxt, docText, v, p, s, p-s), cs)
			return
		}
		c.Held("decimal.range")
		// beyond 2^47 the scaled value has less than 1/32 of fractional resolution
		// in a double: the documented float64 caveat, only the range is asserted
		if sc := new(big.Rat).Abs(new(big.Rat).Mul(bin, pow(s))); sc.Cmp(new(big.Rat).SetInt64(1<<47)) > 0 {
			c.Skip("decimal.value", "beyond-float64-precision")
			return
		}
		// the implementation scales in float64: when the scaled value lies within
		// two ulps of a rounding tie the product's own rounding decides (documented
		// float64 caveat); only the range is asserted then
		{
			sc := new(big.Rat).Mul(bin, pow(s))
			scf, _ := sc.Float64()
			ulp := math.Abs(math.Nextafter(scf, math.Inf(1)) - scf)
			fl := new(big.Int).Div(sc.Num(), sc.Denom())
			frac := new(big.Rat).Sub(sc, new(big.Rat).SetInt(fl))
			d := new(big.Rat).Sub(frac, big.NewRat(1, 2))
			d.Abs(d)
			df, _ := d.Float64()
			if df != 0 && df <= 2*ulp {
				c.Skip("decimal.value", "near-tie-at-float64-resolution")
				return
			}
		}
		// value within 4 ulp of a candidate
		good := false
		for _, cd := range cands {
			cf, _ := cd.Float64()
			if within4ulp(cf, v) {
				good = true
			}
		}
		if !good {
			feat["kind"] = "wrong-value"
			c.Violate("decimal.value", feat, fmt.Sprintf("%s on %s returned %v; expected %s (within 4 ulp)", ptxt, docText, v, ratText(cands[0])), cs)
		} else {
			c.Held("decimal.value")
		}
	}
}

func anyFitsNear(cands []*big.Rat, limit *big.Rat, v float64) bool { return false }

func abs64i(x int64) int64 {
	if x < 0 {
		return -x
	}
	return x
}

func ratText(r *big.Rat) string {
	f, _ := r.Float64()
	return strconv.FormatFloat(f, 'g', -1, 64)
}

func within4ulp(a, b float64) bool {
	if a == b {
		return true
	}
	x, y := a, b
	for i := 0; i < 4; i++ {
		x = math.Nextafter(x, b)
		if x == b {
			return true
		}
	}
	_ = y
	return false
}

// roundInts: nearest integers of r: ties give both half-away and half-even.
func roundInts(r *big.Rat) []*big.Int {
	fl := new(big.Int).Div(r.Num(), r.Denom()) // floor
	frac := new(big.Rat).Sub(r, new(big.Rat).SetInt(fl))
	up := new(big.Int).Add(fl, big.NewInt(1))
	switch frac.Cmp(big.NewRat(1, 2)) {
	case -1:
		return []*big.Int{fl}
	case 1:
		return []*big.Int{up}
	}
	return []*big.Int{fl, up}
}

func replayC16(c *h.Ctx, cs h.Case) {
	switch cs.Kind {
	case "decimal":
		var p, s int64
		fmt.Sscan(cs.Extra["p"], &p)
		fmt.Sscan(cs.Extra["s"], &s)
		decimalCheck(c, cs.Extra["val"], cs.Extra["repr"], p, s)
	case "exec":
		ec, err := CaseFrom(cs)
		if err != nil {
			return
		}
		o := h.Call("query", ec.P, ec.DocValue(), ec.Opts())
		verdict, feat, detail := modelVerdict(ec, o)
		if verdict == "violated" {
			c.Violate("method.value", feat, detail, cs)
		}
	default:
		runKeyvalue(c, 200)
	}
}

// ---------------------------------------------------------------------------
// keyvalue ids

type kvObs struct {
	owner string
	id    int64
}

// observeKV runs `$.**.keyvalue()` style path and groups triple ids by owner marker.
func observeKV(c *h.Ctx, ptxt string, doc any) (map[string]map[int64]bool, bool, *h.Out) {
	p := cachedPath(ptxt)
	o := h.Call("query", p, doc, h.Opts{})
	c.Eval(1)
	if o.Class != h.OK {
		return nil, false, o
	}
	// every object of the generated documents carries a unique "m" member
	// (its marker); a triple with key "m" tells which object the id belongs to,
	// and the other triples of the same object follow it directly (keys sorted).
	byOwner := map[string]map[int64]bool{}
	cur := ""
	for _, it := range o.Items {
		t, ok := it.(map[string]any)
		if !ok || len(t) != 3 {
			return nil, false, o
		}
		k, _ := t["key"].(string)
		id, okid := t["id"].(int64)
		if !okid {
			return nil, false, o
		}
		if k == "!m" {
			cur, _ = t["value"].(string)
		}
		if byOwner[cur] == nil {
			byOwner[cur] = map[int64]bool{}
		}
		byOwner[cur][id] = true
	}
	return byOwner, true, o
}

// slabDoc builds a document whose objects are allocated in one run, so that
// children lie on both sides of the root object in memory.
func slabDoc(n int, rootAt int) (any, []map[string]any) {
	maps := make([]map[string]any, n)
	for i := range maps {
		maps[i] = map[string]any{"!m": fmt.Sprintf("o%d", i), "v": float64(i)}
	}
	root := maps[rootAt]
	kids := []any{}
	for i, m := range maps {
		if i != rootAt {
			kids = append(kids, m)
		}
	}
	root["kids"] = kids
	return root, maps
}

func runKeyvalue(c *h.Ctx, rounds int) {
	r := c.Rand("c16-kv")
	sink := [][]byte{}
	for round := 0; round < rounds; round++ {
		n := 3 + r.IntN(12)
		rootAt := r.IntN(n)
		doc, maps := slabDoc(n, rootAt)
		nobj := len(maps)
		ptxt := `$.** ? (@.type() == "object").keyvalue()`
		if round%2 == 1 {
			ptxt = `strict $.** ? (@.type() == "object").keyvalue()`
		}
		cs := h.Case{Kind: "keyvalue", Path: ptxt, Extra: map[string]string{"objects": fmt.Sprint(n), "root-at": fmt.Sprint(rootAt)}}
		by, ok, o := observeKV(c, ptxt, doc)
		c.Distinct("kv", fmt.Sprint(round, n, rootAt))
		if !ok {
			if o.Class == h.Panic || o.Class == h.Invalid {
				c.Skip("kv.shape", "panic-or-invalid-is-C05")
			} else {
				c.Violate("kv.shape", h.F("kind", "not-triples"), fmt.Sprintf("%s returned %s", ptxt, o.Summary()), cs)
			}
			continue
		}
		if len(by) != nobj {
			c.Violate("kv.shape", h.F("kind", "object-count"), fmt.Sprintf("%s on a document of %d objects produced triples for %d objects", ptxt, nobj, len(by)), cs)
			continue
		}
		c.Held("kv.shape")
		// ids equal within an object
		eq := true
		for owner, ids := range by {
			if len(ids) != 1 {
				eq = false
				c.Violate("kv.id.equal", h.F("kind", "differ-within-object"), fmt.Sprintf("object %s got ids %v", owner, keysOf(ids)), cs)
				break
			}
		}
		if eq {
			c.Held("kv.id.equal")
		}
		// distinct across objects
		seen := map[int64]string{}
		dup := ""
		cause := "unexplained"
		addr := func(owner string) int64 {
			var i int
			fmt.Sscanf(owner, "o%d", &i)
			return int64(reflect.ValueOf(maps[i]).Pointer())
		}
		for owner, ids := range by {
			for id := range ids {
				if other, ok := seen[id]; ok {
					dup = fmt.Sprintf("objects %s and %s share id %d (root is o%d of %d objects allocated in one run)", other, owner, id, rootAt, n)
					// the two objects lie at the same distance on either side of the base object
					base := int64(reflect.ValueOf(maps[rootAt]).Pointer())
					if a, b := addr(owner), addr(other); a-base == base-b && a != b {
						cause = "abs-offset-symmetry"
					}
				}
				seen[id] = owner
			}
		}
		if dup != "" {
			c.Violate("kv.id.distinct", h.F("cause", cause), dup, cs)
		} else {
			c.Held("kv.id.distinct")
		}
		// ids do not depend on what was evaluated before in the same query: a filter whose
		// condition applies .keyvalue() and then fails (suppressed) must leave the base object alone
		ctxPath := `$.** ? (@.type() == "object") ? ((@.keyvalue().value.integer() > 1000000) is unknown).keyvalue()`
		if byc, okc, _ := observeKV(c, ctxPath, doc); okc {
			same := len(byc) == len(by)
			for owner, ids := range by {
				if fmt.Sprint(keysOf(ids)) != fmt.Sprint(keysOf(byc[owner])) {
					same = false
				}
			}
			if !same {
				c.Violate("kv.id.stable", h.F("kind", "depends-on-earlier-evaluation"), "ids differ when a filter that applied .keyvalue() and failed was evaluated earlier in the same query: "+ctxPath, cs)
			} else {
				c.Held("kv.id.stable")
			}
		}
		// stable over repeated executions on the same document value, with GC churn in between
		for i := 0; i < 20; i++ {
			sink = append(sink, make([]byte, 1<<12))
		}
		if round%8 == 0 {
			runtime.GC()
			sink = sink[:0]
		}
		by2, ok2, _ := observeKV(c, ptxt, doc)
		same := ok2 && len(by2) == len(by)
		if same {
			for owner, ids := range by {
				if fmt.Sprint(keysOf(ids)) != fmt.Sprint(keysOf(by2[owner])) {
					same = false
				}
			}
		}
		if !same {
			c.Violate("kv.id.stable", h.F("kind", "changed"), "ids changed between two executions on the same document", cs)
		} else {
			c.Held("kv.id.stable")
		}
		// objects reached through a variable: their ids are stable over
		// repeated executions given the same variables map (each execution
		// builds its options anew, as callers do)
		if round%4 == 2 {
			vmap := map[string]any{"o": h.Decode(`{"p":{"x":1,"y":2},"q":{"z":3},"r":[{"s":4}]}`, round%8 == 2), "n": 1.0}
			for _, vp := range []string{"$o.keyvalue()", "$o.*.keyvalue().id", "$o.**.keyvalue()", "$o.r[*].keyvalue().id", "$ ? (exists($o.p.keyvalue() ? (@.id > 0)))"} {
				vpp := cachedPath(vp)
				if vpp == nil {
					continue
				}
				a1 := h.Call("query", vpp, doc, h.Opts{Vars: vmap})
				for i := 0; i < 8; i++ {
					sink = append(sink, make([]byte, 1<<10))
				}
				a2 := h.Call("query", vpp, doc, h.Opts{Vars: vmap})
				c.Eval(2)
				if a1.Class == h.OK && a2.Class == h.OK {
					if h.CanonBag(a1.Items) != h.CanonBag(a2.Items) {
						c.Violate("kv.id.stable", h.F("kind", "variable-object"), fmt.Sprintf("%s with the same variables map returned %s, then %s", vp, h.CanonBag(a1.Items), h.CanonBag(a2.Items)), h.Case{Kind: "kv", Path: vp})
					} else {
						c.Held("kv.id.stable")
					}
				}
			}
		}
		// the id .keyvalue() gives a triple is the same whether the second
		// .keyvalue() is chained or sits inside a filter on the triple
		if round%4 == 1 {
			kdoc := h.Decode(`{"b":{"c":2,"d":3},"e":{"f":1},"g":5}`, round%8 == 1)
			och := h.Call("query", cachedPath("$.keyvalue().keyvalue().id"), kdoc, h.Opts{})
			c.Eval(1)
			if och.Class == h.OK && len(och.Items) == 9 {
				uniq := map[string]any{}
				for _, it := range och.Items {
					uniq[h.Canon(it)] = it
				}
				keys := map[string]bool{}
				bad := ""
				for _, x := range uniq {
					for _, form := range []string{"$.keyvalue() ? (@.keyvalue().id == $x).key", "$.keyvalue() ? (exists(@ ? (@.keyvalue().id == $x))).key", "strict $.keyvalue() ? (@.keyvalue().id == $x && @.keyvalue().key == \"id\").key"} {
						of := h.Call("query", cachedPath(form), kdoc, h.Opts{Vars: map[string]any{"x": x}})
						c.Eval(1)
						if of.Class != h.OK || len(of.Items) != 1 {
							bad = fmt.Sprintf("%s with x = %s (an id reported by $.keyvalue().keyvalue().id) returned %s; exactly one triple has that id", form, h.Canon(x), of.Summary())
						} else {
							keys[h.Canon(of.Items[0])] = true
						}
					}
				}
				if bad == "" && (len(uniq) != 3 || len(keys) != 3) {
					bad = fmt.Sprintf("$.keyvalue().keyvalue().id on an object of 3 members reported %d distinct ids matching %d triples", len(uniq), len(keys))
				}
				if bad != "" {
					c.Violate("kv.id.equal", h.F("kind", "chained-vs-in-filter"), bad, cs)
				} else {
					c.Held("kv.id.equal")
				}
			}
		}
		// ... also for objects reached through the triple of an earlier .keyvalue()
		// (the value member of a triple is the document's own object)
		nested := "$.keyvalue().value.keyvalue().id"
		if pn := cachedPath(nested); pn != nil && round%4 == 0 {
			ndoc := h.Decode(`{"b":{"c":2,"d":3},"e":{"f":1}}`, false)
			o1 := h.Call("query", pn, ndoc, h.Opts{})
			for i := 0; i < 1+round%5; i++ {
				sink = append(sink, make([]byte, 1<<(4+i)))
			}
			o2 := h.Call("query", pn, ndoc, h.Opts{})
			c.Eval(2)
			if o1.Class == h.OK && o2.Class == h.OK && len(o1.Items) > 0 {
				if h.CanonList(o1.Items) != h.CanonList(o2.Items) {
					c.Violate("kv.id.stable", h.F("cause", "distance-to-a-triple-allocated-per-execution"), fmt.Sprintf("%s returned %s, then %s on the same document value", nested, h.CanonList(o1.Items), h.CanonList(o2.Items)), cs)
				} else {
					c.Held("kv.id.stable")
				}
			}
		}
	}
	// one pair per member of the object as it is now: wide objects (3 to 60
	// members) whose owner replaces a member between two executions (same
	// number of members), and short-lived objects of one shape, one after the other
	{
		k := 0
		for _, width := range []int{3, 15, 16, 17, 33, 60} {
			for _, pt := range []string{`$.keyvalue()`, `$.o.keyvalue()`, `strict $.o.keyvalue()`, `$.list[*].keyvalue()`} {
				k++
				if !c.Mine(k) {
					continue
				}
				p := cachedPath(pt)
				mk := func(round int) map[string]any {
					m := map[string]any{}
					for i := 0; i < width; i++ {
						m[fmt.Sprintf("k%02d", i)] = float64(i + round)
					}
					return m
				}
				wrap := func(m map[string]any) any {
					switch {
					case strings.Contains(pt, ".o."):
						return map[string]any{"o": m}
					case strings.Contains(pt, "list"):
						return map[string]any{"list": []any{m}}
					}
					return m
				}
				pairsOf := func(o *h.Out) string {
					if o.Class != h.OK {
						return o.Summary()
					}
					var ps []string
					for _, it := range o.Items {
						t, _ := it.(map[string]any)
						ps = append(ps, fmt.Sprintf("%v=%s", t["key"], h.Canon(t["value"])))
					}
					return strings.Join(ps, " ")
				}
				wantOf := func(m map[string]any) string {
					var ps []string
					for _, key := range h.SortedKeys(m) {
						ps = append(ps, fmt.Sprintf("%v=%s", key, h.Canon(m[key])))
					}
					sort.Strings(ps)
					return strings.Join(ps, " ")
				}
				sorted := func(s string) string {
					ps := strings.Fields(s)
					sort.Strings(ps)
					return strings.Join(ps, " ")
				}
				m := mk(0)
				doc := wrap(m)
				bad := ""
				for step := 0; step < 6 && bad == ""; step++ {
					got := pairsOf(h.Call("query", p, doc, h.Opts{}))
					c.Eval(1)
					if sorted(got) != wantOf(m) {
						bad = fmt.Sprintf("after %d edits: %s; the object's members: %s", step, got, wantOf(m))
					}
					// the owner replaces one member by another
					delete(m, fmt.Sprintf("k%02d", step))
					m[fmt.Sprintf("renamed%d", step)] = "new"
				}
				for round := 1; round <= 40 && bad == ""; round++ {
					mm := mk(round)
					if round%2 == 0 {
						delete(mm, "k01")
						mm["other"] = true
					}
					got := pairsOf(h.Call("query", p, wrap(mm), h.Opts{}))
					c.Eval(1)
					if sorted(got) != wantOf(mm) {
						bad = fmt.Sprintf("object %d of a series of short-lived objects: %s; its members: %s", round, got, wantOf(mm))
					}
					if round%8 == 0 {
						runtime.GC()
					}
				}
				cs := h.Case{Kind: "kv", Path: pt, Extra: map[string]string{"width": fmt.Sprint(width)}}
				if bad != "" {
					c.Violate("kv.shape", h.F("kind", "pairs-of-an-earlier-object", "width", fmt.Sprint(width)), fmt.Sprintf("%s on an object of %d members: %s", pt, width, bad), cs)
				} else {
					c.Held("kv.shape")
				}
			}
		}
	}
	// member names that differ only in letter case: the pairs come in one order,
	// and the objects generated for them carry the same numbers, in every execution
	{
		m := map[string]any{"a": 1.0, "A": 2.0, "b": 3.0, "B": 4.0, "aB": 5.0, "Ab": 6.0, "ab": 7.0, "AB": 8.0}
		for pi, pt := range []string{`$.keyvalue().key`, `$.keyvalue().keyvalue().id`, `$.keyvalue() ? (@.key == "a").keyvalue().id`, `$.keyvalue().value`} {
			if !c.Mine(pi) {
				continue
			}
			p := cachedPath(pt)
			fp := func() string {
				o := h.Call("query", p, m, h.Opts{})
				if o.Class != h.OK {
					return o.Summary()
				}
				var sb strings.Builder
				for _, it := range o.Items {
					switch x := it.(type) {
					case int64:
						fmt.Fprintf(&sb, "%d ", x/10000000000) // (the number of the generated object; the distance part is the recorded finding)
					case float64:
						if strings.Contains(pt, ".id") {
							fmt.Fprintf(&sb, "%d ", int64(x)/10000000000)
						} else {
							fmt.Fprintf(&sb, "%v ", x)
						}
					default:
						fmt.Fprintf(&sb, "%v ", x)
					}
				}
				return sb.String()
			}
			first := fp()
			bad := ""
			for r := 0; r < 60 && bad == ""; r++ {
				if got := fp(); got != first {
					bad = fmt.Sprintf("execution %d: %s; first execution: %s", r+2, got, first)
				}
			}
			c.Eval(61)
			if bad != "" {
				c.Violate("kv.id.stable", h.F("kind", "case-variant-keys"), fmt.Sprintf("%s on an object whose member names differ only in letter case: %s", pt, bad), h.Case{Kind: "kv", Path: pt})
			} else {
				c.Held("kv.id.stable")
			}
		}
	}
	// below .** a strict path forgives structural mismatches and nothing else:
	// a numeric method applied to an item that is no number is still refused
	{
		k := 0
		for _, m := range []string{"abs", "floor", "ceiling", "double", "integer", "bigint", "number", "decimal", "boolean", "string"} {
			for _, form := range []string{"strict $.**{1}.%s()", "strict $.**.v.%s()", "strict $.**{1 to 2}.%s()", "$.**{1}.%s()"} {
				k++
				if !c.Mine(k) {
					continue
				}
				for _, d := range []string{`[-1.5,{"v":"x"},-2.5]`, `[-1.5,{"v":{}},-2.5]`, `{"a":{"v":[]},"b":{"v":1}}`, `[[1],{"v":null}]`} {
					ec, err := CaseFrom(h.Case{Path: fmt.Sprintf(form, m), Doc: d})
					if err != nil {
						continue
					}
					o := h.Call("query", ec.P, ec.DocValue(), ec.Opts())
					c.Eval(1)
					switch verdict, feat, detail := modelVerdict(ec, o); {
					case verdict == "held":
						c.Held("method.reject")
					case strings.HasPrefix(verdict, "skip:"):
						c.Skip("method.reject", strings.TrimPrefix(verdict, "skip:"))
					case feat["cause"] != "" && feat["cause"] != "unexplained":
						c.Skip("method.reject", "recorded-finding:"+feat["cause"])
					default:
						feat["method"] = m
						c.Violate("method.reject", feat, detail, ec.Case())
					}
				}
			}
		}
	}
	c.Sample("keyvalue", map[string]any{"path": "$.**.keyvalue()", "doc": "slab-allocated objects o0..oN, root in the middle, each with a marker member"})
}

func keysOf(m map[int64]bool) []int64 {
	var ks []int64
	for k := range m {
		ks = append(ks, k)
	}
	sort.Slice(ks, func(i, j int) bool { return ks[i] < ks[j] })
	return ks
}

func runC16(c *h.Ctx) {
	idx := 0
	// methods x inputs
	for _, m := range c16Methods {
		if m == "decimal" || m == "keyvalue" {
			continue
		}
		for _, lax := range []bool{true, false} {
			for _, t := range c16Nums {
				idx++
				if !c.Mine(idx) {
					continue
				}
				checkMethodGrid(c, m, t, false, lax)
				checkMethodGrid(c, m, t, true, lax)
				checkMethodGrid(c, m, strconv.Quote(t), false, lax)
				checkMethodGrid(c, m, "["+t+`,"`+t+`"]`, true, lax)
			}
			for _, t := range c16Other {
				idx++
				if !c.Mine(idx) {
					continue
				}
				checkMethodGrid(c, m, t, false, lax)
				checkMethodGrid(c, m, t, true, lax)
			}
		}
	}
	// every one-character string (U+0000..U+017F) and every two-character
	// string over a small alphabet of word starts, digits, blanks and control
	// characters, through the methods that parse strings: only the documented
	// words and number spellings may be accepted
	var shortStrs []string
	for cp := rune(0); cp < 0x180; cp++ {
		shortStrs = append(shortStrs, string(cp))
	}
	alpha2 := []rune{'t', 'T', 'f', 'F', 'y', 'n', 'N', 'o', 'O', '1', '0', ' ', 0x10, 0x11, 0x00, 0x14, 'e', '.', '-', '+', 0x2d ^ 0x20, 0x7f, 0x131, 0x212a}
	for _, a := range alpha2 {
		for _, b := range alpha2 {
			shortStrs = append(shortStrs, string([]rune{a, b}))
		}
	}
	for _, m := range []string{"boolean", "integer", "bigint", "number", "double", "decimal"} {
		for _, t := range shortStrs {
			idx++
			if !c.Mine(idx) {
				continue
			}
			q, _ := json.Marshal(t)
			checkMethodGrid(c, m, string(q), false, idx%2 == 0)
		}
	}
	// one method applied to what another one returned (an int64, a double, a
	// string that was a number): the second sees the value, whatever Go type
	// carries it
	for _, pair := range []string{"bigint().abs", "bigint().floor", "bigint().ceiling", "integer().abs", "bigint().double", "bigint().string", "bigint().number", "integer().bigint", "double().bigint", "number().integer",
		"string().bigint", "abs().bigint", "bigint().abs().string", "size().abs", "integer().decimal", "floor().integer", "ceiling().bigint", "bigint().type", "double().abs().floor"} {
		for _, t := range c16Nums {
			idx++
			if !c.Mine(idx) {
				continue
			}
			checkMethodGrid(c, pair, t, true, idx%2 == 0)
			checkMethodGrid(c, pair, strconv.Quote(t), false, idx%2 == 1)
			checkMethodGrid(c, pair, t, false, idx%2 == 0)
		}
	}
	// .keyvalue() followed by steps that hand the triples on (a filter, a lax
	// subscript, .**{0}): each triple is an object of its own
	for i, pt := range []string{`$.keyvalue() ? (@.key == "a")`, `$.keyvalue() ? (@.value > 1)`, `$.keyvalue()[0]`, `$.keyvalue()[*]`, `$.keyvalue().**{0}`, `$.keyvalue() ? (@.key != "b").value`, `$.keyvalue()[0 to last] ? (@.key == "b")`,
		`$.*.keyvalue() ? (@.key == "x")`, `$.keyvalue() ? (@.key == "a" || @.key == "c").key`, `strict $.keyvalue() ? (@.key == "b")`, `$.keyvalue() ? (exists(@.value.x))`} {
		if !c.Mine(i) {
			continue
		}
		for _, d := range []string{`{"a":1,"b":2,"c":3}`, `{"c":{"x":1,"y":2},"a":{"x":3},"b":5}`, `{"b":[1,2],"a":"s"}`, `{"a":1}`} {
			for _, useNum := range []bool{false, true} {
				p := cachedPath(pt)
				if p == nil {
					continue
				}
				ec := &ExecCase{Text: pt, P: p, Doc: d, UseNum: useNum}
				o := h.Call("query", p, ec.DocValue(), ec.Opts())
				c.Eval(1)
				verdict, feat, detail := modelVerdict(ec, o)
				switch {
				case verdict == "held":
					c.Held("kv.shape")
				case strings.HasPrefix(verdict, "skip:"):
					c.Skip("kv.shape", strings.TrimPrefix(verdict, "skip:"))
				default:
					feat["form"] = "handed-on"
					c.Violate("kv.shape", feat, pt+" on "+d+": "+detail, ec.Case())
				}
			}
		}
	}
	c.SetExhaustive("11 methods x numeric grid (float64, json.Number, string, array) x other input kinds x lax/strict x silent/verbose; decimal (p,s) grid")
	// keyvalue on plain inputs through the model
	for i, t := range append(append([]string{}, c16Other...), `{"a":1,"b":{"c":2}}`, `[{"a":1},{"b":2}]`, `{"a":null}`) {
		if c.Mine(i) {
			checkMethodGrid(c, "keyvalue", t, false, true)
			checkMethodGrid(c, "keyvalue", t, false, false)
		}
	}
	// decimal grid
	// integers with exactly p-s digits, of either sign, in every representation
	for _, t := range []string{"-1", "9", "-9", "-123", "999", "-999", "-1000", "12", "-12", "-99", "-2147483648", "2147483647", "-999999999999999", "999999999999999", "-9999999999999999", "-1234567890123456"} {
		for _, ps := range [][2]int64{{1, 0}, {2, 0}, {3, 0}, {4, 0}, {5, 2}, {3, 1}, {10, 0}, {15, 0}, {16, 0}, {17, 1}, {2, -1}, {1, -2}} {
			idx++
			if !c.Mine(idx) {
				continue
			}
			for _, rp := range []string{"f64", "num", "str", "i64", "lit"} {
				decimalCheck(c, t, rp, ps[0], ps[1])
			}
		}
	}
	// float64 items that are no numbers (a document built in Go may hold NaN
	// and the infinities): no conversion method turns them into a value
	// (.abs()/.floor()/.ceiling() hand them through; they are no JSON values,
	// so nothing is asserted there)
	for i, v := range []float64{math.NaN(), math.Inf(1), math.Inf(-1)} {
		for j, m := range []string{"double()", "number()", "integer()", "bigint()", "decimal()", "decimal(5,2)"} {
			idx++
			if !c.Mine(idx) {
				continue
			}
			_, _ = i, j
			// (the value sits inside containers: the hooks compare the root and
			// the current item by identity, and NaN is not equal to itself)
			for _, form := range []string{"$.a.%s", "$.arr[*].%s", "$ ? (@.a.%s < 0 || @.a.%s >= 0)", "$.a.%s.type()", "$.arr.%s"} {
				ptxt := strings.ReplaceAll(form, "%s", m)
				p := cachedPath(ptxt)
				if p == nil {
					continue
				}
				var doc any = map[string]any{"a": v, "arr": []any{v}}
				o := h.Call("query", p, doc, h.Opts{})
				c.Eval(1)
				cs := h.Case{Kind: "exec", Path: ptxt, Extra: map[string]string{"document": fmt.Sprint("float64 ", v)}}
				bad := o.Class == h.OK && len(o.Items) > 0
				if o.Class == h.Panic || o.Class == h.Invalid {
					continue
				}
				if bad {
					c.Violate("method.reject", h.F("method", m, "input", "non-finite-float64"), fmt.Sprintf("Query(%s) on the float64 %v = %s; NaN and the infinities are not numbers any conversion accepts", ptxt, v, o.Summary()), cs)
				} else {
					c.Held("method.reject")
				}
			}
		}
	}
	// each .decimal(p,s) of a path has its own arguments: several of them in
	// one execution (chained, one inside a filter and one after it, one on each
	// side of a comparison) behave as each does alone
	{
		args := []string{"", "10,2", "2,0", "6,2", "4,0", "5,1", "3,1", "1,0", "8,3", "2,-1", "38,10"}
		inputs := []string{"1234.5", "1234.5678", "12.34", "12.3", "99.95", "-7.25", "0.5", "123456.789", "15", "-0.04"}
		run := func(ptxt string, doc any) *h.Out {
			p := cachedPath(ptxt)
			if p == nil {
				return nil
			}
			c.Eval(1)
			return h.Call("query", p, doc, h.Opts{})
		}
		for ai, a := range args {
			for bi, b := range args {
				if a == b {
					continue
				}
				idx++
				if !c.Mine(idx) {
					continue
				}
				_, _ = ai, bi
				for _, in := range inputs {
					for _, useNum := range []bool{false, true} {
						x := h.Decode(in, useNum)
						cs := h.Case{Kind: "exec", Path: "$.decimal(" + a + ").decimal(" + b + ")", Doc: in, UseNum: useNum}
						o1 := run("$.decimal("+a+")", x)
						of := run("$.decimal("+a+").decimal("+b+")", x)
						if o1 == nil || of == nil || o1.Class == h.Panic || of.Class == h.Panic {
							continue
						}
						want := o1
						if o1.Class == h.OK && len(o1.Items) == 1 {
							want = run("$.decimal("+b+")", o1.Items[0])
						}
						if want.Class != of.Class || want.Class == h.OK && h.CanonListTyped(want.Items) != h.CanonListTyped(of.Items) {
							c.Violate("decimal.args", h.F("kind", "two-in-one-execution", "form", "chained"), fmt.Sprintf("Query(%s) on %s = %s; .decimal(%s) gives %s and .decimal(%s) of that gives %s", cs.Path, in, of.Summary(), a, o1.Summary(), b, want.Summary()), cs)
						} else {
							c.Held("decimal.args")
						}
						// one in a filter, one after it; one on each side of a comparison
						fa := run("$ ? (@.decimal("+a+") == @.decimal("+a+")).decimal("+b+")", x)
						ob := run("$.decimal("+b+")", x)
						oa := run("$.decimal("+a+")", x)
						if fa != nil && ob != nil && oa != nil && fa.Class != h.Panic {
							wantClass, wantItems := ob.Class, h.CanonListTyped(ob.Items)
							if oa.Class != h.OK { // the condition is unknown: nothing passes the filter
								wantClass, wantItems = h.OK, h.CanonListTyped(nil)
							}
							fcs := cs
							fcs.Path = "$ ? (@.decimal(" + a + ") == @.decimal(" + a + ")).decimal(" + b + ")"
							if fa.Class != wantClass || fa.Class == h.OK && h.CanonListTyped(fa.Items) != wantItems {
								c.Violate("decimal.args", h.F("kind", "two-in-one-execution", "form", "filter-then-step"), fmt.Sprintf("Query(%s) on %s = %s; the filter keeps the item iff .decimal(%s) succeeds (%s), and .decimal(%s) of the item is %s", fcs.Path, in, fa.Summary(), a, oa.Summary(), b, ob.Summary()), fcs)
							} else {
								c.Held("decimal.args")
							}
						}
					}
				}
			}
		}
	}
	// precision and scale are integers, however they are spelled in the path:
	// hexadecimal, octal, binary, with digit separators
	{
		run := func(ptxt string, doc any, silent bool) *h.Out {
			p := cachedPath(ptxt)
			if p == nil {
				c.Count("gen.unparsable", 1)
				return nil
			}
			c.Eval(1)
			return h.Call("query", p, doc, h.Opts{Silent: silent})
		}
		for _, sp := range [][2]string{{"6,2", "0x6,2"}, {"6,2", "6,0b10"}, {"10,2", "1_0,0x2"}, {"5,-2", "0x5,-0x2"}, {"8,3", "0o10,3"}, {"10,2", "0xA,0o2"}, {"10,2", "0b1010,2"}, {"38,10", "0x26,0xa"}, {"4,0", "4,0x0"},
			{"16,8", "0x1_0,0b1_000"}, {"1000,2", "0x3E8,2"}, {"1001,2", "0x3E9,2"}, {"5,1000", "5,0x3e8"}, {"5,-1001", "5,-0x3E9"}, {"2147483648,1", "0x80000000,1"}, {"12", "0xC"}, {"12", "1_2"}, {"3", "0b11"}} {
			idx++
			if !c.Mine(idx) {
				continue
			}
			for _, in := range []string{"1234.5", "12.345", "99.95", "-7.25", "0.5", "123456.789", "15", "-0.04", "1500", "\"12.5\""} {
				for _, useNum := range []bool{false, true} {
					for _, silent := range []bool{false, true} {
						x := h.Decode(in, useNum)
						od := run("$.decimal("+sp[0]+")", x, silent)
						oa := run("$.decimal("+sp[1]+")", x, silent)
						if od == nil || oa == nil || od.Class == h.Panic || oa.Class == h.Panic {
							continue
						}
						cs := h.Case{Kind: "exec", Path: "$.decimal(" + sp[1] + ")", Doc: in, UseNum: useNum, Silent: silent}
						if od.Class != oa.Class || od.Class == h.OK && h.CanonListTyped(od.Items) != h.CanonListTyped(oa.Items) || od.Class != h.OK && od.ErrText() != oa.ErrText() {
							c.Violate("decimal.args", h.F("kind", "spelling"), fmt.Sprintf("Query(%s) on %s = %s, but with the same arguments in decimal digits, $.decimal(%s) = %s", cs.Path, in, oa.Summary(), sp[0], od.Summary()), cs)
						} else {
							c.Held("decimal.args")
						}
					}
				}
			}
		}
	}
	// powers of ten: 10^k has k+1 digits - it does not fit p = k, it fits p = k+1
	for k := 0; k <= 22; k++ {
		idx++
		if !c.Mine(idx) {
			continue
		}
		t := "1" + strings.Repeat("0", k)
		for _, neg := range []string{"", "-"} {
			for _, rp := range []string{"f64", "num", "str", "i64", "lit"} {
				for _, sc := range []int64{0, 2, 7} {
					if k > 0 {
						decimalCheck(c, neg+t, rp, int64(k)+sc, sc)
					}
					decimalCheck(c, neg+t, rp, int64(k)+1+sc, sc)
					// the largest number with k digits and the tie below 10^k
					if k > 0 && k < 16 {
						decimalCheck(c, neg+strings.Repeat("9", k), rp, int64(k)+sc, sc)
						decimalCheck(c, neg+strings.Repeat("9", k)+".5", rp, int64(k)+sc, sc)
					}
				}
			}
		}
	}
	// no item, no conversion: the method applied to an empty sequence (a lax
	// empty array, a missing key) yields the empty sequence whatever its arguments
	for i, pt := range []string{"$.decimal(0)", "$.decimal(1001,2)", "$.decimal(5,-1001)", "$.nokey.decimal(0)", "$[*].decimal(0,0)", "$.e[*].decimal(-3)", "$ ? (@.nokey.decimal(0) > 1)"} {
		if !c.Mine(i) {
			continue
		}
		for _, d := range []string{`[]`, `{"e":[]}`} {
			if (strings.HasPrefix(pt, "$.decimal") || strings.HasPrefix(pt, "$[*]")) != (d == `[]`) {
				continue
			}
			o := h.Call("query", cachedPath(pt), h.Decode(d, false), h.Opts{})
			c.Eval(1)
			if o.Class != h.OK || len(o.Items) != 0 {
				c.Violate("decimal.args", h.F("kind", "no-item"), fmt.Sprintf("Query(%s) on %s = %s; there is no item to convert: the empty sequence", pt, d, o.Summary()), h.Case{Kind: "exec", Path: pt, Doc: d})
			} else {
				c.Held("decimal.args")
			}
		}
	}
	ps := []int64{1, 2, 3, 15, 16, 17, 38, 1000}
	ss := []int64{-1000, -2, -1, 0, 1, 2, 15, 1000}
	for _, t := range c16Nums {
		for _, p := range ps {
			for _, s := range ss {
				idx++
				if !c.Mine(idx) {
					continue
				}
				for _, rp := range []string{"f64", "num", "str", "i64", "lit"} {
					decimalCheck(c, t, rp, p, s)
				}
			}
		}
		for _, bad := range [][2]int64{{0, 0}, {1001, 0}, {-1, 0}, {5, 1001}, {5, -1001}, {1001, 1001}, {2147483647, 0}, {1, 2147483647}} {
			idx++
			if c.Mine(idx) {
				decimalCheck(c, t, "f64", bad[0], bad[1])
				decimalCheck(c, t, "num", bad[0], bad[1])
			}
		}
	}
	// random decimal
	r := c.Rand("c16")
	nd := c.PerShard(c.N(600000, 6000000))
	for i := 0; i < nd; i++ {
		var t string
		switch r.IntN(3) {
		case 0:
			t = c16Nums[r.IntN(len(c16Nums))]
		case 1:
			t = strconv.FormatFloat((r.Float64()-0.5)*math.Pow(10, float64(r.IntN(24)-8)), 'f', r.IntN(8), 64)
		default:
			t = strconv.FormatInt(r.Int64N(2000001)-1000000, 10) + "." + strconv.Itoa(r.IntN(1000))
		}
		p := int64(1 + r.IntN(40))
		s := int64(r.IntN(30) - 10)
		if r.IntN(20) == 0 {
			p, s = int64(1+r.IntN(1000)), int64(r.IntN(2001)-1000)
		}
		decimalCheck(c, t, []string{"f64", "num", "str"}[r.IntN(3)], p, s)
	}
	// .string() round trips
	for i, t := range append(append([]string{}, c16Nums...), "true", "false", `"abc"`, `""`) {
		if !c.Mine(i) {
			continue
		}
		for _, useNum := range []bool{false, true} {
			if !decodable(t, useNum) {
				continue
			}
			v := h.Decode(t, useNum)
			back := ".double()"
			if _, isInt := model.IntRepr(v); isInt {
				back = ".bigint()"
			}
			switch v.(type) {
			case bool:
				back = ".boolean()"
			case string:
				back = ""
			}
			ptxt := "$.string()" + back
			p := cachedPath(ptxt)
			o := h.Call("query", p, v, h.Opts{})
			c.Eval(1)
			cs := h.Case{Kind: "roundtrip", Path: ptxt, Doc: t, UseNum: useNum}
			if _, ok := h.Rat(v); h.IsNum(v) && !ok {
				continue
			}
			if h.IsNum(v) && !model.Representable(v) {
				c.Skip("string.roundtrip", "number-not-exactly-representable")
				continue
			}
			if o.Class != h.OK || len(o.Items) != 1 || h.Canon(o.Items[0]) != h.Canon(v) {
				if jn, ok := v.(json.Number); ok {
					if _, err := strconv.ParseFloat(string(jn), 64); err != nil {
						continue
					}
				}
				c.Violate("string.roundtrip", h.F("input", inputKind(t, useNum)), fmt.Sprintf("%s on %s returned %s; expected the value back", ptxt, t, o.Summary()), cs)
			} else {
				c.Held("string.roundtrip")
			}
		}
	}
	// keyvalue ids
	runKeyvalue(c, c.PerShard(c.N(40000, 400000)))
}
