package props

import (
	"context"
	"encoding/json"
	"errors"
	"fmt"
	"math/rand/v2"
	"sort"
	"strings"

	"verif/internal/gen"
	"verif/internal/h"
	"verif/internal/model"
)

func init() {
	register(&Prop{
		ID:    "C11",
		Level: "exploration",
		Rule: "complete truth tables: every assignment of {true, false, unknown, non-suppressible error} (several spellings each) to the operands of !, &&, ||, is unknown, as top-level predicate check and nested in a filter, lax and strict, silent and verbose; " +
			"plus random condition pairs p, q on random documents whose outcomes are first observed by executing them, then p && q, q && p, p || q, q || p, !p, !!p, !(p && q) vs !p || !q, (p) is unknown and exists(e) are compared with the Kleene tables. " +
			"Non-trivial: a compound whose operands are not both constants true/false; distinct by (expression, document, mode, options)",
		Run:          runC11,
		Replay:       replayC11,
		MinExercised: map[string]int64{"table.and": 300, "table.or": 300, "table.not": 50, "isunknown": 50, "law.and": 3000, "law.or": 3000, "law.dneg": 1000, "law.demorgan": 1000, "exists": 1000, "match": 1000, "law.commute.filter": 1000, "law.filter.meet": 1000},
		Assumptions: []string{
			"an operand that raises a non-suppressible error and is evaluated must make the whole expression fail with that error; on the right of a left operand that already decides the result it may be short-circuited or reported",
			"lax exists(e) on a failing e: true iff an item precedes the failure, else unknown (false tolerated: the statement says unknown arises only when e fails, not whenever it does)",
		},
	})
}

// triOf reads a predicate-check outcome.
func triOf(o *h.Out) (t model.Tri, isErr bool, ok bool) {
	if o.Class == h.Hard {
		return model.Unknown, true, true
	}
	if o.Class != h.OK || len(o.Items) != 1 {
		return model.Unknown, false, false
	}
	switch v := o.Items[0].(type) {
	case bool:
		return model.FromBool(v), false, true
	case nil:
		return model.Unknown, false, true
	}
	return model.Unknown, false, false
}

type tv struct {
	text string
	t    model.Tri
	err  bool
}

func constOperands(lax bool) []tv {
	ops := []tv{
		{"(1 == 1)", model.True, false}, {`("a" starts with "a")`, model.True, false}, {"(exists($))", model.True, false},
		{"(1 == 2)", model.False, false}, {`("a" like_regex "b")`, model.False, false}, {`(exists("x" ? (1 == 2)))`, model.False, false},
		{`(1 == "a")`, model.Unknown, false}, {`(1 starts with "a")`, model.Unknown, false}, {`(null.abs() == 1)`, model.Unknown, false}, {`($ < $)`, model.Unknown, false},
		// false through an operand that selects nothing (no pair to compare); an error raised inside a nested filter
		{`("x" ? (1 == 2) == 3)`, model.False, false}, {`("x" ? (1 == 2) != 3)`, model.False, false}, {`(3 == "x" ? (@ == 1))`, model.False, false},
		{`(exists("x" ? (@ == $missing)))`, model.Unknown, true}, {`("x" ? (exists(@ ? (@ == $missing))) == 1)`, model.Unknown, true},
		{"($missing == 1)", model.Unknown, true}, {`("2023-08-15".datetime() < "2023-08-15T12:00:00+01:00".datetime())`, model.Unknown, true}, {"(1.decimal(0) == 1)", model.Unknown, true},
	}
	// unknown through arithmetic that fails (a product beyond the doubles, a
	// division by zero) and through a number no comparison can read
	ops = append(ops, tv{`(exists($.h * $.h))`, model.Unknown, false}, tv{`($.h * $.h > 1)`, model.Unknown, false}, tv{`(exists($.a / 0))`, model.Unknown, false}, tv{`($.big == 1)`, model.Unknown, false}, tv{`(exists(-$.h * $.h * 10))`, model.Unknown, false})
	// unknown although the left operand selects nothing: the right one fails;
	// and a prefix that is an array (a variable is not unwrapped there)
	ops = append(ops, tv{`($.nokey == $.b.double())`, model.Unknown, false}, tv{`($.nokey > 1 / 0)`, model.Unknown, false}, tv{`("ab" starts with $sarr)`, model.Unknown, false}, tv{`($.b starts with $sarr)`, model.Unknown, false})
	if lax {
		ops = append(ops, tv{`($.nokey == $missing)`, model.Unknown, true})
	}
	if !lax {
		ops = append(ops, tv{`($.nokey == 1)`, model.Unknown, false}, tv{`(exists($.nokey))`, model.Unknown, false})
	} else {
		ops = append(ops, tv{`($.nokey == 1)`, model.False, false}, tv{`(exists($.nokey))`, model.False, false})
	}
	return ops
}

// expectBin gives the allowed outcomes of a binary connective.
// Returned: set of allowed (tri, isErr) pairs.
type outcomeSet struct {
	vals map[model.Tri]bool
	err  bool
}

func expectBin(op string, a, b tv) outcomeSet {
	s := outcomeSet{vals: map[model.Tri]bool{}}
	if a.err {
		s.err = true
		return s
	}
	decides := (op == "&&" && a.t == model.False) || (op == "||" && a.t == model.True)
	if b.err {
		if decides {
			s.vals[a.t] = true
			s.err = true // short-circuit or report
			return s
		}
		s.err = true
		return s
	}
	if op == "&&" {
		s.vals[model.And(a.t, b.t)] = true
	} else {
		s.vals[model.Or(a.t, b.t)] = true
	}
	return s
}

func (s outcomeSet) String() string {
	out := ""
	for t := range s.vals {
		out += t.String() + " "
	}
	if s.err {
		out += "error"
	}
	return out
}

func (s outcomeSet) allows(t model.Tri, isErr bool) bool {
	if isErr {
		return s.err
	}
	return s.vals[t]
}

var c11Seq int

type c11Eval struct {
	c      *h.Ctx
	doc    string
	useNum bool
	vars   string
	lax    bool
}

// run evaluates a predicate expression text at top level (Query+Match) or
// nested in a filter; returns the observed truth value.
func (e *c11Eval) run(expr string, nested, silent bool) (t model.Tri, isErr, ok bool, o *h.Out, cs h.Case) {
	mode := ""
	if !e.lax {
		mode = "strict "
	}
	txt := mode + expr
	if nested {
		// a string literal as the filtered item: it cannot be unwrapped in lax mode
		txt = mode + `"item" ? (` + expr + ")"
	}
	cs = h.Case{Kind: "kleene", Path: txt, Doc: e.doc, UseNum: e.useNum, Vars: e.vars, Silent: silent, TZ: false, Extra: map[string]string{"nested": fmt.Sprint(nested)}}
	p, err, pan := h.ParseSafe(txt)
	if err != nil || pan != "" {
		e.c.Count("gen.unparsable", 1)
		return 0, false, false, nil, cs
	}
	doc := h.Decode(e.doc, e.useNum)
	opts := h.Opts{Vars: h.DecodeVars(e.vars, e.useNum), Silent: silent}
	c11Seq++
	if c11Seq%3 == 0 {
		// the Path has been used before, with other options (WithTZ, a context
		// zone): the outcome of an operand is that of this call
		_ = h.Call([]string{"query", "match", "exists"}[c11Seq/3%3], p, doc, h.Opts{Vars: opts.Vars, TZ: true, Zone: h.ParseZone([]string{"+05:30", "UTC", "-08:00"}[c11Seq/9%3]), Silent: c11Seq%2 == 0})
		e.c.Eval(1)
	}
	o = h.Call("query", p, doc, opts)
	e.c.Eval(1)
	if nested {
		switch {
		case o.Class == h.Hard:
			return model.Unknown, true, true, o, cs
		case o.Class != h.OK:
			return 0, false, false, o, cs
		case len(o.Items) == 1:
			return model.True, false, true, o, cs
		default:
			// dropped: false or unknown - not distinguishable in a filter
			return model.False, false, true, o, cs
		}
	}
	t, isErr, ok = triOf(o)
	if ok {
		// Match correspondence
		m := h.Call("match", p, doc, opts)
		e.c.Eval(1)
		good := false
		switch {
		case isErr:
			good = m.Class == h.Hard && m.ErrText() == o.ErrText()
		case t == model.True:
			good = m.Class == h.OK && m.Bool
		case t == model.False:
			good = m.Class == h.OK && !m.Bool
		default:
			good = m.Class == h.Null
		}
		if !good {
			e.c.Violate("match", h.F("mode", modeName(e.lax)), fmt.Sprintf("Query(%s) = %s but Match = %s", txt, o.Summary(), m.Summary()), cs)
		} else {
			e.c.Held("match")
		}
	}
	return t, isErr, ok, o, cs
}

func (e *c11Eval) judge(clause, expr string, exp outcomeSet, feat map[string]string) {
	for _, nested := range []bool{false, true} {
		for _, silent := range []bool{false, true} {
			t, isErr, ok, o, cs := e.run(expr, nested, silent)
			if !ok {
				if o != nil {
					e.c.Violate(clause, h.F("kind", "not-a-truth-value", "mode", modeName(e.lax)), fmt.Sprintf("%s returned %s", cs.Path, o.Summary()), cs)
				}
				continue
			}
			allowed := exp.allows(t, isErr)
			if nested && !isErr && !allowed {
				// in a filter, false and unknown both drop the item
				if t == model.False && exp.vals[model.Unknown] {
					allowed = true
				}
			}
			if !allowed {
				f := h.F("mode", modeName(e.lax), "nested", fmt.Sprint(nested))
				for k, v := range feat {
					f[k] = v
				}
				got := t.String()
				if isErr {
					got = "error"
				}
				f["got"] = got
				e.c.Violate(clause, f, fmt.Sprintf("%s evaluated to %s (%s); Kleene logic allows: %s", cs.Path, got, o.Summary(), exp), cs)
			} else {
				e.c.Held(clause)
			}
			e.c.Distinct(cs.Path, e.doc, fmt.Sprint(e.useNum, silent))
		}
	}
}

func tvName(v tv) string {
	if v.err {
		return "E"
	}
	return map[model.Tri]string{model.True: "T", model.False: "F", model.Unknown: "U"}[v.t]
}

func runTables(c *h.Ctx) {
	idx := 0
	for _, lax := range []bool{true, false} {
		// (UseNumber: "big" stays the number it is written as, beyond the doubles)
		e := &c11Eval{c: c, doc: `{"a":1,"b":"x","h":1e200,"big":1e999}`, useNum: true, vars: stdVars, lax: lax}
		ops := constOperands(lax)
		for _, a := range ops {
			// unary
			idx++
			if c.Mine(idx) {
				exp := outcomeSet{vals: map[model.Tri]bool{model.Not(a.t): true}}
				if a.err {
					exp = outcomeSet{vals: map[model.Tri]bool{}, err: true}
				}
				e.judge("table.not", "!"+a.text, exp, h.F("operand", tvName(a)))
				exp2 := outcomeSet{vals: map[model.Tri]bool{model.FromBool(a.t == model.Unknown): true}}
				if a.err {
					exp2 = outcomeSet{vals: map[model.Tri]bool{}, err: true}
				}
				e.judge("isunknown", a.text+" is unknown", exp2, h.F("operand", tvName(a)))
			}
			for _, b := range ops {
				idx++
				if !c.Mine(idx) {
					continue
				}
				e.judge("table.and", a.text+" && "+b.text, expectBin("&&", a, b), h.F("left", tvName(a), "right", tvName(b)))
				e.judge("table.or", a.text+" || "+b.text, expectBin("||", a, b), h.F("left", tvName(a), "right", tvName(b)))
			}
		}
	}
	c.SetExhaustive("truth tables of ! && || is-unknown over {T,F,U,E} operands (several spellings), top-level and in a filter, lax and strict, silent and verbose")
	c.Sample("table", map[string]string{"expr": `(1 == "a") && ($missing == 1)`, "expected": "error (left operand unknown does not decide)"})
}

func replayC11(c *h.Ctx, cs h.Case) {
	// re-run the whole table cell / law through the generic evaluator is not
	// possible from the text alone; report the observed outcome instead.
	p, err, pan := h.ParseSafe(cs.Path)
	if err != nil || pan != "" {
		c.Note("replay: path does not parse")
		return
	}
	o := h.Call("query", p, h.Decode(cs.Doc, cs.UseNum), h.OptsOf(cs))
	c.Note(fmt.Sprintf("replay: %s on %s -> %s (re-run ./check C11 with the recorded seed to re-judge)", cs.Path, cs.Doc, o.Summary()))
	runTables(c)
}

// existsStrictness: exists(e) in strict mode evaluates all of e (an item
// after which e fails makes it unknown); in lax mode the first item decides.
// That does not change below .**, which relaxes structural errors only.
func existsStrictness(c *h.Ctx) {
	els := []string{`1`, `"x"`, `"2"`, `1.5`}
	var arrs [][]string
	for _, a := range els {
		arrs = append(arrs, []string{a})
		for _, b := range els {
			arrs = append(arrs, []string{a, b})
			arrs = append(arrs, []string{a, b, "1"}, []string{"1", a, b})
		}
	}
	conv := func(e string) bool { return e != `"x"` }
	for i, arr := range arrs {
		if !c.Mine(i) {
			continue
		}
		doc := `{"k":[` + strings.Join(arr, ",") + `]}`
		all, first := true, conv(arr[0])
		for _, e := range arr {
			all = all && conv(e)
		}
		for _, useNum := range []bool{false, true} {
			for _, f := range []struct {
				path   string
				strict bool
				n      int // items the path selects before the filter
			}{
				{"strict $ ? (exists(@.k[*].double()))", true, 1}, {"strict $.**{0} ? (exists(@.k[*].double()))", true, 1}, {"strict $.**{1} ? (exists(@[*].double()))", true, 1},
				{"strict $.** ? (exists($.k[*].double()))", true, 2 + len(arr)}, {"strict $.**{0 to 1} ? (!(exists($.k[*].double())))", true, -1}, {"strict $.*.**{0} ? ((exists(@[*].double())) is unknown)", true, -2},
				{"$ ? (exists(@.k[*].double()))", false, 1}, {"$.**{0} ? (exists(@.k[*].double()))", false, 1},
			} {
				p := cachedPath(f.path)
				if p == nil {
					c.Count("gen.unparsable", 1)
					continue
				}
				o := h.Call("query", p, h.Decode(doc, useNum), h.Opts{})
				c.Eval(1)
				c.Distinct("exists-strictness", f.path, doc, fmt.Sprint(useNum))
				truth := all
				if !f.strict {
					truth = first
				}
				want := 0
				switch {
				case f.n > 0 && truth:
					want = f.n
				case f.n == -1:
					want = 0 // !(true) is false, !(unknown) is unknown: nothing kept either way
				case f.n == -2 && !all:
					want = 1 // unknown
				}
				if o.Class != h.OK || len(o.Items) != want {
					c.Violate("exists", h.F("form", "strictness", "strict", fmt.Sprint(f.strict)), fmt.Sprintf("Query(%s) on %s = %s; %d items expected (every element converts: %v, the first one: %v)", f.path, doc, o.Summary(), want, all, first), h.Case{Kind: "exists-strictness", Path: f.path, Doc: doc, UseNum: useNum})
				} else {
					c.Held("exists")
				}
			}
		}
	}
}

// existsBelowAny: in a strict path, below .** a member accessor skips what it
// does not apply to - also inside exists() in a filter there: exists(@.a) on a
// scalar, or on an object without a, is false (e is empty), not unknown (e did
// not fail). Visible under !, is unknown and De Morgan.
func existsBelowAny(c *h.Ctx) {
	type row struct {
		expr string
		want model.Tri
	}
	doc := `{"x":1,"y":{"a":2},"z":[3]}`
	rows := []row{
		{`exists($.** ? (!(exists(@.a))))`, model.True}, {`exists($.** ? ((exists(@.a)) is unknown))`, model.False}, {`exists($.** ? (exists(@.a)))`, model.True},
		{`!(exists($.**{1} ? (!(exists(@.nokey)))))`, model.False}, {`exists($.**{1} ? (!(exists(@.a)) && !(exists(@.b))))`, model.True}, {`exists($.**{1} ? (!(exists(@.a) || exists(@.b))))`, model.True},
		{`exists($.x.** ? (!(exists(@.a))))`, model.True}, {`exists($.x.** ? ((exists(@.a[*])) is unknown))`, model.False}, {`exists($.** ? (!(exists(@.*))))`, model.True},
		{`exists($.**{2} ? ((!(exists(@.a))) is unknown))`, model.False},
	}
	e := &c11Eval{c: c, doc: doc, vars: stdVars, lax: false}
	for i, r := range rows {
		if !c.Mine(i) {
			continue
		}
		for _, useNum := range []bool{false, true} {
			e.useNum = useNum
			e.judge("exists", r.expr, outcomeSet{vals: map[model.Tri]bool{r.want: true}}, h.F("form", "below-any"))
		}
	}
}

// existsSelective: exists(e) is true when e selects an item and raises no
// error - whichever item e visited last (an operand that keeps an earlier
// item and rejects the last one is not empty).
func existsSelective(c *h.Ctx) {
	k := 0
	for n := 1; n <= 4; n++ {
		for mask := 0; mask < 1<<n; mask++ {
			els := make([]string, n)
			members := make([]string, n)
			any := false
			for i := range els {
				els[i] = "0"
				if mask&(1<<i) != 0 {
					els[i] = "5"
					any = true
				}
				members[i] = fmt.Sprintf(`"m%d":%s`, i, els[i])
			}
			docs := map[string]string{"arr": `{"k":[` + strings.Join(els, ",") + `]}`, "obj": `{"k":{` + strings.Join(members, ",") + `}}`}
			for _, f := range []struct{ path, doc string }{
				{"exists($.k[0 to last] ? (@ > 1))", "arr"}, {"exists($.k[*] ? (@ > 1))", "arr"}, {"exists($.k[0 to last] ? (@ > 1)) || 1 == 2", "arr"}, {"!(exists($.k[0 to last] ? (@ > 1)))", "arr"},
				{"$ ? (exists(@.k[0 to last] ? (@ > 1)))", "arr"}, {"exists($.k.keyvalue() ? (@.value > 1))", "obj"}, {"exists($.k.* ? (@ > 1))", "obj"}, {"exists($.k.**{1} ? (@ > 1))", "obj"},
				{"exists($.k.**{0 to 1} ? (@.type() == \"object\"))", "obj"}, {"exists($.k.keyvalue().value ? (@ > 1)) && 1 == 1", "obj"},
			} {
				for _, mode := range []string{"", "strict "} {
					k++
					if !c.Mine(k) {
						continue
					}
					p := cachedPath(mode + f.path)
					if p == nil {
						c.Count("gen.unparsable", 1)
						continue
					}
					o := h.Call("query", p, h.Decode(docs[f.doc], k%2 == 0), h.Opts{})
					c.Eval(1)
					c.Distinct("exists-selective", mode+f.path, docs[f.doc])
					truth := any
					if strings.Contains(f.path, "object") {
						truth = true // the object itself (level 0)
					}
					var want string
					switch {
					case strings.HasPrefix(f.path, "$ ?"):
						want = "[]"
						if truth {
							want = "[" + h.Canon(h.Decode(docs[f.doc], k%2 == 0)) + "]"
						}
					case strings.HasPrefix(f.path, "!"):
						want = fmt.Sprintf("[%v]", !truth)
					default:
						want = fmt.Sprintf("[%v]", truth)
					}
					got := o.Class + ":" + o.ErrText()
					if o.Class == h.OK {
						got = h.CanonList(o.Items)
					}
					if got != want {
						c.Violate("exists", h.F("form", "selective", "mode", mode), fmt.Sprintf("Query(%s) on %s = %s; want %s (the operand selects an item: %v)", mode+f.path, docs[f.doc], o.Summary(), want, truth), h.Case{Kind: "exists-selective", Path: mode + f.path, Doc: docs[f.doc]})
					} else {
						c.Held("exists")
					}
				}
			}
		}
	}
}

// connectivesOverManyItems: the outcome of && / || for an item does not depend
// on how many items came before it (thousands of short-circuits in one run).
func connectivesOverManyItems(c *h.Ctx) {
	for li, n := range []int{600, 1500, 5000} {
		if !c.Mine(li) {
			continue
		}
		arr := make([]any, n)
		for i := range arr {
			arr[i] = float64(i)
		}
		for _, f := range []struct {
			path string
			want []int
		}{
			{fmt.Sprintf("$[*] ? (@ >= %d && @ < 1000000)", n-1), []int{n - 1}},
			{fmt.Sprintf("$[*] ? (@ < %d || @ == %d)", 1, n-1), []int{0, n - 1}},
			{fmt.Sprintf("$[*] ? (!(@ < %d) && (@ >= %d || @ == 0))", n-2, n-1), []int{n - 1}},
			{fmt.Sprintf("$[*] ? ((@ >= %d && @ < 1000000) is unknown)", n-1), nil},
			{fmt.Sprintf("strict $[*] ? (@ >= %d && @.type() == \"number\" || @ == 1 && @ > 0)", n-1), []int{1, n - 1}},
		} {
			p := cachedPath(f.path)
			if p == nil {
				c.Count("gen.unparsable", 1)
				continue
			}
			o := h.Call("query", p, arr, h.Opts{})
			c.Eval(1)
			c.Distinct("many-items", f.path)
			want := make([]any, len(f.want))
			for i, w := range f.want {
				want[i] = float64(w)
			}
			if o.Class != h.OK || h.CanonList(o.Items) != h.CanonList(want) {
				c.Violate("law.filter.meet", h.F("form", "many-items"), fmt.Sprintf("Query(%s) on [0..%d] = %s; want %s", f.path, n-1, o.Summary(), h.CanonList(want)), h.Case{Kind: "many-items", Path: f.path, Extra: map[string]string{"n": fmt.Sprint(n)}})
			} else {
				c.Held("law.filter.meet")
			}
		}
	}
}

// relatedOperands: the connectives over conditions that look at the same
// member path - a range check written as two comparisons, a list of
// alternatives written as a chain of equalities. Each comparison quantifies
// over the items of its path on its own (and decides on its own what an
// incomparable pair means); the connective combines the truth values and
// nothing else, however the chain is grouped.
func relatedOperands(c *h.Ctx) {
	docs := []string{`{"a":[1,5],"s":1}`, `{"a":[0,3,"x"],"s":"one"}`, `{"a":[2],"s":true}`, `{"a":[],"s":null}`, `{"a":[1,2,3,4,5,6],"s":2}`, `{"a":[10,-1],"s":[1,"one"]}`}
	paths := []string{"$.a[*]", "$.a", "$.s", "$.s[*]"}
	lits := []string{"1", "2", "5", "0", `"one"`, "true"}
	cmps := []string{"==", "!=", "<", "<=", ">", ">="}
	idx := 0
	for _, d := range docs {
		for _, lax := range []bool{true, false} {
			for _, pth := range paths {
				e := &c11Eval{c: c, doc: d, vars: stdVars, lax: lax, useNum: idx%2 == 1}
				var atoms, eqs []tv
				for _, op := range cmps {
					for li, lit := range lits {
						txt := pth + " " + op + " " + lit
						if (li+len(op))%2 == 1 {
							txt = lit + " " + map[string]string{"==": "==", "!=": "!=", "<": ">", "<=": ">=", ">": "<", ">=": "<="}[op] + " " + pth
						}
						t, isErr, ok, _, _ := e.run(txt, false, false)
						if !ok || isErr {
							continue
						}
						atoms = append(atoms, tv{txt, t, false})
						if op == "==" || op == "!=" && li < 2 {
							eqs = append(eqs, tv{txt, t, false})
						}
					}
				}
				for _, a := range atoms {
					for _, b := range atoms {
						idx++
						if !c.Mine(idx) {
							continue
						}
						ft := h.F("left", tvName(a), "right", tvName(b), "kind", "same-path")
						e.judge("related.and", a.text+" && "+b.text, expectBin("&&", a, b), ft)
						e.judge("related.or", a.text+" || "+b.text, expectBin("||", a, b), ft)
					}
				}
				for _, a := range eqs {
					for _, b := range eqs {
						for _, cc := range eqs {
							idx++
							if !c.Mine(idx) {
								continue
							}
							ft := h.F("kind", "chain-of-three", "values", tvName(a)+tvName(b)+tvName(cc))
							or := outcomeSet{vals: map[model.Tri]bool{model.Or(model.Or(a.t, b.t), cc.t): true}}
							and := outcomeSet{vals: map[model.Tri]bool{model.And(model.And(a.t, b.t), cc.t): true}}
							e.judge("related.or", a.text+" || "+b.text+" || "+cc.text, or, ft)
							e.judge("related.or", a.text+" || ("+b.text+" || "+cc.text+")", or, ft)
							e.judge("related.and", a.text+" && "+b.text+" && "+cc.text, and, ft)
							e.judge("related.and", a.text+" && ("+b.text+" && "+cc.text+")", and, ft)
						}
					}
				}
			}
		}
	}
	// the same for like_regex conditions that differ only in their flags
	// (literal or not, case-sensitive or not): each has its own answer
	for _, d := range []string{`{"s":"abc"}`, `{"s":"a.c"}`, `{"s":"A.C"}`, `{"s":["abc","a.c"]}`, `{"s":1}`} {
		for _, lax := range []bool{true, false} {
			e := &c11Eval{c: c, doc: d, vars: stdVars, lax: lax}
			var atoms []tv
			for _, pat := range []string{"a.c", "A.C", "^a", "c$"} {
				for _, fl := range []string{"", "q", "i", "iq", "s", "qi"} {
					txt := "$.s like_regex " + gQuote(pat)
					if fl != "" {
						txt += ` flag "` + fl + `"`
					}
					t, isErr, ok, _, _ := e.run(txt, false, false)
					if ok && !isErr {
						atoms = append(atoms, tv{txt, t, false})
					}
				}
			}
			for _, a := range atoms {
				for _, b := range atoms {
					idx++
					if !c.Mine(idx) {
						continue
					}
					ft := h.F("left", tvName(a), "right", tvName(b), "kind", "same-pattern")
					e.judge("related.and", a.text+" && "+b.text, expectBin("&&", a, b), ft)
					e.judge("related.or", a.text+" || "+b.text, expectBin("||", a, b), ft)
					if a.text != b.text {
						e.judge("related.or", "!("+a.text+") || ("+b.text+") is unknown", outcomeSet{vals: map[model.Tri]bool{model.Or(model.Not(a.t), model.FromBool(b.t == model.Unknown)): true}}, ft)
					}
				}
			}
		}
	}
	c.Sample("related", map[string]string{"expr": `$.a >= 1 && $.a <= 3`, "doc": `{"a":[0,5]}`, "expected": "true in lax mode: 5 is at least 1 and 0 is at most 3 - two separate existential comparisons"})
}

// abortedOperands: a condition whose evaluation is cut short (the context is
// cancelled by its owner, or its deadline passes, at any step) has no truth
// value - it is not "unknown". `(p) is unknown`, `!`, `&&`, `||`, `exists` and
// a filter around it therefore end with the context's error, or - when the
// evaluation was already past the cut - with the value of the undisturbed run.
func abortedOperands(c *h.Ctx) {
	exprs := []string{`($.a[*] == 1) is unknown`, `!(($.a[*] > 5) is unknown)`, `($.a[*].double() > 1) is unknown`, `(exists($.a[*] ? (@ > 1))) is unknown`, `($.s == 1) is unknown || $.a[0] == 1`,
		`($.a[*] == 1 && $.s == "x") is unknown`, `$ ? ((@.a[*] > 1) is unknown)`, `$.a[*] ? ((@ == "x") is unknown)`, `exists($ ? ((@.s.double() > 1) is unknown))`, `(($.a[*] == 1) is unknown) is unknown`,
		`!($.a[*] == 9)`, `$.a[*] == 9 || ($.s starts with "x")`, `!exists($.a[*] ? (@ == 9))`,
		// ... with the steps of a subscript expression inside the operand
		`($.a[$.i] == 2) is unknown`, `!($.a[0 to $.i] == 9)`, `exists($.a[$.i])`, `$.s == "y" || $.a[$.i] == 2`, `$.s == "x" && $.a[$.i[0]] == 2`, `$ ? ((@.a[@.i] == 2) is unknown)`, `$ ? (!(@.a[$.i, 0] == 9))`, `(exists($.a[$.i ? (@ > 0)])) is unknown`}
	doc := `{"a":[1,2,"x",3],"s":"x","i":1}`
	idx := 0
	for _, ex := range exprs {
		for _, lax := range []bool{true, false} {
			idx++
			if !c.Mine(idx) {
				continue
			}
			txt := ex
			if !lax {
				txt = "strict " + ex
			}
			p, err, pan := h.ParseSafe(txt)
			if err != nil || pan != "" {
				c.Count("gen.unparsable", 1)
				continue
			}
			for _, entry := range []string{"query", "match", "exists"} {
				if entry == "match" && !p.IsPredicate() {
					continue
				}
				for _, silent := range []bool{false, true} {
					opts := h.Opts{Vars: h.DecodeVars(stdVars, false), Silent: silent}
					base := h.Call(entry, p, h.Decode(doc, false), opts)
					c.Eval(1)
					want := base.Summary()
					for k := 1; k <= base.Steps; k++ {
						cause := []error{context.Canceled, context.DeadlineExceeded}[k%2]
						m := &h.CallMon{CancelAt: k, Cause: cause}
						o := h.CallMonitored(entry, p, h.Decode(doc, false), opts, m)
						c.Eval(1)
						cs := h.Case{Kind: "aborted", Path: txt, Doc: doc, Entry: entry, Silent: silent, Vars: stdVars, Extra: map[string]string{"context-done-at-step": fmt.Sprint(k), "cause": cause.Error()}}
						switch {
						case o.Class == h.Panic:
							c.Skip("aborted", "panic-is-C05")
						case errors.Is(o.Err, cause):
							c.Held("aborted")
						case m.Steps < k && o.Summary() == want:
							c.Held("aborted") // done before the cut
						default:
							c.Violate("aborted", h.F("entry", entry, "mode", modeName(lax), "cause", cause.Error()), fmt.Sprintf("%s(%s): the context was done (%v) from step %d of %d on, yet the call returned %s (undisturbed: %s) - an aborted condition has no truth value", entry, txt, cause, k, base.Steps, o.Summary(), want), cs)
						}
					}
				}
			}
		}
	}
}

func runC11(c *h.Ctx) {
	runTables(c)
	abortedOperands(c)
	relatedOperands(c)
	existsStrictness(c)
	existsBelowAny(c)
	existsSelective(c)
	connectivesOverManyItems(c)
	// random laws
	r := c.Rand("c11")
	g := &gen.G{R: r, C: gen.DefaultCfg()}
	g.C.Datetime = true
	g.C.KeyValue = false // ids are address-derived; two evaluations of p would not be comparable
	dc := gen.DefaultDocCfg()
	n := c.PerShard(c.N(70000, 1000000))
	for i := 0; i < n; i++ {
		lax := r.IntN(2) == 0
		p := g.Pred(2, false, false)
		q := g.Pred(2, false, false)
		ex := g.Expr(2, false, false)
		d := dc
		vars := stdVars
		if exposesOrder(&gen.Path{Root: &gen.N{K: gen.KBin, S: "&&", A: p, B: &gen.N{K: gen.KBin, S: "&&", A: q, B: &gen.N{K: gen.KUn, S: "exists", A: ex}}}}) {
			d.MaxMembers = 1
			vars = stdVars1
		}
		e := &c11Eval{c: c, doc: gen.Doc(r, d), useNum: r.IntN(2) == 0, vars: vars, lax: lax}
		pt := "(" + gen.SpellNode(p, nil) + ")"
		qt := "(" + gen.SpellNode(q, nil) + ")"
		tp, ep, okp, _, _ := e.run(pt, false, false)
		tq, eq, okq, _, _ := e.run(qt, false, false)
		if !okp || !okq {
			c.Skip("law.and", "operand-not-a-truth-value")
			continue
		}
		a, b := tv{pt, tp, ep}, tv{qt, tq, eq}
		ft := h.F("left", tvName(a), "right", tvName(b), "kind", "law")
		e.judge("law.and", pt+" && "+qt, expectBin("&&", a, b), ft)
		e.judge("law.and", qt+" && "+pt, expectBin("&&", b, a), h.F("left", tvName(b), "right", tvName(a), "kind", "law"))
		e.judge("law.or", pt+" || "+qt, expectBin("||", a, b), ft)
		e.judge("law.or", qt+" || "+pt, expectBin("||", b, a), h.F("left", tvName(b), "right", tvName(a), "kind", "law"))
		// a condition combined with itself and with its own negation: Kleene
		// logic has no excluded middle (p || !p is unknown when p is), and
		// evaluating p twice gives p twice
		if !ep {
			self := h.F("operand", tvName(a), "kind", "self")
			e.judge("law.and", pt+" && "+pt, outcomeSet{vals: map[model.Tri]bool{tp: true}}, self)
			e.judge("law.or", pt+" || "+pt, outcomeSet{vals: map[model.Tri]bool{tp: true}}, self)
			e.judge("law.or", pt+" || !"+pt, outcomeSet{vals: map[model.Tri]bool{model.Or(tp, model.Not(tp)): true}}, self)
			e.judge("law.and", pt+" && !"+pt, outcomeSet{vals: map[model.Tri]bool{model.And(tp, model.Not(tp)): true}}, self)
			e.judge("law.and", "!"+pt+" && "+pt, outcomeSet{vals: map[model.Tri]bool{model.And(tp, model.Not(tp)): true}}, self)
		}
		// double negation
		exp := outcomeSet{vals: map[model.Tri]bool{tp: true}}
		if ep {
			exp = outcomeSet{vals: map[model.Tri]bool{}, err: true}
		}
		e.judge("law.dneg", "!(!"+pt+")", exp, h.F("operand", tvName(a)))
		// De Morgan: !(p && q) == !p || !q (in value)
		dm := expectBin("&&", a, b)
		neg := outcomeSet{vals: map[model.Tri]bool{}, err: dm.err}
		for t := range dm.vals {
			neg.vals[model.Not(t)] = true
		}
		e.judge("law.demorgan", "!("+pt+" && "+qt+")", neg, ft)
		na, nb := tv{"", model.Not(a.t), a.err}, tv{"", model.Not(b.t), b.err}
		e.judge("law.demorgan", "!"+pt+" || !"+qt, expectBin("||", na, nb), ft)
		// is unknown: two-valued, true exactly on unknown
		exu := outcomeSet{vals: map[model.Tri]bool{model.FromBool(tp == model.Unknown): true}}
		if ep {
			exu = outcomeSet{vals: map[model.Tri]bool{}, err: true}
		}
		e.judge("isunknown", pt+" is unknown", exu, h.F("operand", tvName(a)))
		// exists(e)
		checkExistsLaw(e, ex)
		if i == 0 {
			c.Sample("law", map[string]any{"p": pt, "q": qt, "doc": e.doc, "p-value": tvName(a), "q-value": tvName(b)})
		}
		// commutativity inside a filter, with conditions that use @ (nested filters,
		// errors swallowed by "is unknown"): the kept items must not depend on operand order
		if i%3 == 0 {
			fp := g.Pred(2, true, false)
			fq := g.Pred(1, true, false)
			if r.IntN(3) == 0 {
				// a nested filter whose condition raises a non-suppressible error, under is unknown
				inner := &gen.N{K: gen.KBin, S: "==", A: &gen.N{K: gen.KCurrent}, B: &gen.N{K: gen.KVar, S: "missing"}}
				fp = &gen.N{K: gen.KUn, S: "isunknown", A: &gen.N{K: gen.KUn, S: "exists", A: &gen.N{K: gen.KCurrent, Next: &gen.N{K: gen.KKey, S: g.C.Keys[r.IntN(len(g.C.Keys))], Next: &gen.N{K: gen.KFilter, A: inner}}}}}
			}
			checkFilterCommute(e, fp, fq)
		}
		// conjunction / disjunction of conditions over several items: the items
		// kept by p && q are those kept by p and by q, by p || q those kept by
		// either - with an operand that is anchored outside the item but
		// subscripted by a member of it (its value differs per item)
		if i%3 == 1 {
			checkFilterMeet(e, r, g)
		}
	}
}

func checkFilterMeet(e *c11Eval, r *rand.Rand, g *gen.G) {
	prefix, p, cdoc := crossRef(r, false)
	q := g.Pred(1, true, false)
	if exposesOrder(&gen.Path{Root: q}) || hasMethod(q, "keyvalue") {
		q = &gen.N{K: gen.KBin, S: ">", A: &gen.N{K: gen.KCurrent, Next: &gen.N{K: gen.KKey, S: "c"}}, B: &gen.N{K: gen.KInt, I: 0}}
	}
	if r.IntN(2) == 0 {
		p, q = q, p
	}
	mode := ""
	if !e.lax {
		mode = "strict "
	}
	// number the items so that they are distinguishable
	doc := h.Decode(cdoc, e.useNum)
	if items, ok := doc.(map[string]any)["a"].([]any); ok {
		for i, it := range items {
			if m, ok := it.(map[string]any); ok {
				m["k"] = int64(i)
			}
		}
	}
	vars := h.DecodeVars(stdVars, e.useNum)
	pre := gen.SpellNode(prefix, nil)
	pt, qt := "("+gen.SpellNode(p, nil)+")", "("+gen.SpellNode(q, nil)+")"
	keys := func(cond string) (map[string]bool, string, bool) {
		txt := mode + pre + " ? (" + cond + ").k"
		pp, err, pan := h.ParseSafe(txt)
		if err != nil || pan != "" {
			e.c.Count("gen.unparsable", 1)
			return nil, txt, false
		}
		o := h.Call("query", pp, doc, h.Opts{Vars: vars})
		e.c.Eval(1)
		if o.Class != h.OK {
			return nil, txt, false
		}
		out := map[string]bool{}
		for _, it := range o.Items {
			out[h.Canon(it)] = true
		}
		return out, txt, true
	}
	kp, _, ok1 := keys(pt)
	kq, _, ok2 := keys(qt)
	if !ok1 || !ok2 {
		e.c.Skip("law.filter.meet", "an-operand-run-fails")
		return
	}
	db, _ := json.Marshal(doc)
	for _, form := range []struct {
		cond string
		and  bool
	}{{pt + " && " + qt, true}, {qt + " && " + pt, true}, {pt + " || " + qt, false}, {qt + " || " + pt, false}, {"!(!" + pt + " || !" + qt + ")", true}} {
		got, txt, ok := keys(form.cond)
		if !ok {
			e.c.Skip("law.filter.meet", "a-run-fails")
			continue
		}
		want := map[string]bool{}
		for k := range kp {
			if !form.and || kq[k] {
				want[k] = true
			}
		}
		if !form.and {
			for k := range kq {
				want[k] = true
			}
		}
		cs := h.Case{Kind: "filter-meet", Path: txt, Doc: string(db), UseNum: e.useNum, Vars: stdVars}
		if fmt.Sprint(sortedKeys(got)) != fmt.Sprint(sortedKeys(want)) {
			e.c.Violate("law.filter.meet", h.F("and", fmt.Sprint(form.and), "mode", modeName(e.lax)), fmt.Sprintf("%s keeps the items %v; %s alone keeps %v and %s alone keeps %v", txt, sortedKeys(got), pt, sortedKeys(kp), qt, sortedKeys(kq)), cs)
		} else {
			e.c.Held("law.filter.meet")
		}
		e.c.Distinct(txt, string(db))
	}
}

func sortedKeys(m map[string]bool) []string {
	out := make([]string, 0, len(m))
	for k := range m {
		out = append(out, k)
	}
	sort.Strings(out)
	return out
}

// checkFilterCommute: $[*] ? (p op q) and $[*] ? (q op p) keep the same items
// (when neither run fails with a non-suppressible error: an error operand on the
// right of a deciding left operand may be short-circuited).
func checkFilterCommute(e *c11Eval, p, q *gen.N) {
	mode := ""
	if !e.lax {
		mode = "strict "
	}
	doc := h.Decode(e.doc, e.useNum)
	if _, isArr := doc.([]any); !isArr {
		doc = []any{doc}
	}
	vars := h.DecodeVars(e.vars, e.useNum)
	if (exposesOrder(&gen.Path{Root: p}) || exposesOrder(&gen.Path{Root: q})) && (hasMultiMemberObject(doc) || varsHaveMultiMember(vars)) {
		// the conditions expand the members of an object with several members:
		// their order is open, and with it which member an exists() or a
		// comparison meets first - two runs need not keep the same items
		e.c.Skip("law.commute.filter", "member-order-open")
		return
	}
	pt, qt := "("+gen.SpellNode(p, nil)+")", "("+gen.SpellNode(q, nil)+")"
	for _, op := range []string{"&&", "||"} {
		t1 := mode + "$[*] ? (" + pt + " " + op + " " + qt + ")"
		t2 := mode + "$[*] ? (" + qt + " " + op + " " + pt + ")"
		p1, e1, x1 := h.ParseSafe(t1)
		p2, e2, x2 := h.ParseSafe(t2)
		if e1 != nil || e2 != nil || x1+x2 != "" {
			e.c.Count("gen.unparsable", 1)
			return
		}
		o1 := h.Call("query", p1, doc, h.Opts{Vars: vars})
		o2 := h.Call("query", p2, doc, h.Opts{Vars: vars})
		e.c.Eval(2)
		if o1.Class != h.OK || o2.Class != h.OK {
			e.c.Skip("law.commute.filter", "a-run-fails")
			continue
		}
		db, _ := json.Marshal(doc)
		cs := h.Case{Kind: "commute-filter", Path: t1, Doc: string(db), UseNum: e.useNum, Vars: e.vars, Extra: map[string]string{"swapped": t2}}
		if h.CanonList(o1.Items) != h.CanonList(o2.Items) {
			e.c.Violate("law.commute.filter", h.F("op", op, "mode", modeName(e.lax)), fmt.Sprintf("%s keeps %s but %s keeps %s", t1, o1.Summary(), t2, o2.Summary()), cs)
		} else {
			e.c.Held("law.commute.filter")
		}
		e.c.Distinct(t1, string(db))
	}
}

func checkExistsLaw(e *c11Eval, ex *gen.N) {
	mode := ""
	if !e.lax {
		mode = "strict "
	}
	etxt := gen.SpellNode(ex, nil)
	if ex.IsPredKind() && ex.Next == nil {
		return
	}
	pe, err, pan := h.ParseSafe(mode + etxt)
	if err != nil || pan != "" {
		return
	}
	doc := h.Decode(e.doc, e.useNum)
	vars := h.DecodeVars(e.vars, e.useNum)
	ov := h.Call("query", pe, doc, h.Opts{Vars: vars})
	os := h.Call("query", pe, doc, h.Opts{Vars: vars, Silent: true})
	e.c.Eval(2)
	if ov.Class == h.Panic || ov.Class == h.Invalid {
		return
	}
	exp := outcomeSet{vals: map[model.Tri]bool{}}
	switch ov.Class {
	case h.OK:
		exp.vals[model.FromBool(len(ov.Items) > 0)] = true
	case h.Soft:
		if !e.lax {
			exp.vals[model.Unknown] = true
		} else if os.Class == h.OK && len(os.Items) > 0 {
			exp.vals[model.True] = true
		} else {
			exp.vals[model.Unknown] = true
			exp.vals[model.False] = true
		}
	case h.Hard:
		exp.err = true
		if e.lax {
			// an item may precede the failure (early exit); cannot be observed under a hard error
			exp.vals[model.True] = true
		}
	}
	f := h.F("e", ov.Class)
	if lastStepUnaryArith(&gen.Path{Root: ex}) && e.lax {
		f["cause"] = "unary-arith-exists-shortcut"
	}
	e.judge("exists", "exists("+etxt+")", exp, f)
}
