#!/usr/bin/env python3
"""Imports the sub-agent mutants from /tmp/mut-out into /verif/seeded/<ID>-<X>/ after re-verifying each
(scratch worktree: suite passes with the change, demo fails with it and passes without) and running the
property's own quick check plus C01 (and extra checks given in EXTRA) against a scratch worktree."""
import json, os, re, shutil, subprocess, sys
EXTRA = {"C08": ["C20"], "C09": ["C08"], "C15": ["C06"], "C17": ["C08"], "C20": ["C08"], "C05": ["C14"], "C06": ["C08"], "C19": []}
SRC = os.environ.get("MUTOUT", "/tmp/mut-out")
TAG = os.environ.get("MUTTAG", "")
ids = sys.argv[1:] or sorted(os.listdir(SRC))
for pid in ids:
    for m in sorted(os.listdir(f"{SRC}/{pid}")):
        d = f"{SRC}/{pid}/{m}"
        if not os.path.exists(d + "/patch.diff"):
            continue
        out = subprocess.run(["/verif/tools/mutant.sh", "verify", d], capture_output=True, text=True).stdout
        ver = [l for l in out.splitlines() if l.startswith("RESULT")]
        ver = ver[-1] if ver else "RESULT missing"
        ok = "build=0 suite-with-mutant=0 demo-on-clean=0" in ver and "demo-with-mutant=0" not in ver
        checks = [pid] + [c for c in (["C01"] + EXTRA.get(pid, [])) if c != pid]
        out = subprocess.run(["/verif/tools/mutant.sh", "check", d] + checks, capture_output=True, text=True).stdout
        res = {}
        for l in out.splitlines():
            mm = re.match(r"CHECK \S+ (C\d\d) rc=(\d+) (\d+) violations", l)
            if mm:
                res[mm.group(1)] = {"exit": int(mm.group(2)), "violation_lines": int(mm.group(3))}
        dst = f"/verif/seeded/{pid}-{TAG}{m}"
        os.makedirs(dst, exist_ok=True)
        for f in ("patch.diff", "demo_test.go", "notes.md"):
            if os.path.exists(d + "/" + f):
                shutil.copy(d + "/" + f, dst + "/" + f)
        notes = open(d + "/notes.md").read() if os.path.exists(d + "/notes.md") else ""
        meta = {
            "property": pid,
            "origin": "written by an independent sub-agent that saw only the property text and a scratch worktree of the library",
            "needs_to_manifest": notes[:1500],
            "confirmed": ok,
            "verification_ran": "tools/mutant.sh verify (scratch worktree of /repo HEAD: go build, unedited suite with the change, demo without and with the change): " + ver,
            "checks_ran": {c: res.get(c) for c in checks},
            "caught_by": [c for c in checks if res.get(c, {}).get("exit") == 1 and res.get(c, {}).get("violation_lines", 0) > 0],
        }
        json.dump(meta, open(dst + "/meta.json", "w"), indent=1)
        print(pid, m, "confirmed" if ok else "NOT-CONFIRMED", "caught_by", meta["caught_by"], flush=True)
