#!/usr/bin/env python3
"""Regenerates /verif/MANIFEST.json from the table below (run from /verif)."""
import json, subprocess

HOOK_COMMITS = ["9b212f4"]

CLAIMED = {
 "C18": dict(level="exploration", technique="round-trip (inverse-function) monitors on values built from components + hostile-input contract monitor on UnmarshalJSON, recover()-guarded",
   text="Values of the five datetime types are built from known components over a boundary grid and seeded random draws; the real String/ParseTime/MarshalJSON/UnmarshalJSON/.string() and zone conversions are executed and the inverse-function relations and the expected ISO text (computed from the components, not from the library) are asserted on every observed result; UnmarshalJSON is driven with every JSON token kind, short strings and truncated encodings and must never panic.",
   note="Equality = same Go type, instant and offset. UnmarshalJSON is driven with syntactically valid JSON only; JSON null may be rejected or ignored. Zone data: Go's embedded time/tzdata."),
 "C20": dict(level="fault_enumeration", technique="fault injection at every evaluation step via a context whose Done/Err flip is driven by the H1 step hook; contract monitor on each cancelled run",
   text="For every pool case (hand-written, covering each node kind and each consumer of an operand's error) and for generated cases, the uncancelled run is counted in evaluation steps K and the context is then made done at the entry of step k for EVERY k in 0..K, for each entry point, silent/verbose and both causes; each cancelled run must return (no result, error wrapping ErrExecution and the cause, not suppressible) within path-size+2 further steps. Exhaustive over cancellation points of the cases run, not over all paths.",
   note="The injection clock is the verif-tagged step hook in executeItemOptUnwrapTarget; a cancellation that arrives between two steps is observed at the next step, as in the real code."),
 "C04": dict(level="exploration", technique="runtime contract monitor over hostile/generated inputs (recover(), error-chain assertions, near-miss rejection), crash-isolated worker processes",
   text="Every generated input (prefixes, deletions, token-dictionary mutations, random bytes, huge literals, deep nesting, regex fragments) is fed to the real Parse/MustParse/Scan/UnmarshalText/UnmarshalBinary and the stated contract is asserted on each observed outcome; constructed near-misses of each validity rule must be rejected. Exploration, not proof: it covers the inputs the run produced.",
   note="Trusts Go's recover() to observe panics and the worker-process journal to attribute fatal crashes; hang = one Parse call exceeding 60 s wall-clock; accept/reject asserted only for constructed near-misses."),
}

props = [json.loads(l) for l in open("properties.jsonl")]
checks = []
na = []
for p in props:
    i = p["id"]
    if i in CLAIMED:
        c = CLAIMED[i]
        checks.append({
            "property_id": i,
            "quick_cmd": f"./check {i} quick",
            "thorough_cmd": f"./check {i} thorough",
            "evidence_file": f"/verif/evidence/{i}.json",
            "replay_cmd_template": f"./check {i} --replay {{path}}",
            "engine": "vcheck",
            "level_claimed": {"category": c["level"], "text": c["text"], "design_ref": f"DESIGN.md section 4, {i}"},
            "level_note": c["note"],
            "technique": c["technique"],
        })
    else:
        na.append({"property_id": i, "reason": "runtime monitor designed (DESIGN.md section 4) but not built yet; not claimed until its check exists and is silent on the unchanged tree"})

m = {
 "version": 1,
 "setup_cmd": "./setup.sh",
 "hooks": {
   "guard": "verif",
   "enable": "Go build tag: ./check builds cmd/vcheck with `go build -tags verif` against /repo (replace directive), which compiles path/exec/verif_on.go instead of verif_off.go",
   "baseline_off_cmd": "cd /repo && GOFLAGS=-mod=mod GOPROXY=off GOSUMDB=off GOTOOLCHAIN=local go test -json -vet=off -count=1 -timeout 25m ./...",
   "source_commits": HOOK_COMMITS,
   "add_only": True,
 },
 "engines": [{"name": "vcheck", "path": "/verif/cmd/vcheck", "serves_properties": sorted(CLAIMED), "kind_free_text": "Go driver + worker processes running the real packages (built with -tags verif) under monitors: contract/relational/reference-model oracles, H1/H2 hook invariants, Go race detector for C19"}],
 "checks": checks,
 "not_applicable": na,
 "notes": "All checks: exit 0 held / 1 VIOLATION / 2 inconclusive. VERIF_SEED selects PRNG streams (case-count bounded, no wall-clock budgets). Known findings: /verif/known-findings.txt.",
}
json.dump(m, open("MANIFEST.json", "w"), indent=1)
print("claimed:", sorted(CLAIMED), "not_applicable:", [x["property_id"] for x in na])
