#!/usr/bin/env python3
"""Regenerates /verif/MANIFEST.json from the table below (run from /verif)."""
import json, subprocess

HOOK_COMMITS = ["9b212f4"]

CLAIMED = {
 "C02": dict(level="exploration", technique="relational (metamorphic) monitor: p vs Parse(p.String()) and the four marshalling routes, trees compared through exported accessors, behaviour through typed Query results; violations attributed by neutralising recorded printer-defect triggers",
   text="Every path the parser accepts from an exhaustive operator x operand-shape x context matrix, every code point of a boundary set as key/string/variable, the numeric boundary grid in every spelling, all .** bounds, all regex flag subsets and random generated paths is printed and re-parsed; parse success, fixed point, same mode/predicate flag/tree, same typed results, and the same through MarshalText/UnmarshalText, MarshalBinary/UnmarshalBinary, Value/Scan are asserted.",
   note="Only parser-reachable trees. A violation is attributed to a recorded printer defect only if the defect's trigger is in the tree AND the tree with the triggers neutralised round-trips cleanly."),
 "C03": dict(level="exploration", technique="model-based monitor: the abstract tree a text was spelled from is the ground truth; random and exhaustive spellings from the documented alternatives",
   text="Abstract paths are spelled with random choices among the documented lexical/syntactic alternatives (separators, comments, keyword case, key/string escapes, number forms, <> vs !=, redundant or minimal parentheses); Parse must accept each and return exactly the abstract tree (sign folding normalised); the operator-pair precedence matrix and the last-token matrix are enumerated; IsPredicate/PgIndexOperator must match the abstract top level.",
   note="Only spellings the documentation permits are generated; literal values are carried by the abstract tree (int64 / float64 / code points), not re-derived from the text."),
 "C05": dict(level="exploration", technique="universal runtime monitors on every call (recover(), error-taxonomy assertions, deep before/after comparison of inputs, finiteness and sub-value membership of results) over an exhaustive operand-kind matrix and random workloads; crash-isolated workers with journal",
   text="Every binary/unary operator, predicate and method is applied to every pair of a value-kind corpus (incl. out-of-range json.Numbers and each datetime type) through all five entry points, lax/strict, silent/verbose, with/without WithTZ, plus the random workload and deep/long documents; on each call the monitors assert no panic, the error taxonomy, ErrInvalid never returned, inputs unmodified, results finite and made of sub-values.",
   note="Sub-value membership by canonical value. A fatal runtime error (stack overflow) kills the worker and is attributed through the journal."),
 "C07": dict(level="exploration", technique="reference-model monitor on an exhaustively enumerated small scope (all accessor/filter chains x all small documents) + direct 'lax never fails' assertion",
   text="All chains of <=3 steps over 16 accessor/filter forms x all documents of <=5 nodes, lax and strict, are executed and compared with the structural rules (offending element at every position); plus random larger accessor paths.",
   note="Strict array accessors on non-arrays below .** are not pinned by the statement and skipped."),
 "C12": dict(level="exploration", technique="leaf reference model (exact rational / byte / boolean comparison) + order-axiom monitors on observed outcomes over an exhaustively enumerated value corpus; Go regexp as oracle for like_regex",
   text="All ordered pairs of a ~90-value corpus (three numeric representations) x 6 operators x 2 modes are executed as predicate checks; outcomes are compared with the by-value model and, independently, trichotomy/duality/unions/transitivity are checked on the observed outcomes; sequence (existential/strict) rule, starts with and like_regex (flags translated by the harness) likewise.",
   note="By-value verdicts only for numbers unambiguous in their representation."),
 "C13": dict(level="exploration", technique="leaf reference model (math/big exact arithmetic, correctly rounded IEEE results with accept-sets) over an exhaustive boundary grid x 9 representation pairings; algebraic identities as relations between executions",
   text="A ~60x60 boundary grid x 5 operators x 9 representation pairings is executed and each result compared with the set of acceptable results (exact integer, truncated or exact quotient, IEEE double either rounding order, error on overflow / zero divisor); unary +/- on values and sequences, singleton rule, commutativity and double negation on real executions.",
   note="Integer operand = integer representation as the README documents."),
 "C14": dict(level="exploration", technique="leaf reference model (slice arithmetic) over an exhaustively enumerated small scope",
   text="All arrays of length <=3 over a 7-element alphabet (and length 4 over 3) x all single/range/pair subscripts over 16 bounds x lax/strict x silent/verbose are executed and compared with ~30 lines of slice arithmetic; bad subscripts, nested subscripts, random larger cases.",
   note="trunc toward zero, inclusive ranges, last = n-1."),
 "C15": dict(level="exploration", technique="leaf reference model (explicit depth-counting tree walk, all member orders) over all JSON trees up to a node bound",
   text="All JSON trees of <=6 nodes x 38 level-bound forms of .** (bare and followed by .a/.*/[*] in strict mode) x .* and [*] are executed and compared with an explicit tree walk in which the members of one object may appear in any order; .** vs .**{0 to last} and k-fold equivalences on real executions.",
   note="Objects of the enumerated trees have <=2 members, so all orders are enumerated."),
 "C16": dict(level="exploration", technique="leaf reference models per method (math/big) over a boundary grid in float64/json.Number/string form; round-trip relations; keyvalue id partition monitor on slab-allocated documents with GC churn",
   text="12 methods x input kinds x a numeric boundary grid x representations are executed and compared with per-method big-number oracles (ties either way, .decimal within 4 ulp and |result| < 10^(p-s)); .string() round trips; keyvalue ids grouped by owning object (unique marker members) must be equal within, distinct across, and stable over repeated executions.",
   note="Non-canonical numeric strings and numbers outside int64/float64 are totality-only."),
 "C17": dict(level="exploration", technique="reference model built on Go time arithmetic over a component-built datetime grid + metamorphic relation (compare vs compare-after-cast, antisymmetry, transitivity) between executions",
   text="A grid of datetime strings x 6 methods x precisions x WithTZ x 9 context zones is executed and compared with casts computed by time.Date/In/Round; all pairs of a sub-grid x 6 operators x zones: direct comparison vs model, vs comparison after explicit casts (two real executions), antisymmetry, transitivity.",
   note="time->time_tz only with fixed-offset zones (the library uses today's date for named zones)."),
 "C19": dict(level="exploration", technique="Go race detector on a concurrent public-API workload over fresh never-executed *Path values released from a barrier + porcupine history check against the isolated baseline + AST fingerprints + sequential order-independence",
   text="N goroutines x M calls (Query/First/Exists/Match/ExistsOrMatch/String, concurrent Parse) over a pool covering every node kind, shared documents and variables, several GOMAXPROCS settings and injected yields run under -race; every recorded operation must equal the isolated baseline (porcupine), the AST must be unchanged, and every path must return the baseline after arbitrary preceding calls.",
   note="Only schedules the Go scheduler produced; the race detector sees conflicting accesses that actually executed."),
 "C01": dict(level="exploration", technique="online reference-model monitor: every real Query outcome is compared with an independent evaluator of the documented rules (set of outcomes over all object-member orders); disagreements attributed by named deviation switches",
   text="Random (path, document, decoding, options) triples over every node kind are executed by the real Query and by an independently written stream evaluator of the documented lax/strict rules; the observed items and error class must be one of the outcomes the rules allow (member orders enumerated). Outcomes the documentation does not pin are skipped and counted. Exploration of generated cases, not a proof.",
   note="Trusted base: the reference evaluator in /verif/internal/model (shares no code with path/exec). Numbers compared by exact value; integer quotient may be truncated or exact."),
 "C06": dict(level="exploration", technique="relational monitor over the five entry points executed on identical inputs (plus the silent Query as 'complete evaluation')",
   text="For each generated (path, document, options) all five entry points are executed on the same values and the stated relations (First vs Query, Exists vs Query, strict Exists never hiding an error, Match's single-boolean rule, ExistsOrMatch dispatch) are asserted on the observed outcomes.",
   note="Member order is open: paths that expand object members get single-member objects so that the executions are comparable; otherwise order-dependent relations are skipped and counted."),
 "C08": dict(level="exploration", technique="relational monitor (verbose vs WithSilent run of every entry point) + reference model for items-before-failure + H1/H2 hook invariant on the verbose flag",
   text="Every entry point is executed with and without WithSilent on identical inputs; the relations of the property (no ErrVerbose under silent, success unchanged, suppressible failure becomes items-before-failure / NULL, non-suppressible errors unchanged and within the closed list) are asserted, and the hooks assert that the verbose flag is restored at every step exit and call end.",
   note="Closed list of non-suppressible errors taken from the property statement; items-before-failure from the reference model (skipped where unspecified)."),
 "C09": dict(level="exploration", technique="relational monitor (P S vs P then $ S at every split point; variable/literal heads) + H1/H2 hook invariants on @, last, $, base object, structural flag",
   text="Generated chains are split at every step boundary; the concatenation relation is asserted on real executions, and the hooks assert on every evaluation step that the context (current item, innermost array size, root, keyvalue base object, structural-error flag) is what it was on entry, and quiescent at the end of each call.",
   note="S is root-independent; strict prefixes with .** excluded; keyvalue ids masked; single-member objects where member order would be exposed."),
 "C10": dict(level="exploration", technique="relational monitor: filter result vs unfiltered items vs per-item predicate-check executions (C[@:=$] rewritten on the abstract tree); strict consecutive filters vs conjunction",
   text="For generated prefixes and conditions of every predicate kind, Query(P ?(C)) must equal the items of P (one-level lax unwrap) whose predicate check C[@:=$] returns [true], in order, unaltered; a hard error on a reached item must abort; strict P ?(C1) ?(C2) must equal P ?(C1 && C2).",
   note="Rewriting is done by the harness on its own abstract syntax; items compared by value."),
 "C11": dict(level="exploration", technique="truth-table enumeration with constant T/F/U/E operands + law monitor on observed operand outcomes (relational)",
   text="All operand combinations of ! && || is-unknown over {true,false,unknown,hard error} (several spellings each) are executed as predicate checks and inside filters, lax/strict, silent/verbose, and compared with the Kleene tables; for random conditions p,q the operands' outcomes are observed first and the compounds (both orders, double negation, De Morgan, is unknown, exists) compared with the tables; Query/Match correspondence checked on each.",
   note="An error operand on the right of a deciding left operand may be short-circuited or reported; lax exists on a failing operand may be unknown or false unless an item precedes the failure."),
 "C18": dict(level="exploration", technique="round-trip (inverse-function) monitors on values built from components + hostile-input contract monitor on UnmarshalJSON, recover()-guarded",
   text="Values of the five datetime types are built from known components over a boundary grid and seeded random draws; the real String/ParseTime/MarshalJSON/UnmarshalJSON/.string() and zone conversions are executed and the inverse-function relations and the expected ISO text (computed from the components, not from the library) are asserted on every observed result; UnmarshalJSON is driven with every JSON token kind, short strings and truncated encodings and must never panic.",
   note="Equality = same Go type, instant and offset. UnmarshalJSON is driven with syntactically valid JSON only; JSON null may be rejected or ignored. Zone data: Go's embedded time/tzdata."),
 "C20": dict(level="fault_enumeration", technique="fault injection at every evaluation step via a context whose Done/Err flip is driven by the H1 step hook; contract monitor on each cancelled run",
   text="For every pool case (hand-written, covering each node kind and each consumer of an operand's error) and for generated cases, the uncancelled run is counted in evaluation steps K and the context is then made done at the entry of step k for EVERY k in 0..K, for each entry point, silent/verbose and both causes; each cancelled run must return (no result, error wrapping ErrExecution and the cause, not suppressible) within path-size+2 further steps. Exhaustive over cancellation points of the cases run, not over all paths.",
   note="The injection clock is the verif-tagged step hook in executeItemOptUnwrapTarget; a cancellation that arrives between two steps is observed at the next step, as in the real code."),
 "C04": dict(level="exploration", technique="runtime contract monitor over hostile/generated inputs (recover(), error-chain assertions, near-miss rejection), crash-isolated worker processes",
   text="Every generated input (prefixes, deletions, token-dictionary mutations, random bytes, huge literals, deep nesting, regex fragments) is fed to the real Parse/MustParse/Scan/UnmarshalText/UnmarshalBinary and the stated contract is asserted on each observed outcome; constructed near-misses of each validity rule must be rejected. Exploration, not proof: it covers the inputs the run produced.",
   note="Trusts Go's recover() to observe panics and the worker-process journal to attribute fatal crashes; hang = one Parse call exceeding 60 s wall-clock; accept/reject asserted only for constructed near-misses."),
}

props = [json.loads(l) for l in open("properties.jsonl")]
checks = []
na = []
for p in props:
    i = p["id"]
    if i in CLAIMED:
        c = CLAIMED[i]
        checks.append({
            "property_id": i,
            "quick_cmd": f"./check {i} quick",
            "thorough_cmd": f"./check {i} thorough",
            "evidence_file": f"/verif/evidence/{i}.json",
            "replay_cmd_template": f"./check {i} --replay {{path}}",
            "engine": "vcheck",
            "level_claimed": {"category": c["level"], "text": c["text"], "design_ref": f"DESIGN.md section 4, {i}"},
            "level_note": c["note"],
            "technique": c["technique"],
        })
    else:
        na.append({"property_id": i, "reason": "runtime monitor designed (DESIGN.md section 4) but not built yet; not claimed until its check exists and is silent on the unchanged tree"})

m = {
 "version": 1,
 "setup_cmd": "./setup.sh",
 "hooks": {
   "guard": "verif",
   "enable": "Go build tag: ./check builds cmd/vcheck with `go build -tags verif` against /repo (replace directive), which compiles path/exec/verif_on.go instead of verif_off.go",
   "baseline_off_cmd": "cd /repo && GOFLAGS=-mod=mod GOPROXY=off GOSUMDB=off GOTOOLCHAIN=local go test -json -vet=off -count=1 -timeout 25m ./...",
   "source_commits": HOOK_COMMITS,
   "add_only": True,
 },
 "engines": [{"name": "vcheck", "path": "/verif/cmd/vcheck", "serves_properties": sorted(CLAIMED), "kind_free_text": "Go driver + worker processes running the real packages (built with -tags verif) under monitors: contract/relational/reference-model oracles, H1/H2 hook invariants, Go race detector for C19"}],
 "checks": checks,
 "not_applicable": na,
 "notes": "All checks: exit 0 held / 1 VIOLATION / 2 inconclusive. VERIF_SEED selects PRNG streams (case-count bounded, no wall-clock budgets). Known findings: /verif/known-findings.txt.",
}
json.dump(m, open("MANIFEST.json", "w"), indent=1)
print("claimed:", sorted(CLAIMED), "not_applicable:", [x["property_id"] for x in na])
