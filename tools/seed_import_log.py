#!/usr/bin/env python3
"""tools/seed_import_log.py <batch-log>... : imports sub-agent mutants into /verif/seeded/<ID>-<TAG><X>/ from the
RESULT/CHECK lines that tools/mutbatch.sh (tools/mutant.sh verify + check, scratch worktrees) already printed,
instead of running everything a second time. Later lines for the same mutant and check win. MUTOUT, MUTTAG as in seed_import.py."""
import json, os, re, shutil, sys
SRC = os.environ.get("MUTOUT", "/tmp/mut-out")
TAG = os.environ.get("MUTTAG", "")
ver, chk = {}, {}
for log in sys.argv[1:]:
    for l in open(log):
        m = re.match(r"RESULT (\S+) (build=.*)", l)
        if m:
            ver[m.group(1)] = m.group(2).strip()
        m = re.match(r"CHECK (\S+) (C\d\d) rc=(\d+) (\d+) violations", l)
        if m:
            chk.setdefault(m.group(1), {})[m.group(2)] = {"exit": int(m.group(3)), "violation_lines": int(m.group(4))}
for d in sorted(ver):
    if not d.startswith(SRC + "/"):
        continue
    pid, m = d[len(SRC) + 1:].split("/")
    v = ver[d]
    ok = "build=0 suite-with-mutant=0 demo-on-clean=0" in v and "demo-with-mutant=0" not in v
    res = chk.get(d, {})
    dst = f"/verif/seeded/{pid}-{TAG}{m}"
    os.makedirs(dst, exist_ok=True)
    for f in ("patch.diff", "demo_test.go", "notes.md"):
        if os.path.exists(d + "/" + f):
            shutil.copy(d + "/" + f, dst + "/" + f)
    notes = open(d + "/notes.md").read() if os.path.exists(d + "/notes.md") else ""
    meta = {
        "property": pid,
        "origin": "written by an independent sub-agent that saw only the property text, the ideas of earlier rounds to avoid, and a scratch worktree of the library",
        "needs_to_manifest": notes[:1500],
        "confirmed": ok,
        "verification_ran": "tools/mutant.sh verify (scratch worktree of /repo HEAD: go build, unedited suite with the change, demo without and with the change): RESULT " + v,
        "checks_ran": res,
        "caught_by": sorted(c for c in res if res[c]["exit"] == 1 and res[c]["violation_lines"] > 0),
    }
    json.dump(meta, open(dst + "/meta.json", "w"), indent=1)
    print(pid, m, "confirmed" if ok else "NOT-CONFIRMED", "caught_by", meta["caught_by"])
