#!/bin/bash
# tools/sweep.sh <tier> <seed>... : runs every check at the given seeds; prints one line per run.
cd "$(dirname "$0")/.."
tier=$1; shift
for seed in "$@"; do
  for id in C01 C02 C03 C04 C05 C06 C07 C08 C09 C10 C11 C12 C13 C14 C15 C16 C17 C18 C19 C20; do
    out=$(VERIF_SEED=$seed timeout 7200 ./check $id $tier 2>&1 </dev/null)
    rc=$?
    echo "$id seed=$seed rc=$rc $(echo "$out" | grep "^$id $tier" | sed 's/.*evaluations/evaluations/')"
    if [ $rc -ne 0 ]; then echo "$out" | grep -v "^KNOWN" | head -20; fi
  done
done
