#!/bin/bash
# tools/mutbatch.sh <ID> [extra check IDs...] : verify and check mutants A and B of /tmp/mut-out/<ID>
id=$1; shift
for m in A B C; do
  d=${MUTOUT:-/tmp/mut-out}/$id/$m
  [ -f $d/patch.diff ] || continue
  timeout 900 /verif/tools/mutant.sh verify $d 2>&1 | grep RESULT
  timeout 3000 /verif/tools/mutant.sh check $d $id "$@" 2>&1 | grep "^CHECK"
done
