#!/bin/bash
# tools/coverage.sh [IDs...] : development aid - statement coverage of the library reached by the quick checks
# (which statements of theory/sqljson did the workloads execute; the uncovered ones point at generator blind spots).
# Writes .work/cover/<ID>.txt (per function) and .work/cover/uncovered-<ID>.txt; not used by any registered check.
cd "$(dirname "$0")/.."
export GOFLAGS=-mod=mod GOPROXY=off GOSUMDB=off GOTOOLCHAIN=local
W=$PWD/.work/cover; mkdir -p $W/root; cp known-findings.txt $W/root/
go build -tags verif -cover -coverpkg=./...,github.com/theory/sqljson/path/... -o $W/vcheck ./cmd/vcheck || exit 2
ids=${@:-C01 C02 C03 C04 C05 C06 C07 C08 C09 C10 C11 C12 C13 C14 C15 C16 C17 C18 C19 C20}
for id in $ids; do
  rm -rf $W/data-$id; mkdir -p $W/data-$id $W/work-$id
  GOCOVERDIR=$W/data-$id $W/vcheck -prop $id -tier ${TIER:-quick} -seed 1 -root $W/root -work $W/work-$id > $W/run-$id.log 2>&1
  go tool covdata textfmt -i=$W/data-$id -o $W/$id.prof 2>/dev/null
  go tool cover -func=$W/$id.prof 2>/dev/null > $W/$id.txt
  tail -1 $W/$id.txt | sed "s/^/$id /"
done
