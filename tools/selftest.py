#!/usr/bin/env python3
"""Self-validation of the monitors (development tool, not a registered check).

For each catalogue mutant (single-site textual change of theory/sqljson) it makes a scratch
worktree of /repo under /tmp/mutv, applies the change, runs the repository's own suite (to
know whether the suite already kills it) and the listed quick checks against the scratch copy
(VERIF_REPO), and reports which checks raise a VIOLATION. Nothing under /repo is modified.

usage: tools/selftest.py [name-substring ...]
"""
import os, subprocess, sys, shutil, json

ENV = dict(os.environ, GOFLAGS="-mod=mod", GOPROXY="off", GOSUMDB="off", GOTOOLCHAIN="local")

# (name, file, old, new, [checks expected to catch it])
M = [
 ("C01-key-double-unwrap", "path/exec/literal.go", "return exec.executeAnyItem(ctx, node, value, found, 1, 1, 1, false, false)", "return exec.executeAnyItem(ctx, node, value, found, 1, 1, 1, false, true)", ["C01", "C07"]),
 ("C01-no-result-unwrap", "path/exec/execution.go", "\tif unwrap && exec.autoUnwrap() {\n\t\tseq := newList()", "\tif unwrap && exec.autoUnwrap() && false {\n\t\tseq := newList()", ["C01", "C13"]),
 ("C02-right-operand-parens-lt", "path/ast/ast.go", "\t\tn.right.writeTo(buf, false, n.right.priority() <= n.priority())\n\n\t\tif withParens {", "\t\tn.right.writeTo(buf, false, n.right.priority() < n.priority())\n\n\t\tif withParens {", ["C02"]),
 ("C02-flag-order", "path/ast/regex.go", "[]regexFlag{regexICase, regexDotAll, regexMLine, regexWSpace, regexQuote}", "[]regexFlag{regexDotAll, regexICase, regexMLine, regexWSpace, regexQuote}", []),
 ("C03-hexchar-upper", "path/parser/lex.go", "\tcase 'A' <= c && c <= 'F':\n\t\treturn c - 'A' + decimal", "\tcase 'A' <= c && c <= 'F':\n\t\treturn c - 'A' + decimal - 1", ["C03"]),
 ("C03-ne-lexed-as-lt", "path/parser/lex.go", "\t\tcase '>':\n\t\t\treturn NOTEQUAL_P, l.next()", "\t\tcase '>':\n\t\t\treturn LESS_P, l.next()", ["C03"]),
 ("C04-no-last-validation", "path/ast/ast.go", "\t\t\tif !inSubscript {\n\t\t\t\treturn errors.New(\"LAST is allowed only in array subscripts\")\n\t\t\t}", "\t\t\tif !inSubscript && depth < 0 {\n\t\t\t\treturn errors.New(\"LAST is allowed only in array subscripts\")\n\t\t\t}", ["C04"]),
 ("C04-regex-not-validated", "path/ast/ast.go", "\tif err := validateRegex(pattern, f); err != nil {\n\t\treturn nil, err\n\t}", "\tif err := validateRegex(pattern, f); err != nil && len(pattern) < 3 {\n\t\treturn nil, err\n\t}", ["C04"]),
 ("C05-size-appends", "path/exec/method.go", "\tcase []any:\n\t\tsize = len(value)", "\tcase []any:\n\t\tsize = len(value)\n\t\tif size == 2 && cap(value) > 2 {\n\t\t\t_ = append(value, nil)\n\t\t}", ["C05"]),
 ("C05-keyvalue-sorts-input", "path/exec/method.go", "\tcase string:\n\t\tstr = val\n\tcase types.DateTime:", "\tcase string:\n\t\tstr = val\n\t\tif arr, ok := exec.root.([]any); ok && len(arr) > 1 {\n\t\t\tarr[0], arr[1] = arr[1], arr[0]\n\t\t}\n\tcase types.DateTime:", ["C05"]),
 ("C06-exists-early-before-check", "path/exec/math.go", "\tval, err := execMathOp(lSeq.list[0], rSeq.list[0], op)\n\tif err != nil {\n\t\treturn exec.returnVerboseError(err)\n\t}", "\tif node.Next() == nil && found == nil {\n\t\treturn statusOK, nil\n\t}\n\tval, err := execMathOp(lSeq.list[0], rSeq.list[0], op)\n\tif err != nil {\n\t\treturn exec.returnVerboseError(err)\n\t}", ["C06"]),
 ("C07-strict-bound-off-by-one", "path/exec/array.go", "indexFrom > indexTo || indexTo >= arraySize)", "indexFrom > indexTo || indexTo > arraySize)", ["C07", "C14", "C01"]),
 ("C07-anyarray-ignores-strict", "path/exec/const.go", "\tif !exec.ignoreStructuralErrors {\n\t\t// https://github.com/postgres/postgres/blob/REL_18_3/src/backend/utils/adt/jsonpath_exec.c#L849", "\tif !exec.ignoreStructuralErrors && value != nil {\n\t\t// https://github.com/postgres/postgres/blob/REL_18_3/src/backend/utils/adt/jsonpath_exec.c#L849", ["C07", "C01"]),
 ("C08-returnError-suppresses-all", "path/exec/exec.go", "\tif exec.verbose || !errors.Is(err, ErrVerbose) {\n\t\treturn statusFailed, err\n\t}", "\tif exec.verbose {\n\t\treturn statusFailed, err\n\t}", ["C08", "C01"]),
 ("C08-divzero-hard", "path/exec/math.go", "\t\tif rhs == 0 {\n\t\t\treturn 0, fmt.Errorf(\"%w: division by zero\", ErrVerbose)\n\t\t}\n\t\treturn lhs % rhs, nil", "\t\tif rhs == 0 {\n\t\t\treturn 0, fmt.Errorf(\"%w: division by zero\", ErrExecution)\n\t\t}\n\t\treturn lhs % rhs, nil", ["C08", "C13", "C01"]),
 ("C08-verbose-not-restored", "path/exec/execution.go", "\tdefer func(e *Executor, te bool) { e.verbose = te }(exec, verbose)", "\tdefer func(e *Executor, te bool) { e.verbose = te || e.useTZ }(exec, verbose)", ["C08"]),
 ("C09-innermost-not-restored-on-error", "path/exec/array.go", "\t\t\tif err != nil {\n\t\t\t\treturn exec.returnError(err)\n\t\t\t}\n\n\t\t\tfor index := indexFrom", "\t\t\tif err != nil {\n\t\t\t\tinnermostArraySize = size\n\t\t\t\treturn exec.returnError(err)\n\t\t\t}\n\n\t\t\tfor index := indexFrom", ["C09", "C08"]),
 ("C09-variable-base-not-restored", "path/exec/literal.go", "\t\tdefer exec.setTempBaseObject(exec.vars, 1)()", "\t\texec.setTempBaseObject(exec.vars, 1)", ["C09"]),
 ("C09-current-not-restored", "path/exec/boolean.go", "\tdefer func(e *Executor, c any) { e.current = c }(exec, prev)", "\tdefer func(e *Executor, c any) {\n\t\tif _, isArr := c.([]any); !isArr {\n\t\t\te.current = c\n\t\t}\n\t}(exec, prev)", ["C09", "C10", "C01"]),
 ("C10-keep-unless-false", "path/exec/op.go", "\t\tif st != predTrue {\n\t\t\treturn statusNotFound, nil\n\t\t}", "\t\tif st == predFalse {\n\t\t\treturn statusNotFound, nil\n\t\t}", ["C10", "C01"]),
 ("C11-or-false-right", "path/exec/boolean.go", "\t\tif res2 == predFalse {\n\t\t\treturn res, err\n\t\t}", "\t\tif res2 == predFalse {\n\t\t\treturn predFalse, err\n\t\t}", ["C11", "C01"]),
 ("C12-le-as-lt", "path/exec/compare.go", "\tcase ast.BinaryLessOrEqual:\n\t\treturn predFrom(cmp <= 0), nil", "\tcase ast.BinaryLessOrEqual:\n\t\treturn predFrom(cmp < 0), nil", ["C12"]),
 ("C12-number-vs-string-false", "path/exec/compare.go", "\t\tdefault:\n\t\t\treturn predUnknown, nil\n\t\t}\n\tcase string:", "\t\tdefault:\n\t\t\treturn predFalse, nil\n\t\t}\n\tcase string:", ["C12", "C01"]),
 ("C13-mod-as-div", "path/exec/math.go", "\t\treturn lhs % rhs, nil", "\t\treturn lhs - (lhs/rhs)*rhs + (lhs/rhs)/(1<<62), nil", []),
 ("C13-float-by-left-only", "path/exec/math.go", "\t\tcase float64:\n\t\t\treturn executeFloatMath(float64(left), right, op)\n\t\tcase json.Number:\n\t\t\tif right, err := right.Int64(); err == nil {", "\t\tcase float64:\n\t\t\treturn executeIntegerMath(left, int64(right), op)\n\t\tcase json.Number:\n\t\t\tif right, err := right.Int64(); err == nil {", ["C13", "C01"]),
 ("C14-round-instead-of-trunc", "path/exec/util.go", "\t\tnum = int64(val)\n\tcase json.Number:", "\t\tnum = int64(math.Round(val))\n\tcase json.Number:", ["C14", "C01"]),
 ("C14-last-is-size", "path/exec/const.go", "\tlast := int64(exec.innermostArraySize - 1)", "\tlast := int64(exec.innermostArraySize - 1)\n\tif node.Next() != nil {\n\t\tlast++\n\t}", ["C14", "C01"]),
 ("C15-level-gt-first", "path/exec/op.go", "\t\tif level >= first || (first == math.MaxUint32", "\t\tif level > first || (first == math.MaxUint32", ["C15", "C01"]),
 ("C15-anykey-skips-last", "path/exec/const.go", "\t\treturn exec.executeAnyItem(\n\t\t\tctx, node.Next(), slices.Collect(maps.Values(value)), found,\n\t\t\t1, 1, 1, false, exec.autoUnwrap(),\n\t\t)", "\t\tvals := slices.Collect(maps.Values(value))\n\t\tif len(vals) > 2 {\n\t\t\tvals = vals[:len(vals)-1]\n\t\t}\n\t\treturn exec.executeAnyItem(\n\t\t\tctx, node.Next(), vals, found,\n\t\t\t1, 1, 1, false, exec.autoUnwrap(),\n\t\t)", ["C15", "C01"]),
 ("C16-integer-upper-bound", "path/exec/method.go", "\tif err != nil || integer > math.MaxInt32 || integer < math.MinInt32 {", "\tif err != nil || integer > math.MaxInt32+1 || integer < math.MinInt32 {", ["C16"]),
 ("C16-boolean-t-prefix", "path/exec/method.go", "\t\tif size == 1 || strings.EqualFold(val, \"true\") {\n\t\t\treturn true, nil\n\t\t}", "\t\tif size == 1 || strings.EqualFold(val, \"true\") || size == 4 {\n\t\t\treturn true, nil\n\t\t}", ["C16"]),
 ("C17-cast-tstz-ignores-zone-for-date", "path/types/date.go", "\t\t\tt.Year(), t.Month(), t.Day(), 0, 0, 0, 0, TZFromContext(ctx),", "\t\t\tt.Year(), t.Month(), t.Day(), 0, 0, 0, 0, time.UTC,", ["C17", "C18"]),
 ("C17-precision-cap-7", "path/exec/datetime.go", "\t\tconst maxTimestampPrecision = 6", "\t\tconst maxTimestampPrecision = 7", ["C17"]),
 ("C17-timetz-tiebreak-inverted", "path/types/timetz.go", "\tif off1 > off2 {\n\t\treturn -1\n\t}\n\tif off1 < off2 {\n\t\treturn 1\n\t}", "\tif off1 > off2 {\n\t\treturn -1\n\t}\n\tif off1 < off2 {\n\t\treturn -1\n\t}", ["C17"]),
 ("C18-timetz-output-Z", "path/types/timetz.go", "\ttimeTZOutputFormat = \"15:04:05.999999999-07:00\"", "\ttimeTZOutputFormat = \"15:04:05.999999999Z07:00\"", ["C18"]),
 ("C18-newdate-keeps-hour", "path/types/date.go", "\t\ttime.Date(src.Year(), src.Month(), src.Day(), 0, 0, 0, 0, offsetZero),", "\t\ttime.Date(src.Year(), src.Month(), src.Day(), src.Hour()/13, 0, 0, 0, offsetZero),", ["C18", "C17"]),
 ("C19-regexp-cached-in-node", "path/ast/ast.go", "func (n *RegexNode) Regexp() *regexp.Regexp {\n\tflags := n.flags.goFlags()", "var regexCache = map[*RegexNode]*regexp.Regexp{}\n\nfunc (n *RegexNode) Regexp() *regexp.Regexp {\n\tif re, ok := regexCache[n]; ok {\n\t\treturn re\n\t}\n\tre := n.regexp()\n\tregexCache[n] = re\n\treturn re\n}\n\nfunc (n *RegexNode) regexp() *regexp.Regexp {\n\tflags := n.flags.goFlags()", ["C19"]),
 ("C20-cancel-built-verbose", "path/exec/execution.go", "\t\treturn statusFailed, fmt.Errorf(\"%w: %w\", ErrExecution, ctx.Err())", "\t\treturn statusFailed, fmt.Errorf(\"%w: %w\", ErrVerbose, ctx.Err())", ["C20"]),
 ("C20-exists-drops-error", "path/exec/boolean.go", "\t\tres, err := exec.executeItemOptUnwrapResultSilent(ctx, node.Operand(), value, false, nil)\n\t\tif res == statusFailed {\n\t\t\treturn predUnknown, err\n\t\t}", "\t\tres, _ := exec.executeItemOptUnwrapResultSilent(ctx, node.Operand(), value, false, nil)\n\t\tif res == statusFailed {\n\t\t\treturn predUnknown, nil\n\t\t}", ["C20", "C11"]),
 ("C20-no-poll-for-keys", "path/exec/execution.go", "\tselect {\n\tcase <-ctx.Done():", "\tif _, isKey := node.(*ast.KeyNode); isKey {\n\t\treturn exec.execKeyNode(ctx, node.(*ast.KeyNode), value, found, unwrap)\n\t}\n\tselect {\n\tcase <-ctx.Done():", ["C20"]),
]

def run(cmd, cwd=None, env=ENV, timeout=3600):
    p = subprocess.run(cmd, shell=True, cwd=cwd, env=env, capture_output=True, text=True, timeout=timeout)
    return p.returncode, p.stdout + p.stderr

def main():
    sel = sys.argv[1:]
    os.makedirs("/tmp/mutv", exist_ok=True)
    results = []
    for name, f, old, new, checks in M:
        if sel and not any(s in name for s in sel):
            continue
        wt = f"/tmp/mutv/self-{name}"
        run(f"git -C /repo worktree remove --force {wt}; rm -rf {wt}; git -C /repo worktree prune")
        rc, out = run(f"git -C /repo worktree add --detach {wt} HEAD")
        if rc != 0:
            print(name, "worktree failed", out); continue
        try:
            p = os.path.join(wt, f)
            s = open(p).read()
            if s.count(old) != 1:
                print(f"{name}: ANCHOR NOT FOUND ({s.count(old)} matches)"); continue
            open(p, "w").write(s.replace(old, new))
            rc, out = run("go build ./... && go vet ./path/... >/dev/null 2>&1; go build ./...", cwd=wt)
            if rc != 0:
                print(f"{name}: DOES NOT COMPILE\n{out[-400:]}"); continue
            rc, out = run("go test -vet=off -count=1 ./...", cwd=wt)
            suite = "suite-passes" if rc == 0 else "suite-KILLS"
            caught = []
            missed = []
            for cid in checks:
                env = dict(ENV, VERIF_REPO=wt, VERIF_WORKTAG="self")
                rc, out = run(f"./check {cid} quick", cwd="/verif", env=env)
                nv = out.count("\nVIOLATION") + (1 if out.startswith("VIOLATION") else 0)
                (caught if rc == 1 and nv > 0 else missed).append(f"{cid}(rc={rc},v={nv})")
                shutil.rmtree(f"/verif/.work/self-{cid}", ignore_errors=True)
            print(f"{name}: {suite}; caught by {caught}; missed by {missed}", flush=True)
            results.append((name, suite, caught, missed))
        finally:
            run(f"git -C /repo worktree remove --force {wt}; rm -rf {wt}")
    json.dump(results, open("/tmp/mutv/selftest-results.json", "w"), indent=1)

main()
