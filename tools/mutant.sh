#!/bin/bash
# Development tool for seeded changes (never touches /repo).
#   tools/mutant.sh verify <dir>          <dir> holds patch.diff and demo_test.go ("// dir: <pkgdir>" on line 1)
#   tools/mutant.sh check  <dir> <ID>...  run the quick checks against a scratch worktree carrying the patch
# Scratch worktrees live under /tmp/mutv and are removed afterwards.
# VERIF_HOME (default /verif): run the checks of a snapshot copy of /verif, so that
# editing /verif does not disturb a batch that is running.
set -u
export GOFLAGS=-mod=mod GOPROXY=off GOSUMDB=off GOTOOLCHAIN=local
cmd=$1; dir=$(cd "$2" && pwd); shift 2
name=$(echo "$dir" | tr '/' '_')
wt=/tmp/mutv/$name
rm -rf "$wt"; git -C /repo worktree prune
git -C /repo worktree add --detach "$wt" HEAD >/dev/null 2>&1 || { echo "worktree failed"; exit 2; }
cleanup() { git -C /repo worktree remove --force "$wt" >/dev/null 2>&1; }
trap cleanup EXIT
case $cmd in
verify)
  pkgdir=$(head -1 "$dir/demo_test.go" | sed -n 's#^// *dir: *##p')
  [ -z "$pkgdir" ] && pkgdir=path
  cp "$dir/demo_test.go" "$wt/$pkgdir/zz_demo_test.go"
  ( cd "$wt" && go test -vet=off -count=1 ./$pkgdir/ -run . >/tmp/mutv/$name.clean.log 2>&1 ); clean=$?
  rm "$wt/$pkgdir/zz_demo_test.go"
  git -C "$wt" apply "$dir/patch.diff" || { echo "RESULT $dir patch-does-not-apply"; exit 1; }
  ( cd "$wt" && go build ./... >/tmp/mutv/$name.build.log 2>&1 ); build=$?
  ( cd "$wt" && go test -vet=off -count=1 ./... >/tmp/mutv/$name.suite.log 2>&1 ); suite=$?
  cp "$dir/demo_test.go" "$wt/$pkgdir/zz_demo_test.go"
  ( cd "$wt" && go test -vet=off -count=1 ./$pkgdir/ -run . >/tmp/mutv/$name.mut.log 2>&1 ); mut=$?
  echo "RESULT $dir build=$build suite-with-mutant=$suite demo-on-clean=$clean demo-with-mutant=$mut  (want 0 0 0 nonzero)"
  ;;
check)
  git -C "$wt" apply "$dir/patch.diff" || { echo "RESULT $dir patch-does-not-apply"; exit 1; }
  for id in "$@"; do
    out=$(cd "${VERIF_HOME:-/verif}" && VERIF_REPO="$wt" VERIF_WORKTAG="$name" timeout 3600 ./check $id quick 2>&1 </dev/null); rc=$?
    echo "CHECK $dir $id rc=$rc $(echo "$out" | grep -c '^VIOLATION') violations"
    echo "$out" | grep -v '^KNOWN\|^    case' | grep -A1 'clause=' | head -8 | cut -c1-300
    rm -rf "${VERIF_HOME:-/verif}/.work/$name-$id"
  done
  ;;
esac
