// vcheck is the single binary of the verification harness: a driver that
// shards a property's workload over worker child processes, merges what the
// monitors observed, matches violations against known_findings.jsonl and
// writes the evidence file; and the worker itself (-worker).
package main

import (
	"bufio"
	"encoding/binary"
	"encoding/json"
	"flag"
	"fmt"
	"os"
	"os/exec"
	"path/filepath"
	"sort"
	"strconv"
	"strings"
	"sync"
	"time"
	_ "time/tzdata"

	"github.com/theory/sqljson/path"

	"verif/internal/h"
	"verif/internal/props"
)

var (
	fProp    = flag.String("prop", "", "property id")
	fTier    = flag.String("tier", "quick", "quick|thorough")
	fSeed    = flag.Uint64("seed", 1, "PRNG seed")
	fWorker  = flag.Bool("worker", false, "worker mode")
	fShard   = flag.Int("shard", 0, "shard index")
	fNShards = flag.Int("nshards", 16, "number of shards")
	fWork    = flag.String("work", "", "work directory")
	fReplay  = flag.String("replay", "", "replay file")
	fRoot    = flag.String("root", "/verif", "verif root")
	fRaceLog = flag.String("racelog", "", "race detector log prefix (C19)")
)

func main() {
	flag.Parse()
	p := props.Registry[*fProp]
	if p == nil {
		fmt.Fprintf(os.Stderr, "unknown property %q\n", *fProp)
		os.Exit(2)
	}
	if *fTier != "quick" && *fTier != "thorough" {
		fmt.Fprintf(os.Stderr, "bad tier %q\n", *fTier)
		os.Exit(2)
	}
	if *fWork == "" {
		*fWork = filepath.Join(*fRoot, ".work", p.ID)
	}
	switch {
	case *fWorker:
		worker(p)
	case *fReplay != "":
		replay(p)
	default:
		os.Exit(drive(p))
	}
}

func worker(p *props.Prop) {
	h.InstallHooks()
	c := h.NewCtx(p.ID, *fTier, *fSeed, *fShard, *fNShards, *fWork)
	installFaultSink(c)
	msg := h.Guard(func() { p.Run(c) })
	for k, v := range h.StatesSeen() {
		c.Count(k, v)
	}
	c.Count("hook.steps", h.GlobalSteps.Load())
	c.Count("hook.faults", h.GlobalFaults.Load())
	if mx := h.MaxInFlight.Load(); mx > 0 {
		c.Count("max:hook.in_flight", mx)
	}
	if err := c.Finish(msg); err != nil {
		fmt.Fprintln(os.Stderr, "finish:", err)
		os.Exit(3)
	}
	if msg != "" {
		fmt.Fprintln(os.Stderr, msg)
		os.Exit(3)
	}
}

// installFaultSink turns every H1/H2 hook-invariant failure, in whatever
// property's workload it is observed, into a violation of clause "context"
// (evaluation context not restored / not quiescent) carrying the offending call.
func installFaultSink(c *h.Ctx) {
	h.EntryMonitor = true
	h.FaultSink = func(entry string, p *path.Path, doc any, o h.Opts, faults []string) {
		kind := "other"
		for _, k := range []string{"verbose", "current", "root", "innermostArraySize", "ignoreStructuralErrors", "baseObject", "useTZ", "options-slice-written", "entry-points-disagree", "context-replaced", "options-not-independent"} {
			if strings.Contains(faults[0], k) {
				kind = k
				break
			}
		}
		db, _ := json.Marshal(doc)
		vb, _ := json.Marshal(o.Vars)
		txt := "?"
		func() {
			defer func() { _ = recover() }()
			txt = p.String()
		}()
		cs := h.Case{Kind: "hook-fault", Path: txt, Doc: string(db), Vars: string(vb), Silent: o.Silent, TZ: o.TZ, Entry: entry, UseNum: true}
		c.Violate("context", h.F("fault", kind), "hook invariant failed during "+entry+": "+strings.Join(faults, "; "), cs)
	}
}

type replayFile struct {
	Violation h.Violation `json:"violation"`
	Tier      string      `json:"tier"`
	Seed      uint64      `json:"seed"`
}

func replay(p *props.Prop) {
	b, err := os.ReadFile(*fReplay)
	if err != nil {
		fmt.Fprintln(os.Stderr, err)
		os.Exit(2)
	}
	var rf replayFile
	if err := json.Unmarshal(b, &rf); err != nil {
		fmt.Fprintln(os.Stderr, err)
		os.Exit(2)
	}
	if p.Replay == nil {
		fmt.Fprintln(os.Stderr, "property has no single-case replay; re-run the check with the recorded seed:", rf.Seed)
		os.Exit(2)
	}
	h.InstallHooks()
	_ = os.MkdirAll(*fWork, 0o755)
	c := h.NewCtx(p.ID, rf.Tier, rf.Seed, 0, 1, *fWork)
	installFaultSink(c)
	cs := rf.Violation.Case
	if rf.Violation.Shrunk != nil {
		cs = *rf.Violation.Shrunk
	}
	msg := h.Guard(func() { p.Replay(c, cs) })
	if msg != "" {
		fmt.Fprintln(os.Stderr, msg)
		os.Exit(2)
	}
	_ = c.Finish("")
	var res h.Result
	rb, _ := os.ReadFile(filepath.Join(*fWork, "shard-0.json"))
	_ = json.Unmarshal(rb, &res)
	if len(res.Violations) == 0 {
		fmt.Println("replay: no violation reproduced")
		os.Exit(0)
	}
	for _, v := range res.Violations {
		fmt.Printf("replay: violated clause=%s %v\n  %s\n", v.Clause, v.Features, v.Detail)
	}
	fmt.Printf("VIOLATION property=%s replay=%s\n", p.ID, *fReplay)
	os.Exit(1)
}

// ---------------------------------------------------------------------------

type knownFinding struct {
	Property string            `json:"property"`
	Clause   string            `json:"clause"`
	Match    map[string]string `json:"match"`
	What     string            `json:"what"`
	Fixed    string            `json:"fixed"`
}

func loadKnown(root, prop string) []knownFinding {
	f, err := os.Open(filepath.Join(root, "known-findings.txt"))
	if err != nil {
		return nil
	}
	defer f.Close()
	var out []knownFinding
	sc := bufio.NewScanner(f)
	sc.Buffer(make([]byte, 1<<20), 1<<20)
	for sc.Scan() {
		line := strings.TrimSpace(sc.Text())
		if line == "" || strings.HasPrefix(line, "#") || strings.HasPrefix(line, "fixed:") {
			continue // fixed entries suppress nothing
		}
		var k knownFinding
		if err := json.Unmarshal([]byte(line), &k); err != nil {
			fmt.Fprintln(os.Stderr, "known-findings.txt: bad line:", err)
			continue
		}
		if k.Fixed != "" || k.Property != prop {
			continue // fixed entries suppress nothing
		}
		out = append(out, k)
	}
	return out
}

func (k *knownFinding) matches(v *h.Violation) bool {
	if k.Clause != v.Clause {
		return false
	}
	if len(k.Match) == 0 {
		return false // a finding must name its cause features
	}
	for key, want := range k.Match {
		if v.Features[key] != want {
			return false
		}
	}
	return true
}

func drive(p *props.Prop) int {
	start := time.Now()
	work := *fWork
	_ = os.MkdirAll(work, 0o755)
	old, _ := filepath.Glob(filepath.Join(work, "shard-*"))
	for _, f := range old {
		_ = os.Remove(f)
	}
	stale, _ := filepath.Glob(filepath.Join(*fRoot, "replays", p.ID, fmt.Sprintf("%s-%s-seed%d-*.json", p.ID, *fTier, *fSeed)))
	for _, f := range stale {
		_ = os.Remove(f)
	}
	nshards := 16
	if p.Shards != nil {
		nshards = p.Shards(*fTier)
	}
	timeout := 20 * time.Minute
	if *fTier == "thorough" {
		timeout = 120 * time.Minute
	}
	self, _ := os.Executable()
	type wres struct {
		err      error
		timedOut bool
	}
	results := make([]wres, nshards)
	sem := make(chan struct{}, 16)
	var wg sync.WaitGroup
	for s := 0; s < nshards; s++ {
		wg.Add(1)
		sem <- struct{}{}
		go func(s int) {
			defer wg.Done()
			defer func() { <-sem }()
			logf, err := os.Create(filepath.Join(work, fmt.Sprintf("shard-%d.log", s)))
			if err != nil {
				results[s].err = err
				return
			}
			defer logf.Close()
			cmd := exec.Command(self, "-worker", "-prop", p.ID, "-tier", *fTier,
				"-seed", strconv.FormatUint(*fSeed, 10), "-shard", strconv.Itoa(s),
				"-nshards", strconv.Itoa(nshards), "-work", work, "-root", *fRoot)
			cmd.Stdout = logf
			cmd.Stderr = logf
			cmd.Env = os.Environ()
			if err := cmd.Start(); err != nil {
				results[s].err = err
				return
			}
			done := make(chan error, 1)
			go func() { done <- cmd.Wait() }()
			select {
			case err := <-done:
				results[s].err = err
			case <-time.After(timeout):
				_ = cmd.Process.Kill()
				<-done
				results[s].timedOut = true
			}
		}(s)
	}
	wg.Wait()

	// Merge.
	merged := h.Result{Prop: p.ID, Clauses: map[string]*h.ClauseStat{}, Counters: map[string]int64{},
		Samples: map[string][]any{}, VioCount: map[string]int64{}, Exhaustive: map[string]bool{}}
	var infra []string
	var allHashes []uint64
	for s := 0; s < nshards; s++ {
		if results[s].timedOut {
			infra = append(infra, fmt.Sprintf("shard %d: watchdog fired after %v (inconclusive)", s, timeout))
			continue
		}
		b, err := os.ReadFile(filepath.Join(work, fmt.Sprintf("shard-%d.json", s)))
		if err != nil {
			// The worker died without writing its result.
			logb, _ := os.ReadFile(filepath.Join(work, fmt.Sprintf("shard-%d.log", s)))
			logs := string(logb)
			if strings.Contains(logs, "fatal error:") || strings.Contains(logs, "goroutine stack exceeds") || strings.Contains(logs, "checkptr") {
				j := h.ReadJournal(work, s)
				var cs h.Case
				if json.Unmarshal([]byte(j), &cs) != nil {
					cs = h.Case{Kind: "journal", Input: j}
				}
				first := logs
				if i := strings.Index(first, "fatal error:"); i >= 0 {
					first = first[i:]
				}
				if len(first) > 600 {
					first = first[:600]
				}
				v := h.Violation{Prop: p.ID, Clause: "panic", Features: h.F("kind", "fatal-crash"),
					Detail: "worker process died with a fatal runtime error while executing the journaled case: " + first, Case: cs}
				merged.Violations = append(merged.Violations, v)
				merged.VioCount[v.Sig()]++
				continue
			}
			tail := logs
			if len(tail) > 1500 {
				tail = tail[len(tail)-1500:]
			}
			infra = append(infra, fmt.Sprintf("shard %d: no result (%v): %s", s, results[s].err, tail))
			continue
		}
		var r h.Result
		if err := json.Unmarshal(b, &r); err != nil {
			infra = append(infra, fmt.Sprintf("shard %d: bad result: %v", s, err))
			continue
		}
		if r.InfraError != "" {
			infra = append(infra, fmt.Sprintf("shard %d: %s", s, r.InfraError))
		}
		merged.Evals += r.Evals
		for k, v := range r.Clauses {
			m := merged.Clauses[k]
			if m == nil {
				m = &h.ClauseStat{}
				merged.Clauses[k] = m
			}
			m.Exercised += v.Exercised
			m.Held += v.Held
			m.Skipped += v.Skipped
			m.Violated += v.Violated
		}
		for k, v := range r.Counters {
			if strings.HasPrefix(k, "max:") {
				if v > merged.Counters[k] {
					merged.Counters[k] = v
				}
				continue
			}
			merged.Counters[k] += v
		}
		for k, v := range r.Samples {
			if len(merged.Samples[k]) < 2 {
				merged.Samples[k] = append(merged.Samples[k], v...)
				if len(merged.Samples[k]) > 2 {
					merged.Samples[k] = merged.Samples[k][:2]
				}
			}
		}
		merged.Violations = append(merged.Violations, r.Violations...)
		for k, v := range r.VioCount {
			merged.VioCount[k] += v
		}
		for k, v := range r.Exhaustive {
			if v {
				merged.Exhaustive[k] = true
			}
		}
		merged.Notes = append(merged.Notes, r.Notes...)
		hb, _ := os.ReadFile(filepath.Join(work, fmt.Sprintf("shard-%d.hashes", s)))
		for i := 0; i+8 <= len(hb); i += 8 {
			allHashes = append(allHashes, binary.LittleEndian.Uint64(hb[i:]))
		}
	}
	sort.Slice(allHashes, func(i, j int) bool { return allHashes[i] < allHashes[j] })
	distinct := int64(0)
	for i, x := range allHashes {
		if i == 0 || x != allHashes[i-1] {
			distinct++
		}
	}

	// C19: race detector reports.
	raceReports := -1
	if *fRaceLog != "" {
		raceReports = 0
		files, _ := filepath.Glob(*fRaceLog + ".*")
		seen := map[string]bool{}
		for _, f := range files {
			b, _ := os.ReadFile(f)
			blocks := strings.Split(string(b), "==================")
			for _, blk := range blocks {
				if !strings.Contains(blk, "WARNING: DATA RACE") {
					continue
				}
				raceReports++
				key := raceKey(blk)
				if seen[key] {
					continue
				}
				seen[key] = true
				inLib := strings.Contains(blk, "github.com/theory/sqljson")
				cl := "race"
				feat := h.F("where", "library")
				if !inLib {
					feat = h.F("where", "harness-only")
				}
				d := blk
				if len(d) > 3000 {
					d = d[:3000]
				}
				v := h.Violation{Prop: p.ID, Clause: cl, Features: feat, Detail: d, Case: h.Case{Kind: "race-report", Input: key}}
				if !inLib {
					infra = append(infra, "race report with no library frame (harness race?): "+key)
					continue
				}
				merged.Violations = append(merged.Violations, v)
				merged.VioCount[v.Sig()]++
			}
		}
		st := merged.Clauses["race"]
		if st == nil {
			st = &h.ClauseStat{}
			merged.Clauses["race"] = st
		}
		st.Exercised += int64(nshards)
		if raceReports == 0 {
			st.Held += int64(nshards)
		} else {
			st.Violated += int64(len(seen))
		}
		merged.Counters["race.reports"] = int64(raceReports)
		merged.Counters["race.distinct"] = int64(len(seen))
	}

	// Known findings.
	known := loadKnown(*fRoot, p.ID)
	knownHits := make([]int64, len(known))
	var fresh []h.Violation
	freshSigs := map[string]bool{}
	for i := range merged.Violations {
		v := &merged.Violations[i]
		matched := false
		for ki := range known {
			if known[ki].matches(v) {
				knownHits[ki]++
				matched = true
				break
			}
		}
		if !matched {
			if !freshSigs[v.Sig()] {
				freshSigs[v.Sig()] = true
				fresh = append(fresh, *v)
			}
		}
	}

	// Vacuity: required clauses.
	for cl, min := range p.MinExercised {
		st := merged.Clauses[cl]
		var n int64
		if st != nil {
			n = st.Exercised
		}
		if n < min {
			infra = append(infra, fmt.Sprintf("clause %s exercised %d times (< %d): inconclusive", cl, n, min))
		}
	}

	// Evidence.
	wall := time.Since(start).Seconds()
	writeEvidence(p, &merged, distinct, wall, len(fresh), known, knownHits, infra)

	// Report.
	for ki, k := range known {
		if knownHits[ki] > 0 {
			fmt.Printf("KNOWN-FINDING: property=%s clause=%s %s (%s)\n", p.ID, k.Clause, k.What, fmtMatch(k.Match))
		}
	}
	code := 0
	if len(fresh) > 0 {
		rdir := filepath.Join(*fRoot, "replays", p.ID)
		_ = os.MkdirAll(rdir, 0o755)
		for i, v := range fresh {
			if i >= 25 {
				fmt.Printf("… %d more distinct violation signatures not written\n", len(fresh)-i)
				break
			}
			rf := replayFile{Violation: v, Tier: *fTier, Seed: *fSeed}
			b, _ := json.MarshalIndent(rf, "", " ")
			name := filepath.Join(rdir, fmt.Sprintf("%s-%s-seed%d-%02d.json", p.ID, *fTier, *fSeed, i))
			_ = os.WriteFile(name, b, 0o644)
			fmt.Printf("  clause=%s %v count=%d\n    %s\n    case: %s\n", v.Clause, v.Features, merged.VioCount[v.Sig()], oneLine(v.Detail, 400), caseLine(v.Case))
			fmt.Printf("VIOLATION property=%s replay=%s\n", p.ID, name)
		}
		code = 1
	}
	if len(infra) > 0 {
		seenInfra := map[string]int{}
		for _, s := range infra {
			key := s
			if i := strings.Index(key, ": "); i > 0 && strings.HasPrefix(key, "shard ") {
				key = key[i+2:]
			}
			if len(key) > 160 {
				key = key[:160]
			}
			seenInfra[key]++
			if seenInfra[key] == 1 && len(seenInfra) <= 8 {
				fmt.Fprintln(os.Stderr, "INCONCLUSIVE:", oneLine(s, 700))
			}
		}
		if code == 0 {
			code = 2
		}
	}
	var nh, ns int64
	for _, st := range merged.Clauses {
		nh += st.Held
		ns += st.Skipped
	}
	fmt.Printf("%s %s seed=%d: evaluations=%d distinct_nontrivial=%d clause-verdicts held=%d skipped=%d new-violations=%d known-findings-hit=%d wall=%.1fs exit=%d\n",
		p.ID, *fTier, *fSeed, merged.Evals, distinct, nh, ns, len(fresh), countHit(knownHits), wall, code)
	return code
}

func countHit(h []int64) int {
	n := 0
	for _, x := range h {
		if x > 0 {
			n++
		}
	}
	return n
}

func fmtMatch(m map[string]string) string {
	ks := make([]string, 0, len(m))
	for k := range m {
		ks = append(ks, k)
	}
	sort.Strings(ks)
	var parts []string
	for _, k := range ks {
		parts = append(parts, k+"="+m[k])
	}
	return strings.Join(parts, " ")
}

func oneLine(s string, n int) string {
	s = strings.ReplaceAll(s, "\n", " ⏎ ")
	if len(s) > n {
		s = s[:n] + "…"
	}
	return s
}

func caseLine(c h.Case) string {
	b, _ := json.Marshal(c)
	return oneLine(string(b), 600)
}

func raceKey(blk string) string {
	// outermost library frames of the two stacks, line numbers stripped
	var fr []string
	for _, ln := range strings.Split(blk, "\n") {
		ln = strings.TrimSpace(ln)
		if strings.HasPrefix(ln, "github.com/theory/sqljson") {
			if i := strings.Index(ln, "("); i > 0 {
				ln = ln[:i]
			}
			fr = append(fr, ln)
		}
	}
	if len(fr) > 6 {
		fr = fr[:6]
	}
	return strings.Join(fr, " <- ")
}

func writeEvidence(p *props.Prop, m *h.Result, distinct int64, wall float64, nviol int,
	known []knownFinding, hits []int64, infra []string) {
	cov := map[string]any{}
	cov["evaluations"] = m.Evals
	cov["distinct_nontrivial"] = distinct
	cov["rule"] = p.Rule
	var samples []any
	keys := make([]string, 0, len(m.Samples))
	for k := range m.Samples {
		keys = append(keys, k)
	}
	sort.Strings(keys)
	for _, k := range keys {
		for _, s := range m.Samples[k] {
			if len(samples) < 40 {
				samples = append(samples, map[string]any{"what": k, "case": s})
			}
		}
	}
	if len(samples) == 0 {
		samples = append(samples, "no sample recorded")
	}
	cov["samples"] = samples
	cov["clauses"] = m.Clauses
	states := map[string]int64{}
	other := map[string]int64{}
	for k, v := range m.Counters {
		if strings.HasPrefix(k, "state:") {
			states[strings.TrimPrefix(k, "state:")] = v
		} else {
			other[k] = v
		}
	}
	if lc := libraryCoverage(); lc != nil {
		cov["library_statement_coverage"] = lc
	}
	cov["hook_states_seen"] = len(states)
	cov["hook_state_matrix"] = states
	cov["counters"] = other
	if len(m.Exhaustive) > 0 {
		parts := []string{}
		for k := range m.Exhaustive {
			parts = append(parts, k)
		}
		sort.Strings(parts)
		cov["exhaustive_parts"] = parts
	}
	cov["exhaustive"] = false
	if len(m.Notes) > 0 {
		n := m.Notes
		if len(n) > 20 {
			n = n[:20]
		}
		cov["notes"] = n
	}
	kf := []any{}
	for i, k := range known {
		kf = append(kf, map[string]any{"clause": k.Clause, "match": k.Match, "what": k.What, "hits_this_run": hits[i]})
	}
	cov["known_findings"] = kf
	if len(infra) > 0 {
		cov["inconclusive"] = infra
	}
	ev := map[string]any{
		"property_id": p.ID,
		"tier":        *fTier,
		"seed":        int64(*fSeed),
		"level":       p.Level,
		"coverage":    cov,
		"assumptions": p.Assumptions,
		"wall_s":      wall,
		"violations":  nviol,
	}
	b, _ := json.MarshalIndent(ev, "", " ")
	_ = os.MkdirAll(filepath.Join(*fRoot, "evidence"), 0o755)
	_ = os.WriteFile(filepath.Join(*fRoot, "evidence", p.ID+".json"), b, 0o644)
}

// libraryCoverage reports, for a build with coverage instrumentation (the
// thorough tier), which share of the statements of each package of the
// library the worker processes of this run executed. The workers have exited
// (and flushed their counters into GOCOVERDIR) when the evidence is written.
func libraryCoverage() map[string]any {
	dir := os.Getenv("GOCOVERDIR")
	if dir == "" {
		return nil
	}
	if ents, err := os.ReadDir(dir); err != nil || len(ents) == 0 {
		return nil
	}
	out, err := exec.Command("go", "tool", "covdata", "percent", "-i="+dir).Output()
	if err != nil {
		return map[string]any{"error": err.Error()}
	}
	res := map[string]any{}
	for _, line := range strings.Split(string(out), "\n") {
		// "<pkg>\t\tcoverage: 93.1% of statements"
		f := strings.Fields(line)
		if len(f) >= 3 && f[1] == "coverage:" && strings.Contains(f[0], "theory/sqljson/") {
			res[strings.TrimPrefix(f[0], "github.com/theory/sqljson/")] = f[2]
		}
	}
	res["note"] = "statements of the library executed by this run's worker processes (go build -cover); the generated parser tables and defensive 'cannot happen' branches account for the remainder"
	return res
}
