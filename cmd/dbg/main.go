// dbg: development helper - run one (path, doc) through the implementation and the model.
package main

import (
	"flag"
	"fmt"

	"verif/internal/h"
	"verif/internal/model"
)

func main() {
	useNum := flag.Bool("n", false, "UseNumber")
	silent := flag.Bool("s", false, "silent")
	tz := flag.Bool("tz", false, "WithTZ")
	zone := flag.String("zone", "", "zone")
	vars := flag.String("vars", `{"v":1,"w":"ab","arr":[1,2,{"a":3}],"sarr":["ab","b",1],"obj":{"a":1,"b":[1,2]},"nul":null}`, "vars")
	flag.Parse()
	h.InstallHooks()
	p, err, pan := h.ParseSafe(flag.Arg(0))
	fmt.Println("parse:", p, err, pan)
	if p == nil {
		return
	}
	opts := h.Opts{Vars: h.DecodeVars(*vars, *useNum), Silent: *silent, TZ: *tz, Zone: h.ParseZone(*zone)}
	for _, e := range h.Entries {
		o := h.Call(e, p, h.Decode(flag.Arg(1), *useNum), opts)
		fmt.Printf("%-14s %s steps=%d faults=%v\n", e, o.Summary(), o.Steps, o.Faults)
	}
	show := func(name string, dev model.Dev) {
		r := model.Eval(p.AST, h.Decode(flag.Arg(1), *useNum), model.Options{Vars: h.DecodeVars(*vars, *useNum), UseTZ: *tz, Zone: h.ParseZone(*zone), Dev: dev})
		fmt.Printf("model[%s]: unspec=%q capped=%v\n", name, r.Unspec, r.Capped)
		for _, o := range r.Outcomes {
			fmt.Printf("   %s %v %s\n", o.Class, h.CanonList(model.NormalizeIDs(o.Items)), o.Msg)
		}
	}
	show("base", model.Dev{})
	show("R1", model.Dev{SubscriptSkipsNull: true})
	show("R6", model.Dev{UnaryExistsShortcut: true})
	show("isunk", model.Dev{IsUnknownSwallowsHard: true})
}
