#!/usr/bin/env bash
# Offline setup: verifies the harness module resolves from the module cache
# and warms the Go build cache (plain and -race builds of the driver).
set -eu
cd "$(dirname "$0")"
export GOFLAGS=-mod=mod GOPROXY=off GOSUMDB=off GOTOOLCHAIN=local
mkdir -p .work/setup evidence replays
go build -tags verif -o .work/setup/vcheck ./cmd/vcheck
go build -tags verif -race -o .work/setup/vcheck-race ./cmd/vcheck
rm -rf .work/setup
echo "setup ok"
